(* SQLITE layer, C02: simulation lemma for DeleteColumn through ALTER TABLE … DROP COLUMN (delete_column.rs:70-110): the
   single-column indexes / uniques over the column are dropped first (DROP INDEX by derived name), then the column.
   Side conditions: outside known_C02_composite_member_drop and known_C02_check_survives_column_drop ([delcol_ok], Sim7P),
   the derived names of the dropped indexes belong to nothing else (C19, A3), the column name has no case variant. *)
From Coq Require Import Lia Permutation.
From VV.SQLITE Require Import Corr Known RowsP RebuildP SimP Sim2P Sim4P Sim5P Sim6P Sim7P.

(* the constraints the ALTER path drops first *)
Definition dropped_by (col : string) (k : table_constraint) : bool :=
  (index_like k && mem_str col (constraint_columns k))%bool.

(* what delete_column_scan lets through to the ALTER path *)
Definition plain_ok (col : string) (k : table_constraint) : bool :=
  match k with
  | CCheck _ e => negb (check_mentions col e)
  | CPrimaryKey _ cols | CForeignKey _ cols _ _ _ _ => negb (mem_str col cols)
  | _ => true
  end.

Lemma scan_drops t col : forall cs acc l,
  delete_column_scan t col cs acc = DcDrops l ->
  l = acc ++ map (fun k => SDropIndex (idx_name t k)) (filter (dropped_by col) cs) /\ forallb (plain_ok col) cs = true.
Proof.
  induction cs as [|k cs IH]; intros acc l H; cbn [delete_column_scan] in H.
  - injection H as <-. cbn [filter map forallb]. now rewrite app_nil_r.
  - destruct k as [a pc|n uc|n fc rt rc od ou|n e|n ic];
      cbn [constraint_columns] in H; unfold dropped_by, index_like;
      cbn [filter is_index is_unique orb andb constraint_columns plain_ok forallb].
    + destruct (mem_str col pc) eqn:M; cbn [negb] in H; [discriminate|]. apply IH in H as [-> Hf]. now rewrite Hf.
    + destruct (mem_str col uc) eqn:M; cbn [negb] in H; apply IH in H as [-> Hf]; rewrite Hf; split; try reflexivity.
      cbn [map idx_name]. now rewrite <- app_assoc.
    + destruct (mem_str col fc) eqn:M; cbn [negb] in H; [discriminate|]. apply IH in H as [-> Hf]. now rewrite Hf.
    + destruct (check_mentions col e) eqn:M; [discriminate|]. apply IH in H as [-> Hf]. now rewrite Hf.
    + destruct (mem_str col ic) eqn:M; cbn [negb] in H; apply IH in H as [-> Hf]; rewrite Hf; split; try reflexivity.
      cbn [map idx_name]. now rewrite <- app_assoc.
Qed.

(* ---------- a run of DROP INDEX statements ---------- *)
Lemma filter_all_true {A} (p : A -> bool) l : (forall x, p x = true) -> filter p l = l.
Proof. intro H. induction l as [|x l IH]; [reflexivity|]. cbn [filter]. now rewrite H, IH. Qed.

Lemma filter_filter {A} (p q : A -> bool) l : filter p (filter q l) = filter (fun x => (q x && p x)%bool) l.
Proof.
  induction l as [|x l IH]; [reflexivity|]. cbn [filter]. destruct (q x); cbn [filter andb]; [destruct (p x)|]; now rewrite IH.
Qed.

Definition not_named (names : list string) (i : cindex) : bool := negb (existsb (fun d => ieq (ci_name i) d) names).

Lemma exec_drop_indexes fk : forall names c i c1,
  exec_all fk c (map SDropIndex names) i = Ok c1 ->
  c1 = mkCat (cat_tables c) (filter (not_named names) (cat_indexes c)).
Proof.
  induction names as [|n names IH]; intros c i c1 H; cbn [map exec_all] in H.
  - injection H as <-. destruct c as [ts ix]. cbn [cat_tables cat_indexes]. f_equal. symmetry. now apply filter_all_true.
  - destruct (exec fk c (SDropIndex n)) as [c0|] eqn:E; [|discriminate]. cbn [exec] in E.
    destruct (has_cindex n c); [|discriminate]. injection E as <-.
    apply IH in H. subst c1. cbn [cat_tables cat_indexes]. f_equal. rewrite filter_filter.
    apply filter_ext. intro x. unfold not_named. cbn [existsb]. now rewrite Bool.negb_orb.
Qed.

(* ---------- the derived names of the dropped indexes belong to them alone ---------- *)
Definition dropped_names (t col : string) (td : table_def) : list string :=
  map (idx_name t) (filter (dropped_by col) (t_constraints td)).

Definition delcol_names_ok (s : schema) (t col : string) (td : table_def) : bool :=
  forallb (fun x => forallb (fun c0 => if index_like c0
                       then Bool.eqb (existsb (fun d => ieq (idx_name (t_name x) c0) d) (dropped_names t col td))
                                     (String.eqb (t_name x) t && dropped_by col c0)%bool
                       else true) (t_constraints x)) s.

Lemma entries_filter_names t col D (x : table_def) :
  forallb (fun c0 => if index_like c0
                     then Bool.eqb (existsb (fun d => ieq (idx_name (t_name x) c0) d) D) (String.eqb (t_name x) t && dropped_by col c0)%bool
                     else true) (t_constraints x) = true ->
  filter (not_named D) (index_entries x)
  = if String.eqb (t_name x) t
    then flat_map (index_entry_of (t_name x)) (filter (keeps_after_delcol col) (t_constraints x))
    else index_entries x.
Proof.
  unfold index_entries. fold (index_entry_of (t_name x)).
  change (fun k0 => match k0 with
                    | CIndex n cols => [mkCIndex (build_index_name (t_name x) cols n) (t_name x) false cols]
                    | CUnique n cols => [mkCIndex (build_unique_constraint_name (t_name x) cols n) (t_name x) true cols]
                    | _ => [] end) with (index_entry_of (t_name x)).
  induction (t_constraints x) as [|k cs IH]; intro H; cbn [forallb flat_map filter] in *.
  - now destruct (String.eqb (t_name x) t).
  - apply andb_prop in H as [H1 H2]. specialize (IH H2). rewrite filter_app, IH.
    destruct (index_like k) eqn:L.
    + apply Bool.eqb_prop in H1.
      assert (F : filter (not_named D) (index_entry_of (t_name x) k)
                  = if existsb (fun d => ieq (idx_name (t_name x) k) d) D then [] else index_entry_of (t_name x) k).
      { destruct k; try discriminate; cbn [index_entry_of filter idx_name]; unfold not_named; cbn [ci_name];
          destruct (existsb _ D); reflexivity. }
      rewrite F, H1. unfold dropped_by. rewrite L. cbn [andb].
      assert (K : keeps_after_delcol col k = negb (mem_str col (constraint_columns k))) by (destruct k; try discriminate; reflexivity).
      rewrite K. destruct (String.eqb (t_name x) t); cbn [andb]; [|reflexivity].
      destruct (mem_str col (constraint_columns k)); cbn [negb flat_map app]; reflexivity.
    + assert (E : index_entry_of (t_name x) k = []) by (destruct k; try discriminate; reflexivity).
      rewrite E. cbn [filter app]. destruct (String.eqb (t_name x) t); [|reflexivity].
      destruct (keeps_after_delcol col k); cbn [flat_map]; now rewrite ?E.
Qed.

(* ---------- the entry of the table after DROP COLUMN ---------- *)
Definition col_ci_exact (col : string) (td : table_def) : bool :=
  forallb (fun c => Bool.eqb (ieq (c_name c) col) (String.eqb (c_name c) col)) (t_columns td).
Definition col_not_enum (col : string) (td : table_def) : bool :=
  forallb (fun c => negb (String.eqb (c_name c) col && is_enum_type (c_type c))) (t_columns td).

Lemma filter_map_swap {A B} (f : A -> B) (p : B -> bool) (q : A -> bool) : forall l,
  (forall x, In x l -> p (f x) = q x) -> filter p (map f l) = map f (filter q l).
Proof.
  induction l as [|x l IH]; intro H; [reflexivity|]. cbn [map filter]. rewrite (H x (or_introl eq_refl)).
  rewrite IH by (intros y Hy; apply H; now right). now destruct (q x).
Qed.

Lemma find_pk_keep col : forall cs, forallb (plain_ok col) cs = true ->
  find is_pk (filter (keeps_after_delcol col) cs) = find is_pk cs.
Proof.
  induction cs as [|k cs IH]; intro H; [reflexivity|]. cbn [forallb] in H. apply andb_prop in H as [H1 H2].
  cbn [filter]. destruct k as [a pc|n uc|n fc rt rc od ou|n e|n ic]; cbn [keeps_after_delcol constraint_columns plain_ok] in *.
  - rewrite H1. reflexivity.
  - destruct (negb (mem_str col uc)); cbn [find is_pk]; now apply IH.
  - rewrite H1. cbn [find is_pk]. now apply IH.
  - rewrite H1. cbn [find is_pk]. now apply IH.
  - destruct (negb (mem_str col ic)); cbn [find is_pk]; now apply IH.
Qed.

Lemma fks_keep col : forall cs, forallb (plain_ok col) cs = true ->
  table_fks (filter (keeps_after_delcol col) cs) = table_fks cs.
Proof.
  unfold table_fks. induction cs as [|k cs IH]; intro H; [reflexivity|]. cbn [forallb] in H. apply andb_prop in H as [H1 H2].
  cbn [filter]. destruct k as [a pc|n uc|n fc rt rc od ou|n e|n ic]; cbn [keeps_after_delcol constraint_columns plain_ok] in *.
  - rewrite H1. cbn [flat_map app]. now apply IH.
  - destruct (negb (mem_str col uc)); cbn [flat_map app]; now apply IH.
  - rewrite H1. cbn [flat_map app]. f_equal. now apply IH.
  - rewrite H1. cbn [flat_map app]. now apply IH.
  - destruct (negb (mem_str col ic)); cbn [flat_map app]; now apply IH.
Qed.

Lemma explicit_keep col : forall cs, forallb (plain_ok col) cs = true ->
  explicit_checks (filter (keeps_after_delcol col) cs) = explicit_checks cs.
Proof.
  unfold explicit_checks. induction cs as [|k cs IH]; intro H; [reflexivity|]. cbn [forallb] in H. apply andb_prop in H as [H1 H2].
  cbn [filter]. destruct k as [a pc|n uc|n fc rt rc od ou|n e|n ic]; cbn [keeps_after_delcol constraint_columns plain_ok] in *.
  - rewrite H1. cbn [flat_map app]. now apply IH.
  - destruct (negb (mem_str col uc)); cbn [flat_map app]; now apply IH.
  - rewrite H1. cbn [flat_map app]. now apply IH.
  - rewrite H1. cbn [flat_map app]. f_equal. now apply IH.
  - destruct (negb (mem_str col ic)); cbn [flat_map app]; now apply IH.
Qed.

Lemma enum_checks_without t col : forall cols,
  forallb (fun c => negb (String.eqb (c_name c) col && is_enum_type (c_type c))) cols = true ->
  enum_checks t (filter (fun c => negb (String.eqb (c_name c) col)) cols) = enum_checks t cols.
Proof.
  unfold enum_checks. induction cols as [|c cols IH]; intro H; [reflexivity|]. cbn [forallb] in H. apply andb_prop in H as [H1 H2].
  cbn [filter flat_map]. destruct (String.eqb (c_name c) col); cbn [negb andb flat_map] in *.
  - rewrite (IH H2). unfold enum_check. destruct (c_type c); try reflexivity. discriminate.
  - now rewrite (IH H2).
Qed.

Lemma entry_without_plain td col :
  col_ci_exact col td = true -> forallb (plain_ok col) (t_constraints td) = true -> col_not_enum col td = true ->
  mkCTable (ct_name (table_entry td)) (filter (fun x => negb (ieq (cc_name x) col)) (ct_cols (table_entry td)))
           (ct_autoinc (table_entry td)) (ct_fks (table_entry td)) (ct_checks (table_entry td))
  = table_entry (without_column td col).
Proof.
  intros Hci Hplain Hen. unfold table_entry, without_column, pk_of. cbn [t_name t_columns t_constraints].
  rewrite (find_pk_keep col _ Hplain).
  destruct (match match find is_pk (t_constraints td) with Some (CPrimaryKey a cols) => Some (a, cols) | _ => None end with
            | Some p => p | None => (false, []) end) as [auto pkcols].
  cbn [ct_name ct_cols ct_autoinc ct_fks ct_checks]. f_equal.
  - apply filter_map_swap. intros c Hc. cbn [cc_name]. unfold col_ci_exact in Hci. rewrite forallb_forall in Hci.
    now rewrite (Bool.eqb_prop _ _ (Hci c Hc)).
  - symmetry. now apply fks_keep.
  - unfold all_checks. rewrite (explicit_keep col _ Hplain). unfold col_not_enum in Hen. now rewrite (enum_checks_without _ _ _ Hen).
Qed.

(* ---------- the theorem ---------- *)
Theorem sim_sqlite_delete_column_plain : forall fk s c t col td drops s' c',
  Sim s c -> ci_exact s t = true -> unique_table s t = true ->
  find_table t s = Some td ->
  delete_column_scan t col (t_constraints td) [] = DcDrops drops ->     (* the ALTER path of delete_column.rs *)
  col_not_enum col td = true ->
  col_ci_exact col td = true ->
  forallb (delcol_ok col) (t_constraints td) = true ->                   (* outside composite_member_drop / check_survives *)
  delcol_names_ok s t col td = true ->                                   (* the dropped names belong to the dropped indexes *)
  apply_action s (DeleteColumn t col) = Ok s' ->
  exec_all fk c (drops ++ [SDropColumn t col]) 0 = Ok c' ->
  Sim s' c'.
Proof.
  intros fk s c t col td drops s' c' [Ht Hi] Hci Huniq Hfind Hscan Hen Hcol Hok Hnames Happ Hrun.
  pose proof (apply_delete_column _ _ _ _ _ Happ Hfind Hok) as Happ2.
  apply scan_drops in Hscan as [-> Hplain]. cbn [app] in Hrun.
  apply exec_all_app in Hrun as (c1 & R1 & R2).
  rewrite <- (map_map (idx_name t) SDropIndex) in R1. fold (dropped_names t col td) in R1.
  apply exec_drop_indexes in R1. subst c1.
  set (D := dropped_names t col td) in *.
  cbn [exec_all] in R2.
  destruct (exec fk _ (SDropColumn t col)) as [c2|] eqn:E; [|discriminate]. injection R2 as <-.
  cbn [exec] in E. unfold find_ctable in E. cbn [cat_tables cat_indexes] in E. fold (find_ctable t c) in E.
  destruct (find_ctable t c) as [T|] eqn:FT; [|discriminate].
  destruct (find (fun x => ieq (cc_name x) col) (ct_cols T)); [|discriminate].
  match type of E with (if ?b then _ else _) = _ => destruct b end; [discriminate|]. injection E as <-.
  destruct (split_unique_table t s s' td (without_column td col) Huniq Hfind Happ2) as (s1 & s2 & -> & -> & Hx & Hfil).
  destruct (none_named_split t s1 s2 td Hfil Hx) as [Hs1 Hs2].
  assert (HTin : In T (map table_entry (s1 ++ td :: s2))).
  { unfold find_ctable in FT. apply find_some in FT as [Hin _]. eapply Permutation_in; [exact Ht|exact Hin]. }
  assert (HTn : ct_name T = t).
  { unfold find_ctable in FT. apply find_some in FT as [_ Hieq].
    apply in_map_iff in HTin as (x & <- & Hxin). rewrite table_entry_name in *.
    rewrite (ci_exact_spec _ t x Hci Hxin) in Hieq. now apply String.eqb_eq. }
  assert (HT : T = table_entry td) by (eapply in_entries_named; eauto).
  subst T.
  destruct (ci_exact_app s1 (td :: s2) t Hci) as [C1 C2].
  assert (C3 : ci_exact s2 t = true) by (unfold ci_exact in C2; cbn [forallb] in C2; now apply andb_prop in C2 as [_ C2]).
  split; cbn [cat_tables cat_indexes replace_ctable ct_name].
  - eapply Permutation_trans; [apply Permutation_map; exact Ht|].
    rewrite HTn. rewrite !map_app. cbn [map].
    rewrite (map_replace_entries t _ s1 Hs1 C1), (map_replace_entries t _ s2 Hs2 C3).
    rewrite table_entry_name, Hx, ieq_refl.
    pose proof (entry_without_plain td col Hcol Hplain Hen) as EE. rewrite HTn in EE. rewrite EE. apply Permutation_refl.
  - eapply Permutation_trans; [apply Permutation_filter; exact Hi|].
    assert (G : forall l, forallb (fun x => forallb (fun c0 => if index_like c0
                       then Bool.eqb (existsb (fun d => ieq (idx_name (t_name x) c0) d) D) (String.eqb (t_name x) t && dropped_by col c0)%bool
                       else true) (t_constraints x)) l = true ->
                filter (not_named D) (flat_map index_entries l)
                = flat_map (fun x => if String.eqb (t_name x) t
                                     then flat_map (index_entry_of (t_name x)) (filter (keeps_after_delcol col) (t_constraints x))
                                     else index_entries x) l).
    { induction l as [|x l IH]; intro H; [reflexivity|]. cbn [forallb flat_map] in *. apply andb_prop in H as [H1 H2].
      rewrite filter_app, (IH H2), (entries_filter_names t col D x H1). reflexivity. }
    unfold delcol_names_ok in Hnames. fold D in Hnames. rewrite (G _ Hnames).
    rewrite !flat_map_app. cbn [flat_map]. rewrite Hx, String.eqb_refl.
    assert (Hother : forall l, (forall y, In y l -> String.eqb (t_name y) t = false) ->
              flat_map (fun x => if String.eqb (t_name x) t
                                 then flat_map (index_entry_of (t_name x)) (filter (keeps_after_delcol col) (t_constraints x))
                                 else index_entries x) l = flat_map index_entries l).
    { induction l as [|y l IH]; intro H; [reflexivity|]. cbn [flat_map]. rewrite (H y (or_introl eq_refl)), IH; [reflexivity|].
      intros z Hz. apply H. now right. }
    rewrite (Hother s1 Hs1), (Hother s2 Hs2). unfold index_entries at 3, without_column. cbn [t_constraints t_name].
    rewrite Hx. apply Permutation_refl.
Qed.
