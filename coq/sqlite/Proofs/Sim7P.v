(* SQLITE layer, C02: simulation lemmas for DeleteColumn (rebuild path; ALTER path when no constraint mentions the column)
   and RenameTable (positive when no derived name embeds the old table name and nothing references it).
   Not covered: the DeleteColumn path that first drops single-column indexes, RenameColumn. *)
From Coq Require Import Lia Permutation.
From VV.SQLITE Require Import Corr Known RowsP RebuildP SimP Sim2P Sim4P Sim5P Sim6P.

(* ---------- DeleteColumn ---------- *)
(* outside known_C02_composite_member_drop / check_survives_column_drop: a constraint that mentions the column consists of
   that column alone, no CHECK text mentions it, and no foreign key names it among its referenced columns *)
Definition delcol_ok (col : string) (k : table_constraint) : bool :=
  match k with
  | CCheck _ e => negb (check_mentions col e)
  | CForeignKey _ cols _ rcols _ _ =>
      if mem_str col cols then dec_b (list_eq_dec string_dec) cols [col]
      else (negb (mem_str col rcols) && nonempty cols && nonempty rcols)%bool
  | CPrimaryKey _ cols | CUnique _ cols | CIndex _ cols =>
      if mem_str col cols then dec_b (list_eq_dec string_dec) cols [col] else nonempty cols
  end.

Lemma drop_in_absent col : forall l, mem_str col l = false -> drop_in col l = l.
Proof.
  unfold drop_in, mem_str. induction l as [|x l IH]; intro H; [reflexivity|]. cbn [existsb filter] in *.
  apply Bool.orb_false_iff in H as [H1 H2]. rewrite String.eqb_sym, H1. cbn [negb]. now rewrite IH.
Qed.
Lemma drop_in_single col : drop_in col [col] = [].
Proof. unfold drop_in. cbn [filter]. now rewrite String.eqb_refl. Qed.

Lemma drop_constraint_simple col k : delcol_ok col k = true ->
  drop_column_from_constraint col k
  = if match k with CCheck _ _ => false | _ => mem_str col (constraint_columns k) end then None else Some k.
Proof.
  intro H. destruct k as [a pc|n uc|n fc rt rc od ou|n e|n ic]; cbn [delcol_ok drop_column_from_constraint constraint_columns] in *;
    try reflexivity.
  - destruct (mem_str col pc) eqn:M.
    + unfold dec_b in H. destruct (list_eq_dec string_dec pc [col]) as [->|]; [|discriminate]. now rewrite drop_in_single.
    + rewrite (drop_in_absent _ _ M), H. reflexivity.
  - destruct (mem_str col uc) eqn:M.
    + unfold dec_b in H. destruct (list_eq_dec string_dec uc [col]) as [->|]; [|discriminate]. now rewrite drop_in_single.
    + rewrite (drop_in_absent _ _ M), H. reflexivity.
  - destruct (mem_str col fc) eqn:M.
    + unfold dec_b in H. destruct (list_eq_dec string_dec fc [col]) as [->|]; [|discriminate]. now rewrite drop_in_single.
    + apply andb_prop in H as [H H3]. apply andb_prop in H as [H1 H2]. apply Bool.negb_true_iff in H1.
      rewrite (drop_in_absent _ _ M), (drop_in_absent _ _ H1), H2, H3. reflexivity.
  - destruct (mem_str col ic) eqn:M.
    + unfold dec_b in H. destruct (list_eq_dec string_dec ic [col]) as [->|]; [|discriminate]. now rewrite drop_in_single.
    + rewrite (drop_in_absent _ _ M), H. reflexivity.
Qed.

Definition keeps_after_delcol (col : string) (k : table_constraint) : bool :=
  match k with
  | CCheck _ e => negb (check_mentions col e)
  | _ => negb (mem_str col (constraint_columns k))
  end.

Lemma drop_constraints_filter col : forall cs, forallb (delcol_ok col) cs = true ->
  drop_column_from_constraints col cs = filter (keeps_after_delcol col) cs.
Proof.
  unfold drop_column_from_constraints. induction cs as [|k cs IH]; intro H; [reflexivity|]. cbn [forallb flat_map filter] in *.
  apply andb_prop in H as [H1 H2]. rewrite (IH H2), (drop_constraint_simple _ _ H1).
  destruct k as [a pc|n uc|n fc rt rc od ou|n e|n ic]; cbn [keeps_after_delcol constraint_columns] in *.
  - destruct (mem_str col pc); reflexivity.
  - destruct (mem_str col uc); reflexivity.
  - destruct (mem_str col fc); reflexivity.
  - cbn [delcol_ok] in H1. rewrite H1. reflexivity.
  - destruct (mem_str col ic); reflexivity.
Qed.

Definition without_column (td : table_def) (col : string) : table_def :=
  mkTable (t_name td) (t_description td) (filter (fun c => negb (String.eqb (c_name c) col)) (t_columns td))
          (filter (keeps_after_delcol col) (t_constraints td)).

Lemma apply_delete_column s t col td s' :
  apply_action s (DeleteColumn t col) = Ok s' -> find_table t s = Some td ->
  forallb (delcol_ok col) (t_constraints td) = true ->
  update_table t (fun _ => Ok (without_column td col)) s = Ok s'.
Proof.
  intros Happ Hfind Hok. cbn [apply_action] in Happ.
  eapply update_table_first; [exact Happ|exact Hfind|]. cbn beta.
  destruct (has_column col td) eqn:Hc.
  - unfold without_column. now rewrite (drop_constraints_filter _ _ Hok).
  - exfalso. revert s' Happ. unfold find_table in Hfind.
    induction s as [|x s IH]; intros s' H; cbn [update_table find] in *; [discriminate|].
    destruct (String.eqb (t_name x) t).
    + injection Hfind as ->. rewrite Hc in H. discriminate.
    + destruct (update_table t _ s) eqn:U; [|discriminate]. eapply IH; eauto.
Qed.

(* the rebuild path: the column is an enum, or a primary key / foreign key contains it *)
Theorem sim_sqlite_delete_column_rebuild : forall fk s c t col td s' l c',
  Sim s c -> ci_exact s t = true -> temp_free s t = true -> unique_table s t = true ->
  find_table t s = Some td ->
  forallb (delcol_ok col) (t_constraints td) = true ->
  pk_sane (without_column td col) = true ->
  apply_action s (DeleteColumn t col) = Ok s' ->
  delete_column_temp t col td = GOk l ->               (* what gen returns on the rebuild path *)
  exec_all fk c l 0 = Ok c' ->
  Sim s' c'.
Proof.
  intros fk s c t col td s' l c' HS Hci Htf Huniq Hfind Hok Hsane Happ Hgen Hrun.
  assert (Hname : t_name td = t).
  { unfold find_table in Hfind. apply find_some in Hfind as [_ H]. now apply String.eqb_eq. }
  assert (Hin : In td s) by (unfold find_table in Hfind; now apply find_some in Hfind as [H _]).
  pose proof (apply_delete_column _ _ _ _ _ Happ Hfind Hok) as Happ2.
  unfold delete_column_temp in Hgen.
  change (filter (fun k => match k with CCheck _ e => negb (check_mentions col e) | _ => negb (mem_str col (constraint_columns k)) end)
                 (t_constraints td)) with (filter (keeps_after_delcol col) (t_constraints td)) in Hgen.
  set (new_cols := filter (fun c0 => negb (String.eqb (c_name c0) col)) (t_columns td)) in *.
  set (new_cs := filter (keeps_after_delcol col) (t_constraints td)) in *.
  unfold rebuild, temp_table_create, create_table_stmt in Hgen.
  destruct (map_option _ new_cols) as [scols|] eqn:Hmap.
  2:{ destruct (all_checks t new_cols new_cs); discriminate. }
  injection Hgen as <-.
  eapply (sim_rebuild_general fk s c t td (without_column td col) s' scols
            (table_pks new_cols new_cs) (table_fks new_cs) (all_checks t new_cols new_cs) (col_names new_cols) (copy_all new_cols) []); eauto.
  - apply fks_filter_avoid. apply fks_avoid. unfold temp_free in Htf. rewrite forallb_forall in Htf. specialize (Htf td Hin).
    now apply andb_prop in Htf as [_ Htf].
  - apply (entry_believed t (without_column td col) scols new_cs); try reflexivity; try assumption.
Qed.

(* ---------- RenameTable ---------- *)
Definition no_enum_cols (td : table_def) : bool := forallb (fun c => negb (is_enum_type (c_type c))) (t_columns td).
Definition no_ref_ci (s : schema) (t : string) : bool :=
  forallb (fun x => forallb (fun k => match k with CForeignKey _ _ rt _ _ _ => negb (ieq rt t) | _ => true end) (t_constraints x)) s.

Lemma enum_checks_none t cols : forallb (fun c => negb (is_enum_type (c_type c))) cols = true -> enum_checks t cols = [].
Proof.
  unfold enum_checks. induction cols as [|c cols IH]; [reflexivity|]. cbn [forallb flat_map]. intro H.
  apply andb_prop in H as [H1 H2]. rewrite (IH H2). unfold enum_check. destruct (c_type c); try reflexivity. discriminate.
Qed.

Lemma index_entries_none td : existsb index_like (t_constraints td) = false -> forall nm d, index_entries (mkTable nm d (t_columns td) (t_constraints td)) = [].
Proof.
  intros H nm d. unfold index_entries. cbn [t_constraints t_name]. induction (t_constraints td) as [|k cs IH]; [reflexivity|].
  cbn [existsb flat_map] in *. apply Bool.orb_false_iff in H as [H1 H2]. rewrite (IH H2).
  destruct k; try reflexivity; discriminate.
Qed.

Lemma rename_entry_believed from to td :
  t_name td = from -> no_enum_cols td = true ->
  forallb (fun f => negb (ieq (sf_table f) from)) (table_fks (t_constraints td)) = true ->
  rename_table_entry from to (table_entry td) = table_entry (mkTable to (t_description td) (t_columns td) (t_constraints td)).
Proof.
  intros Hx Hne Hfk. unfold table_entry, rename_table_entry, pk_of. cbn [t_name t_columns t_constraints].
  destruct (match match find is_pk (t_constraints td) with Some (CPrimaryKey a cols) => Some (a, cols) | _ => None end with
            | Some p => p | None => (false, []) end) as [auto pkcols].
  cbn [ct_name ct_cols ct_autoinc ct_fks ct_checks]. rewrite Hx, ieq_refl. f_equal.
  - apply map_id_when. intros f Hin. rewrite forallb_forall in Hfk. specialize (Hfk f Hin).
    destruct (ieq (sf_table f) from); [discriminate|reflexivity].
  - unfold all_checks. unfold no_enum_cols in Hne. now rewrite !(enum_checks_none _ _ Hne).
Qed.

Theorem sim_sqlite_rename_table : forall fk s c from to td s' c',
  Sim s c -> ci_exact s from = true -> unique_table s from = true ->
  find_table from s = Some td ->
  (* outside known_C02_rename_table: no index / unique, no enum column, nothing references the table *)
  existsb index_like (t_constraints td) = false -> no_enum_cols td = true -> no_ref_ci s from = true ->
  apply_action s (RenameTable from to) = Ok s' ->
  exec_all fk c [SRenameTable from to] 0 = Ok c' ->
  Sim s' c'.
Proof.
  intros fk s c from to td s' c' [Ht Hi] Hci Huniq Hfind Hnoidx Hnoenum Hnoref Happ Hrun.
  cbn [exec_all] in Hrun. destruct (exec fk c (SRenameTable from to)) as [c1|] eqn:E; [|discriminate]. injection Hrun as <-.
  apply exec_rename_cat in E as (_ & ->).
  cbn [apply_action] in Happ. destruct (has_table to s); [discriminate|].
  set (td' := mkTable to (t_description td) (t_columns td) (t_constraints td)).
  assert (Happ2 : update_table from (fun _ => Ok td') s = Ok s') by (eapply update_table_first; eauto).
  destruct (split_unique_table from s s' td td' Huniq Hfind Happ2) as (s1 & s2 & -> & -> & Hx & Hfil).
  destruct (none_named_split from s1 s2 td Hfil Hx) as [Hs1 Hs2].
  assert (Hother : forall l, (forall x, In x l -> String.eqb (t_name x) from = false) -> ci_exact l from = true -> no_ref_ci l from = true ->
            map (rename_table_entry from to) (map table_entry l) = map table_entry l).
  { induction l as [|x l IH]; intros H C R; [reflexivity|]. cbn [map]. f_equal.
    - apply rename_entry_id.
      + rewrite table_entry_name, (ci_exact_spec (x :: l) from x C (or_introl eq_refl)). apply H. now left.
      + rewrite table_entry_fks. apply fks_avoid. unfold no_ref_ci in R. cbn [forallb] in R. now apply andb_prop in R as [R _].
    - apply IH; [intros y Hy; apply H; now right| |].
      + unfold ci_exact in *. cbn [forallb] in C. now apply andb_prop in C as [_ C].
      + unfold no_ref_ci in *. cbn [forallb] in R. now apply andb_prop in R as [_ R]. }
  destruct (ci_exact_app s1 (td :: s2) from Hci) as [C1 C2].
  assert (C3 : ci_exact s2 from = true) by (unfold ci_exact in C2; cbn [forallb] in C2; now apply andb_prop in C2 as [_ C2]).
  assert (R12 : no_ref_ci s1 from = true /\ no_ref_ci (td :: s2) from = true) by (unfold no_ref_ci in *; rewrite forallb_app in Hnoref; now apply andb_prop).
  destruct R12 as [R1 R2]. assert (R3 : no_ref_ci s2 from = true) by (unfold no_ref_ci in R2; cbn [forallb] in R2; now apply andb_prop in R2 as [_ R2]).
  assert (Rtd : forallb (fun f => negb (ieq (sf_table f) from)) (table_fks (t_constraints td)) = true).
  { apply fks_avoid. unfold no_ref_ci in R2. cbn [forallb] in R2. now apply andb_prop in R2 as [R2 _]. }
  split; cbn [cat_tables cat_indexes].
  - eapply Permutation_trans; [apply Permutation_map; exact Ht|].
    rewrite !map_app. cbn [map]. rewrite (Hother s1 Hs1 C1 R1), (Hother s2 Hs2 C3 R3).
    rewrite (rename_entry_believed from to td Hx Hnoenum Rtd). apply Permutation_refl.
  - eapply Permutation_trans; [apply Permutation_map; exact Hi|].
    rewrite map_id_when.
    + rewrite !flat_map_app. cbn [flat_map]. unfold td'. rewrite (index_entries_none td Hnoidx).
      assert (index_entries td = []).
      { pose proof (index_entries_none td Hnoidx (t_name td) (t_description td)) as H. now destruct td. }
      rewrite H. apply Permutation_refl.
    + intros i Hin. apply in_flat_map in Hin as (x & Hxin & Hix). rewrite (index_entries_table _ _ Hix).
      apply in_app_or in Hxin as [Hx1|[<-|Hx2]].
      * rewrite (ci_exact_spec _ from x C1 Hx1), (Hs1 x Hx1). reflexivity.
      * exfalso. assert (index_entries td = []).
        { pose proof (index_entries_none td Hnoidx (t_name td) (t_description td)) as H. now destruct td. }
        rewrite H in Hix. contradiction.
      * rewrite (ci_exact_spec _ from x C3 Hx2), (Hs2 x Hx2). reflexivity.
Qed.
