(* SQLITE layer, C02: simulation lemmas for RenameTable (positive when no derived name embeds the old table name) and
   RemoveConstraint (DROP INDEX path and the rebuilding kinds). *)
From Coq Require Import Lia Permutation.
From VV.SQLITE Require Import Corr Known RowsP RebuildP SimP Sim2P Sim4P Sim5P.

Definition core (c : column_def) := (c_name c, c_type c, c_nullable c, c_default c).

(* ---------- clear_inline (apply.rs:206-304) touches only the inline constraint fields ---------- *)
Lemma map_core f : (forall c, core (f c) = core c) -> forall cols, map core (map f cols) = map core cols.
Proof. intros H cols. rewrite map_map. apply map_ext. exact H. Qed.

Lemma modify_first_core' p f : (forall c, core (f c) = core c) -> forall cols, map core (modify_first p f cols) = map core cols.
Proof.
  intros Hf. induction cols as [|c cols IH]; [reflexivity|]. cbn [modify_first]. destruct (p c); cbn [map]; [now rewrite Hf|now rewrite IH].
Qed.

Lemma fold_modify_core (g : string -> column_def -> bool) f : (forall c, core (f c) = core c) ->
  forall names cols, map core (fold_left (fun cs x => modify_first (g x) f cs) names cols) = map core cols.
Proof.
  intros Hf. induction names as [|n names IH]; intro cols; [reflexivity|]. cbn [fold_left]. rewrite IH. now apply modify_first_core'.
Qed.

Lemma clear_index_auto_core table name : forall cols, map core (clear_index_auto table name cols) = map core cols.
Proof.
  induction cols as [|c cols IH]; [reflexivity|]. cbn [clear_index_auto]. destruct (dec_b _ _ _); cbn [map]; [reflexivity|now rewrite IH].
Qed.

Lemma clear_unique_named_core cn c : core (clear_unique_named cn c) = core c.
Proof.
  unfold clear_unique_named. destruct (c_unique c) as [[n|names|b]|]; try reflexivity.
  - destruct (String.eqb n cn); reflexivity.
  - destruct (filter _ names); reflexivity.
Qed.
Lemma clear_index_named_core cn c : core (clear_index_named cn c) = core c.
Proof.
  unfold clear_index_named. destruct (c_index c) as [[n|names|b]|]; try reflexivity.
  - destruct (String.eqb n cn); reflexivity.
  - destruct (filter _ names); [reflexivity|]. destruct (Nat.ltb _ _); reflexivity.
Qed.

Lemma clear_inline_core table k cols : map core (clear_inline table k cols) = map core cols.
Proof.
  destruct k as [a pc|n uc|n fc rt rc od ou|n e|n ic]; cbn [clear_inline].
  - apply (fold_modify_core (fun x => named x)). reflexivity.
  - assert (H1 : map core (match n, uc with None, [x] => modify_first (named x) (set_unique None) cols | _, _ => cols end) = map core cols).
    { destruct n; [reflexivity|]. destruct uc as [|x [|y r]]; try reflexivity. now apply modify_first_core'. }
    destruct n; [|exact H1]. rewrite map_core; [exact H1|apply clear_unique_named_core].
  - apply (fold_modify_core (fun x => named x)). reflexivity.
  - reflexivity.
  - assert (H2 : map core (match n, ic with None, [x] => modify_first (named x) (set_index None) (clear_index_auto table n cols)
                                   | _, _ => clear_index_auto table n cols end) = map core cols).
    { destruct n; [apply clear_index_auto_core|]. destruct ic as [|x [|y r]]; try apply clear_index_auto_core.
      rewrite modify_first_core' by reflexivity. apply clear_index_auto_core. }
    destruct n; [|exact H2]. rewrite map_core; [exact H2|apply clear_index_named_core].
Qed.

(* the table entry only looks at the core of the columns *)
Lemma table_entry_core td cols' : map core cols' = map core (t_columns td) ->
  table_entry (mkTable (t_name td) (t_description td) cols' (t_constraints td)) = table_entry td.
Proof. apply table_entry_cols_ext. Qed.

Lemma table_entry_core2 nm d cols cols' cs : map core cols' = map core cols ->
  table_entry (mkTable nm d cols' cs) = table_entry (mkTable nm d cols cs).
Proof. intro H. exact (table_entry_core (mkTable nm d cols cs) cols' H). Qed.

(* entries of a table when constraints that are no key / foreign key / check come or go *)
Definition same_catalog_constraints (cs cs' : list table_constraint) : Prop :=
  find is_pk cs' = find is_pk cs /\ table_fks cs' = table_fks cs /\ explicit_checks cs' = explicit_checks cs.

Lemma table_entry_constraints td cs' : same_catalog_constraints (t_constraints td) cs' ->
  table_entry (mkTable (t_name td) (t_description td) (t_columns td) cs') = table_entry td.
Proof.
  intros (H1 & H2 & H3). unfold table_entry, pk_of, all_checks. cbn [t_name t_columns t_constraints]. now rewrite H1, H2, H3.
Qed.

Lemma filter_not_k_same k cs : index_like k = true ->
  same_catalog_constraints cs (filter (fun c => negb (constraint_eqb c k)) cs).
Proof.
  intro Hk. unfold same_catalog_constraints, table_fks, explicit_checks.
  induction cs as [|c cs (I1 & I2 & I3)]; [repeat split|]. cbn [filter].
  destruct (constraint_eqb c k) eqn:E; cbn [negb].
  - unfold constraint_eqb, dec_b in E. destruct (constraint_eq_dec c k) as [->|]; [|discriminate].
    destruct k; try discriminate; cbn [find is_pk flat_map app]; auto.
  - cbn [find flat_map]. destruct (is_pk c); rewrite ?I1, ?I2, ?I3; auto.
Qed.

(* ---------- RemoveConstraint of an index: DROP INDEX ---------- *)
Definition idx_name (t : string) (k : table_constraint) : string :=
  match k with
  | CIndex n cols => build_index_name t cols n
  | CUnique n cols => build_unique_constraint_name t cols n
  | _ => ""
  end.

(* an index-like constraint c of a table x derives (case-insensitively) k's name iff x is the table t and c is k:
   no collision of derived names (C19) and no case-only variants (A3) *)
Definition name_owner_ok (s : schema) (t : string) (k : table_constraint) : bool :=
  forallb (fun x => forallb (fun c => if index_like c
                                      then Bool.eqb (ieq (idx_name (t_name x) c) (idx_name t k))
                                                    (String.eqb (t_name x) t && constraint_eqb c k)%bool
                                      else true) (t_constraints x)) s.

Lemma index_entry_name t c i : In i (index_entry_of t c) -> ci_name i = idx_name t c /\ index_like c = true.
Proof. destruct c; cbn [index_entry_of]; intros []; try contradiction; subst; auto. Qed.

Lemma entries_filter_table t k name (x : table_def) :
  forallb (fun c => if index_like c then Bool.eqb (ieq (idx_name (t_name x) c) name) (String.eqb (t_name x) t && constraint_eqb c k)%bool
                    else true) (t_constraints x) = true ->
  filter (fun i => negb (ieq (ci_name i) name)) (index_entries x)
  = if String.eqb (t_name x) t
    then flat_map (index_entry_of (t_name x)) (filter (fun c => negb (constraint_eqb c k)) (t_constraints x))
    else index_entries x.
Proof.
  unfold index_entries. fold (index_entry_of (t_name x)).
  change (fun k0 => match k0 with
                    | CIndex n cols => [mkCIndex (build_index_name (t_name x) cols n) (t_name x) false cols]
                    | CUnique n cols => [mkCIndex (build_unique_constraint_name (t_name x) cols n) (t_name x) true cols]
                    | _ => [] end) with (index_entry_of (t_name x)).
  induction (t_constraints x) as [|c cs IH]; intro H; cbn [forallb flat_map filter] in *.
  - now destruct (String.eqb (t_name x) t).
  - apply andb_prop in H as [H1 H2]. specialize (IH H2). rewrite filter_app, IH.
    destruct (index_like c) eqn:L.
    + apply Bool.eqb_prop in H1.
      assert (F : filter (fun i => negb (ieq (ci_name i) name)) (index_entry_of (t_name x) c)
                  = if ieq (idx_name (t_name x) c) name then [] else index_entry_of (t_name x) c).
      { destruct c; try discriminate; cbn [index_entry_of filter ci_name idx_name];
          destruct (ieq _ name); reflexivity. }
      rewrite F, H1. destruct (String.eqb (t_name x) t); cbn [andb].
      * destruct (constraint_eqb c k); cbn [negb flat_map app]; reflexivity.
      * reflexivity.
    + assert (E : index_entry_of (t_name x) c = []) by (destruct c; try discriminate; reflexivity).
      rewrite E. cbn [filter app]. destruct (String.eqb (t_name x) t); [|reflexivity].
      destruct (constraint_eqb c k); cbn [negb flat_map]; now rewrite ?E.
Qed.

Definition removed_from (t : string) (k : table_constraint) (td : table_def) : table_def :=
  mkTable (t_name td) (t_description td) (clear_inline t k (t_columns td))
          (filter (fun c => negb (constraint_eqb c k)) (t_constraints td)).

Lemma removed_entry t k td : index_like k = true -> table_entry (removed_from t k td) = table_entry td.
Proof.
  intro Hk. unfold removed_from.
  rewrite (table_entry_core2 _ _ (t_columns td)) by apply clear_inline_core.
  apply table_entry_constraints. now apply filter_not_k_same.
Qed.

Theorem sim_sqlite_remove_index : forall fk s c t n cols s' l c',
  let k := CIndex n cols in
  Sim s c -> unique_table s t = true -> name_owner_ok s t k = true ->
  apply_action s (RemoveConstraint t k) = Ok s' ->
  gen s [] (RemoveConstraint t k) = GOk l ->
  exec_all fk c l 0 = Ok c' ->
  Sim s' c'.
Proof.
  intros fk s c t n cols s' l c' k [Ht Hi] Huniq Hown Happ Hgen Hrun.
  cbn [gen gen_remove_constraint] in Hgen. injection Hgen as <-.
  cbn [exec_all] in Hrun. destruct (exec fk c (SDropIndex _)) as [c1|] eqn:E; [|discriminate]. injection Hrun as <-.
  cbn [exec] in E. destruct (has_cindex _ c); [|discriminate]. injection E as <-.
  cbn [apply_action] in Happ. fold (removed_from t k) in Happ.
  assert (Happ2 : update_table t (fun td => Ok (removed_from t k td)) s = Ok s') by exact Happ.
  destruct (update_table_split t (removed_from t k) s s' Happ2) as (s1 & td & s2 & -> & -> & Hx & Hs1).
  split; cbn [cat_tables cat_indexes].
  - rewrite map_app. cbn [map]. rewrite removed_entry by reflexivity. rewrite map_app in Ht. exact Ht.
  - eapply Permutation_trans; [apply Permutation_filter; exact Hi|].
    (* table by table *)
    assert (G : forall l, forallb (fun x => forallb (fun c0 => if index_like c0
                                      then Bool.eqb (ieq (idx_name (t_name x) c0) (idx_name t k)) (String.eqb (t_name x) t && constraint_eqb c0 k)%bool
                                      else true) (t_constraints x)) l = true ->
                filter (fun i => negb (ieq (ci_name i) (idx_name t k))) (flat_map index_entries l)
                = flat_map (fun x => if String.eqb (t_name x) t
                                     then flat_map (index_entry_of (t_name x)) (filter (fun c0 => negb (constraint_eqb c0 k)) (t_constraints x))
                                     else index_entries x) l).
    { induction l as [|x l IH]; intro H; [reflexivity|]. cbn [forallb flat_map] in *. apply andb_prop in H as [H1 H2].
      rewrite filter_app, (IH H2), (entries_filter_table t k (idx_name t k) x H1). reflexivity. }
    unfold name_owner_ok in Hown. change (build_index_name t cols n) with (idx_name t k). rewrite (G _ Hown).
    rewrite !flat_map_app. cbn [flat_map]. rewrite Hx, String.eqb_refl.
    assert (Hs2 : forall y, In y s2 -> String.eqb (t_name y) t = false).
    { unfold unique_table in Huniq. rewrite filter_app in Huniq. cbn [filter] in Huniq. rewrite Hx, String.eqb_refl in Huniq.
      rewrite app_length in Huniq. cbn [List.length] in Huniq. apply Nat.eqb_eq in Huniq.
      intros y Hy. destruct (String.eqb (t_name y) t) eqn:E; [|reflexivity].
      assert (In y (filter (fun x => String.eqb (t_name x) t) s2)) by (apply filter_In; auto).
      destruct (filter (fun x => String.eqb (t_name x) t) s2); [contradiction|cbn [List.length] in Huniq; lia]. }
    assert (Hother : forall l, (forall y, In y l -> String.eqb (t_name y) t = false) ->
              flat_map (fun x => if String.eqb (t_name x) t
                                 then flat_map (index_entry_of (t_name x)) (filter (fun c0 => negb (constraint_eqb c0 k)) (t_constraints x))
                                 else index_entries x) l = flat_map index_entries l).
    { induction l as [|y l IH]; intro H; [reflexivity|]. cbn [flat_map]. rewrite (H y (or_introl eq_refl)), IH; [reflexivity|].
      intros z Hz. apply H. now right. }
    rewrite (Hother s1 Hs1), (Hother s2 Hs2). unfold index_entries at 3, removed_from. cbn [t_constraints t_name].
    rewrite Hx. apply Permutation_refl.
Qed.

(* ---------- RemoveConstraint of a unique / foreign key / check / primary key: the rebuild ----------
   For a primary key the last hypothesis ([pk_sane] of a table without a key) says that no column carries an inline
   primary_key field any more: outside known_C02_inline_pk_survives. *)
Lemma recreate_filter_not_index t k : index_like k = false -> forall cs,
  recreate_indexes t (filter (fun c => negb (constraint_eqb c k)) cs) [] = recreate_indexes t cs [].
Proof.
  intros Hk. unfold recreate_indexes, contains_constraint. cbn [existsb].
  induction cs as [|c cs IH]; [reflexivity|]. cbn [filter flat_map].
  destruct (constraint_eqb c k) eqn:E; cbn [negb flat_map]; rewrite IH; [|reflexivity].
  unfold constraint_eqb, dec_b in E. destruct (constraint_eq_dec c k) as [->|]; [|discriminate].
  destruct k; try discriminate; reflexivity.
Qed.

Lemma fks_filter_avoid temp p cs :
  forallb (fun f => negb (ieq (sf_table f) temp)) (table_fks cs) = true ->
  forallb (fun f => negb (ieq (sf_table f) temp)) (table_fks (filter p cs)) = true.
Proof.
  unfold table_fks. induction cs as [|c cs IH]; [reflexivity|]. cbn [flat_map filter]. rewrite forallb_app.
  intro H. apply andb_prop in H as [H1 H2]. destruct (p c); cbn [flat_map]; [rewrite forallb_app, H1, (IH H2); reflexivity|exact (IH H2)].
Qed.

Theorem sim_sqlite_remove_constraint_rebuild : forall fk s c t k td s' l c',
  Sim s c -> ci_exact s t = true -> temp_free s t = true -> unique_table s t = true ->
  match k with CIndex _ _ => False | _ => True end ->
  find_table t s = Some td ->
  (* outside known_C02_remove_constraint_overmatch: the rebuild drops exactly what apply_action removes *)
  forallb (fun c0 => Bool.eqb (keep_after_remove k c0) (negb (constraint_eqb c0 k))) (t_constraints td) = true ->
  pk_sane (mkTable (t_name td) (t_description td) (t_columns td)
                   (filter (fun c0 => negb (constraint_eqb c0 k)) (t_constraints td))) = true ->
  apply_action s (RemoveConstraint t k) = Ok s' ->
  gen s [] (RemoveConstraint t k) = GOk l ->
  exec_all fk c l 0 = Ok c' ->
  Sim s' c'.
Proof.
  intros fk s c t k td s' l c' HS Hci Htf Huniq Hkind Hfind Hkeep Hsane Happ Hgen Hrun.
  assert (Hname : t_name td = t).
  { unfold find_table in Hfind. apply find_some in Hfind as [_ H]. now apply String.eqb_eq. }
  assert (Hin : In td s) by (unfold find_table in Hfind; now apply find_some in Hfind as [H _]).
  set (new_cs := filter (fun c0 => negb (constraint_eqb c0 k)) (t_constraints td)) in *.
  assert (Hfil : filter (keep_after_remove k) (t_constraints td) = new_cs).
  { unfold new_cs. apply filter_ext_in. intros c0 Hc0. rewrite forallb_forall in Hkeep. now apply Bool.eqb_prop, Hkeep. }
  cbn [apply_action] in Happ.
  assert (Happ2 : update_table t (fun _ => Ok (removed_from t k td)) s = Ok s').
  { eapply update_table_first; [exact Happ|exact Hfind|reflexivity]. }
  cbn [gen] in Hgen. unfold gen_remove_constraint in Hgen.
  assert (Hgen2 : rebuild t (t_columns td) new_cs (col_names (t_columns td)) (copy_all (t_columns td))
                          (match k with CUnique _ _ => new_cs | _ => t_constraints td end) [] [] = GOk l).
  { destruct k; try contradiction; rewrite Hfind, Hfil in Hgen; exact Hgen. }
  clear Hgen. unfold rebuild, temp_table_create, create_table_stmt in Hgen2.
  destruct (map_option _ (t_columns td)) as [scols|] eqn:Hmap.
  2:{ destruct (all_checks t (t_columns td) new_cs); discriminate. }
  injection Hgen2 as <-.
  assert (Hidx : recreate_indexes t (match k with CUnique _ _ => new_cs | _ => t_constraints td end) []
                 = recreate_indexes t (t_constraints (removed_from t k td)) []).
  { unfold removed_from. cbn [t_constraints]. fold new_cs.
    destruct k; try contradiction; try reflexivity; unfold new_cs; symmetry; now apply recreate_filter_not_index. }
  rewrite Hidx in Hrun.
  eapply (sim_rebuild_general fk s c t td (removed_from t k td) s' scols
            (table_pks (t_columns td) new_cs) (table_fks new_cs) (all_checks t (t_columns td) new_cs)
            (col_names (t_columns td)) (copy_all (t_columns td)) []); eauto.
  - apply fks_filter_avoid. apply fks_avoid. unfold temp_free in Htf. rewrite forallb_forall in Htf. specialize (Htf td Hin).
    now apply andb_prop in Htf as [_ Htf].
  - (* the entry: built from the uncleared columns, believed with the cleared ones *)
    unfold removed_from. fold new_cs.
    rewrite (table_entry_core2 _ _ (t_columns td)) by apply clear_inline_core.
    apply (entry_believed t (mkTable (t_name td) (t_description td) (t_columns td) new_cs) scols new_cs); try reflexivity; try assumption.
Qed.

(* RemoveConstraint of the primary key, spelled out: the table is rebuilt without a key.  [no_inline_pk] is the negation of
   known_C02_inline_pk_survives' classifier (no column still carries an inline primary_key field); the [forallb] says the
   removed constraint is the table's key as recorded (same auto_increment flag and column list) — remove_constraint.rs drops
   whatever primary key there is. *)
Corollary sim_sqlite_remove_primary_key : forall fk s c t a cols td s' l c',
  let k := CPrimaryKey a cols in
  Sim s c -> ci_exact s t = true -> temp_free s t = true -> unique_table s t = true ->
  find_table t s = Some td ->
  forallb (fun c0 => Bool.eqb (keep_after_remove k c0) (negb (constraint_eqb c0 k))) (t_constraints td) = true ->
  nodup_names (map c_name (t_columns td)) = true -> no_inline_pk td = true ->
  apply_action s (RemoveConstraint t k) = Ok s' ->
  gen s [] (RemoveConstraint t k) = GOk l ->
  exec_all fk c l 0 = Ok c' ->
  Sim s' c'.
Proof.
  intros fk s c t a cols td s' l c' k HS Hci Htf Hu Hfind Hkeep Hnd Hinl Happ Hgen Hrun.
  eapply (sim_sqlite_remove_constraint_rebuild fk s c t k td); eauto; [exact I|].
  unfold pk_sane. cbn [t_columns t_constraints]. rewrite Hnd. cbn [andb].
  assert (E : filter is_pk (filter (fun c0 => negb (constraint_eqb c0 k)) (t_constraints td)) = []).
  { rewrite forallb_forall in Hkeep. induction (t_constraints td) as [|c0 cs IH]; [reflexivity|]. cbn [filter].
    assert (H0 := Hkeep c0 (or_introl eq_refl)). apply Bool.eqb_prop in H0.
    destruct (negb (constraint_eqb c0 k)) eqn:N.
    - cbn [filter]. destruct c0; cbn [is_pk]; try (apply IH; intros x Hx; apply Hkeep; now right).
      unfold k in H0. cbn [keep_after_remove] in H0. discriminate.
    - apply IH. intros x Hx. apply Hkeep. now right. }
  rewrite E. exact Hinl.
Qed.
