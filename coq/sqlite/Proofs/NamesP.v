(* SQLITE layer: name symmetry between the create and the drop paths of gen (C19), and prefix equivariance of the
   name-bearing building blocks of gen (C14). *)
From Coq Require Import Lia.
From VV.M1 Require Import Validate Oracles.
From VV.SQLITE Require Import Corr Known WitnessP Prefix.

(* ================================ C19: names symmetric between create and drop ================================ *)
Definition dropped_index_names (l : list stmt) : list string :=
  flat_map (fun st => match st with SDropIndex n => [n] | _ => [] end) l.

(* AddConstraint path creates exactly the derived name *)
Lemma created_by_add_constraint s P t k : index_like k = true ->
  created_index_names (stmts_of (gen s P (AddConstraint t k))) = index_name_of t k.
Proof. intro H. destruct k; try discriminate; reflexivity. Qed.

(* rebuild path: every index-like constraint that is not pending is recreated under the derived name, and nothing else *)
Lemma created_by_rebuild t : forall cs pending,
  created_index_names (recreate_indexes t cs pending)
  = flat_map (fun k => if contains_constraint k pending then [] else index_name_of t k) cs.
Proof.
  assert (FC : forall A B (f : A -> list B) k l, flat_map f (k :: l) = f k ++ flat_map f l) by reflexivity.
  unfold recreate_indexes, created_index_names. induction cs as [|k cs IH]; intro pending; [reflexivity|].
  rewrite !(FC _ _ _ k cs), flat_map_app. f_equal; [|apply IH].
  destruct (contains_constraint k pending); [reflexivity|]. destruct k; reflexivity.
Qed.


Lemma names_of_index_stmts t : forall cs,
  created_index_names (flat_map (index_stmt t) cs) = flat_map (index_name_of t) cs.
Proof.
  assert (FC : forall A B (f : A -> list B) k l, flat_map f (k :: l) = f k ++ flat_map f l) by reflexivity.
  unfold created_index_names. induction cs as [|k cs IH]; [reflexivity|].
  rewrite !(FC _ _ _ k cs), flat_map_app. f_equal; [|exact IH]. destruct k; reflexivity.
Qed.

(* CreateTable path: the index statements carry exactly the derived names of the normalised index-like constraints
   (uniques first, then indexes) *)
Lemma created_by_create_table t cols cs n l :
  normalize (mkTable t None cols cs) = Ok n -> gen_create_table t cols cs = GOk l ->
  created_index_names l
  = flat_map (index_name_of t) (filter is_unique (t_constraints n)) ++ flat_map (index_name_of t) (filter is_index (t_constraints n)).
Proof.
  intros Hn Hg. unfold gen_create_table in Hg. rewrite Hn in Hg. unfold create_table_stmt in Hg.
  destruct (map_option _ (t_columns n)) as [scols|]; [|destruct (enum_checks t (t_columns n)); discriminate].
  injection Hg as <-.
  change (created_index_names (SCreateTable t scols (table_pks (t_columns n) (filter (fun k => negb (is_unique k)) (t_constraints n)))
                                 (table_fks (filter (fun k => negb (is_unique k)) (t_constraints n))) (enum_checks t (t_columns n))
                               :: flat_map (index_stmt t) (filter is_unique (t_constraints n)) ++ flat_map (index_stmt t) (filter is_index (t_constraints n))))
    with (created_index_names (flat_map (index_stmt t) (filter is_unique (t_constraints n)) ++ flat_map (index_stmt t) (filter is_index (t_constraints n)))).
  unfold created_index_names. rewrite flat_map_app. fold (created_index_names (flat_map (index_stmt t) (filter is_unique (t_constraints n)))).
  fold (created_index_names (flat_map (index_stmt t) (filter is_index (t_constraints n)))).
  now rewrite !names_of_index_stmts.
Qed.

(* RemoveConstraint of an index drops exactly the derived name *)
Lemma dropped_by_remove_index s t n cols :
  gen_remove_constraint s t (CIndex n cols) = GOk [SDropIndex (build_index_name t cols n)].
Proof. reflexivity. Qed.

Lemma dropped_app a b : dropped_index_names (a ++ b) = dropped_index_names a ++ dropped_index_names b.
Proof. unfold dropped_index_names. apply flat_map_app. Qed.

(* DeleteColumn (plain path): the indexes dropped first are exactly the derived names of the index-like constraints
   that contain the column *)
Lemma dropped_by_delete_column t col : forall cs acc l,
  delete_column_scan t col cs acc = DcDrops l ->
  dropped_index_names l
  = dropped_index_names acc ++ flat_map (fun k => if (index_like k && mem_str col (constraint_columns k))%bool then index_name_of t k else []) cs.
Proof.
  induction cs as [|k cs IH]; intros acc l H; cbn [delete_column_scan] in H.
  - injection H as <-. cbn [flat_map]. now rewrite app_nil_r.
  - assert (FC : forall A B (f : A -> list B) x r, flat_map f (x :: r) = f x ++ flat_map f r) by reflexivity.
    rewrite (FC _ _ _ k cs).
    destruct k as [a pc|n uc|n fc rt rc od ou|n e|n ic]; cbn [constraint_columns index_like is_index is_unique orb andb] in *.
    + destruct (negb (mem_str col pc)); [|discriminate]. cbn [app]. now apply IH.
    + destruct (mem_str col uc) eqn:M; cbn [negb] in H.
      * apply IH in H. rewrite H, dropped_app. cbn [dropped_index_names flat_map index_name_of app].
        now rewrite <- app_assoc.
      * cbn [app]. now apply IH.
    + destruct (negb (mem_str col fc)); [|discriminate]. cbn [app]. now apply IH.
    + destruct (check_mentions col e); [discriminate|]. cbn [app]. now apply IH.
    + destruct (mem_str col ic) eqn:M; cbn [negb] in H.
      * apply IH in H. rewrite H, dropped_app. cbn [dropped_index_names flat_map index_name_of app].
        now rewrite <- app_assoc.
      * cbn [app]. now apply IH.
Qed.

(* the symmetry: whichever path creates the index of constraint k on table t, and whichever path drops it, both use
   index_name_of t k *)
Theorem name_symmetry_sqlite : forall s P t k,
  index_like k = true ->
  created_index_names (stmts_of (gen s P (AddConstraint t k))) = index_name_of t k
  /\ created_index_names (recreate_indexes t [k] []) = index_name_of t k
  /\ (forall n cols, k = CIndex n cols -> dropped_index_names (stmts_of (gen s P (RemoveConstraint t k))) = index_name_of t k)
  /\ (forall col l, mem_str col (constraint_columns k) = true -> delete_column_scan t col [k] [] = DcDrops l ->
        dropped_index_names l = index_name_of t k).
Proof.
  intros s P t k Hk. repeat split.
  - now apply created_by_add_constraint.
  - rewrite created_by_rebuild. cbn [flat_map contains_constraint existsb]. now rewrite app_nil_r.
  - intros n cols ->. reflexivity.
  - intros col l Hm Hs. rewrite (dropped_by_delete_column _ _ _ _ _ Hs). cbn [flat_map dropped_index_names app].
    rewrite Hk, Hm. cbn [andb]. now rewrite app_nil_r.
Qed.

(* enum CHECK clauses: CREATE TABLE and every rebuild derive the same names from the ORIGINAL table name *)
Theorem enum_check_names_symmetric : forall t cols cs,
  explicit_checks cs = [] ->
  all_checks t cols cs = enum_checks t cols.
Proof. intros t cols cs H. unfold all_checks. now rewrite H. Qed.

(* … but not across RenameTable: the index was created under the old table's name, the drop derives the new one *)
Definition rn_base : schema :=
  [mkTable "u" None [idcol; icol "a"] [pk_id; CIndex None ["a"]]].
Definition rn_plan : list action := [RenameTable "u" "v"; RemoveConstraint "v" (CIndex None ["a"])].
Theorem rename_table_asymmetry_refuted :
  index_name_of "u" (CIndex None ["a"]) = ["ix_u__a"]
  /\ index_name_of "v" (CIndex None ["a"]) = ["ix_v__a"]
  /\ (exists s', apply_all rn_base rn_plan = Ok s')
  /\ first_error true rn_base rn_plan = Some (1%nat, ENoSuchIndex "ix_v__a")
  /\ known_C02_rename_table rn_base rn_plan = true.
Proof. repeat split; try (vm_compute; reflexivity). eexists. vm_compute. reflexivity. Qed.

(* ================================ C14: prefix equivariance of the name-bearing pieces ================================ *)
Lemma append_assoc : forall a b c, (a +++ b) +++ c = a +++ (b +++ c).
Proof. induction a as [|x a IH]; intros b c; cbn [String.append]; [reflexivity|now rewrite IH]. Qed.

Lemma substring_all : forall s, String.substring 0 (String.length s) s = s.
Proof. induction s as [|a s IH]; cbn [String.substring String.length]; [reflexivity|now rewrite IH]. Qed.

Lemma substring_0_0 s : String.substring 0 0 s = "".
Proof. now destruct s. Qed.

Lemma temp_name_prefix p t : temp_name (p +++ t) = p +++ temp_name t.
Proof. unfold temp_name. apply append_assoc. Qed.

Lemma rename_name_with_ix p t cols key : rename_index_name p (build_index_name t cols key) = build_index_name (p +++ t) cols key.
Proof.
  unfold rename_index_name, build_index_name, name_with, str_take, str_drop.
  destruct key as [k|]; cbn [String.append String.substring String.length Nat.sub];
    rewrite substring_0_0, Nat.sub_0_r, substring_all; cbn [String.append]; now rewrite !append_assoc.
Qed.
Lemma rename_name_with_uq p t cols key :
  rename_index_name p (build_unique_constraint_name t cols key) = build_unique_constraint_name (p +++ t) cols key.
Proof.
  unfold rename_index_name, build_unique_constraint_name, name_with, str_take, str_drop.
  destruct key as [k|]; cbn [String.append String.substring String.length Nat.sub];
    rewrite substring_0_0, Nat.sub_0_r, substring_all; cbn [String.append]; now rewrite !append_assoc.
Qed.
Lemma rename_check_name_enum p t col : rename_check_name p (build_check_constraint_name t col) = build_check_constraint_name (p +++ t) col.
Proof.
  unfold rename_check_name, build_check_constraint_name, str_take, str_drop.
  cbn [String.append String.substring String.length Nat.sub]. rewrite substring_0_0, Nat.sub_0_r, substring_all. cbn [String.append]. now rewrite !append_assoc.
Qed.

Lemma index_stmt_prefix p chk t k :
  index_stmt (p +++ t) (literal_constraint p k) = map (rename_stmt p chk) (index_stmt t k).
Proof.
  destruct k; cbn [literal_constraint index_stmt map rename_stmt]; try reflexivity.
  - now rewrite rename_name_with_uq.
  - now rewrite rename_name_with_ix.
Qed.

Lemma append_inj : forall p a b, p +++ a = p +++ b -> a = b.
Proof. induction p as [|x p IH]; intros a b H; cbn [String.append] in H; [exact H|]. injection H as H. now apply IH. Qed.

Lemma literal_constraint_inj p a b : literal_constraint p a = literal_constraint p b -> a = b.
Proof.
  destruct a, b; cbn [literal_constraint]; intro H; try discriminate; try exact H.
  injection H as -> -> H -> -> ->. apply append_inj in H. now subst.
Qed.

Lemma contains_literal p k l :
  contains_constraint (literal_constraint p k) (map (literal_constraint p) l) = contains_constraint k l.
Proof.
  unfold contains_constraint. induction l as [|x l IH]; [reflexivity|]. cbn [map existsb]. rewrite IH. f_equal.
  unfold constraint_eqb, dec_b.
  destruct (constraint_eq_dec (literal_constraint p k) (literal_constraint p x)) as [E|E],
           (constraint_eq_dec k x) as [E2|E2]; try reflexivity.
  - exfalso. apply E2. now apply literal_constraint_inj in E.
  - exfalso. apply E. now subst.
Qed.

Theorem recreate_indexes_prefix p chk t cs pending :
  recreate_indexes (p +++ t) (map (literal_constraint p) cs) (map (literal_constraint p) pending)
  = map (rename_stmt p chk) (recreate_indexes t cs pending).
Proof.
  assert (FC : forall A B (f : A -> list B) k l, flat_map f (k :: l) = f k ++ flat_map f l) by reflexivity.
  unfold recreate_indexes. induction cs as [|k cs IH]; [reflexivity|].
  cbn [map]. rewrite !(FC _ _ _ _ _), map_app, IH. f_equal.
  rewrite contains_literal. destruct (contains_constraint k pending); [reflexivity|]. apply index_stmt_prefix.
Qed.

(* the table-free actions and the index actions are equivariant as whole calls of gen *)
Theorem gen_prefix_equivariant_partial : forall p chk s P a,
  match a with
  | DeleteTable _ | RenameTable _ _ | RenameColumn _ _ _ | RawSql _ => True
  | AddConstraint _ k => index_like k = true
  | RemoveConstraint _ (CIndex _ _) => True
  | _ => False
  end ->
  gen (literal_schema p s) (map (literal_constraint p) P) (literal_action p a)
  = match gen s P a with GOk l => GOk (map (rename_stmt p chk) l) | o => o end.
Proof.
  intros p chk s P a H. destruct a; try contradiction; cbn [literal_action gen map rename_stmt]; try reflexivity.
  - (* AddConstraint index / unique *)
    destruct constraint; try discriminate; cbn [literal_constraint gen_add_constraint index_stmt map rename_stmt].
    + now rewrite rename_name_with_uq.
    + now rewrite rename_name_with_ix.
  - (* RemoveConstraint index *)
    destruct constraint; try contradiction. cbn [literal_constraint gen_remove_constraint map rename_stmt].
    now rewrite rename_name_with_ix.
Qed.

(* D10 / D8 are about where the prefix is applied (with_prefix, the CLI); on the level of gen the remaining builders are
   checked by evaluation on every generated case (checks/sqliterun.py c14_part), not yet proved *)
