(* SQLITE layer, C02: simulation lemmas for AddColumn (ALTER path and rebuild path) and RenameTable. *)
From Coq Require Import Lia Permutation.
From VV.SQLITE Require Import Corr Known RowsP RebuildP SimP Sim2P Sim4P.

(* ---------- Sim is stable under permutation of the catalog ---------- *)
Lemma Sim_perm s c c' :
  Sim s c -> Permutation (cat_tables c') (cat_tables c) -> Permutation (cat_indexes c') (cat_indexes c) -> Sim s c'.
Proof. intros [Ht Hi] P1 P2. split; eapply Permutation_trans; eauto. Qed.

(* ---------- AddColumn ---------- *)
Definition with_column (td : table_def) (col : column_def) : table_def :=
  mkTable (t_name td) (t_description td) (t_columns td ++ [col]) (t_constraints td).

(* the re-normalisation of apply_action (apply.rs:62-73) adds nothing: the column carries no inline constraint that is not
   already a table constraint (outside known_C02_added_column_inline) *)
Definition add_column_stable (td : table_def) (col : column_def) : bool :=
  match normalize (with_column td col) with
  | Ok n => dec_b table_def_eq_dec n (with_column td col)
  | Err _ => false
  end.

Lemma apply_add_column s t col f td s' :
  apply_action s (AddColumn t col f) = Ok s' -> find_table t s = Some td -> add_column_stable td col = true ->
  update_table t (fun _ => Ok (with_column td col)) s = Ok s'.
Proof.
  intros Happ Hfind Hst. cbn [apply_action] in Happ.
  eapply update_table_first; [exact Happ|exact Hfind|]. cbn beta.
  destruct (has_column (c_name col) td) eqn:Hc.
  - (* then apply_action fails on the first table named t *)
    exfalso. clear Hst. revert s' Happ. unfold find_table in Hfind.
    induction s as [|x s IH]; intros s' H; cbn [update_table find] in *; [discriminate|].
    destruct (String.eqb (t_name x) t).
    + injection Hfind as ->. rewrite Hc in H. discriminate.
    + destruct (update_table t _ s) eqn:U; [|discriminate]. eapply IH; eauto.
  - unfold add_column_stable, with_column in *.
    destruct (normalize _) as [n|]; [|discriminate]. unfold dec_b in Hst.
    destruct (table_def_eq_dec n _) as [->|]; [reflexivity|discriminate].
Qed.

Theorem sim_sqlite_add_column_rebuild : forall fk s c t col f td s' l c',
  Sim s c -> ci_exact s t = true -> temp_free s t = true -> unique_table s t = true ->
  find_table t s = Some td -> add_column_stable td col = true ->
  (negb (c_nullable col) || is_enum_type (c_type col))%bool = true ->
  pk_sane (with_column td col) = true ->
  apply_action s (AddColumn t col f) = Ok s' ->
  gen s [] (AddColumn t col f) = GOk l ->
  exec_all fk c l 0 = Ok c' ->
  Sim s' c'.
Proof.
  intros fk s c t col f td s' l c' HS Hci Htf Huniq Hfind Hst Hre Hsane Happ Hgen Hrun.
  assert (Hname : t_name td = t).
  { unfold find_table in Hfind. apply find_some in Hfind as [_ H]. now apply String.eqb_eq. }
  assert (Hin : In td s) by (unfold find_table in Hfind; now apply find_some in Hfind as [H _]).
  pose proof (apply_add_column _ _ _ _ _ _ Happ Hfind Hst) as Happ2.
  cbn [gen] in Hgen. unfold gen_add_column in Hgen. rewrite Hre, Hfind in Hgen.
  unfold rebuild, temp_table_create, create_table_stmt in Hgen.
  destruct (map_option _ (t_columns td ++ [col])) as [scols|] eqn:Hmap.
  2:{ destruct (all_checks t (t_columns td ++ [col]) (t_constraints td)); discriminate. }
  injection Hgen as <-.
  eapply (sim_rebuild_general fk s c t td (with_column td col) s' scols
            (table_pks (t_columns td ++ [col]) (t_constraints td)) (table_fks (t_constraints td))
            (all_checks t (t_columns td ++ [col]) (t_constraints td)) _ _ []); eauto.
  - apply fks_avoid. unfold temp_free in Htf. rewrite forallb_forall in Htf. specialize (Htf td Hin).
    now apply andb_prop in Htf as [_ Htf].
  - apply (entry_believed t (with_column td col) scols (t_constraints td)); try reflexivity; try assumption.
  - exact Hrun.
Qed.

(* the ALTER TABLE ADD COLUMN path *)
Lemma position_zero_not_mem n : forall l i, position_ci n l (S i) = 0 -> mem_str n l = false.
Proof.
  induction l as [|x l IH]; intros i H; [reflexivity|]. cbn [position_ci] in H. unfold mem_str. cbn [existsb].
  destruct (ieq x n) eqn:E; [discriminate|].
  assert (String.eqb n x = false).
  { destruct (String.eqb n x) eqn:E2; [|reflexivity]. apply String.eqb_eq in E2. subst. now rewrite ieq_refl in E. }
  rewrite H0. exact (IH _ H).
Qed.

Lemma table_entry_with_plain_column td col ty :
  is_enum_type (c_type col) = false ->
  render_type (c_type col) false = Some ty ->
  position_ci (c_name col) (snd (the_pk td)) 1 = 0 ->
  table_entry (with_column td col)
  = mkCTable (ct_name (table_entry td))
             (ct_cols (table_entry td) ++ [mkCCol (c_name col) ty (negb (c_nullable col)) (norm_default (column_default_text col)) 0])
             (ct_autoinc (table_entry td)) (ct_fks (table_entry td)) (ct_checks (table_entry td)).
Proof.
  intros He Hr Hp. unfold table_entry, with_column, the_pk, pk_of in *. cbn [t_name t_columns t_constraints] in *.
  destruct (match match find is_pk (t_constraints td) with Some (CPrimaryKey a cols) => Some (a, cols) | _ => None end with
            | Some p => p | None => (false, []) end) as [auto pkcols] eqn:Epk.
  cbn [snd ct_name ct_cols ct_autoinc ct_fks ct_checks] in *.
  rewrite map_app. cbn [map]. rewrite Hp, (position_zero_not_mem _ _ _ Hp), Bool.andb_false_r, Hr.
  f_equal. unfold all_checks, enum_checks. rewrite flat_map_app. cbn [flat_map].
  unfold enum_check. destruct (c_type col); try discriminate; now rewrite !app_nil_r.
Qed.

Lemma in_entries_named s t td : unique_table s t = true -> find_table t s = Some td ->
  forall T, In T (map table_entry s) -> ct_name T = t -> T = table_entry td.
Proof.
  intros Hu Hf T Hin Hn.
  assert (exists s', update_table t (fun _ => Ok td) s = Ok s') as (s' & Happ).
  { clear -Hf. unfold find_table in Hf. induction s as [|x s IH]; cbn [find update_table] in *; [discriminate|].
    destruct (String.eqb (t_name x) t); [eauto|]. destruct (IH Hf) as (r & ->). eauto. }
  destruct (split_unique_table t s s' td td Hu Hf Happ) as (s1 & s2 & -> & _ & Hx & Hfil).
  apply in_map_iff in Hin as (x & <- & Hx'). rewrite table_entry_name in Hn.
  apply in_app_or in Hx' as [H|[->|H]]; [|reflexivity|].
  - exfalso. assert (In x (filter (fun y => negb (String.eqb (t_name y) t)) (s1 ++ td :: s2))) by (rewrite Hfil; apply in_or_app; now left).
    apply filter_In in H0 as [_ H0]. rewrite Hn, String.eqb_refl in H0. discriminate.
  - exfalso. assert (In x (filter (fun y => negb (String.eqb (t_name y) t)) (s1 ++ td :: s2))) by (rewrite Hfil; apply in_or_app; now right).
    apply filter_In in H0 as [_ H0]. rewrite Hn, String.eqb_refl in H0. discriminate.
Qed.

Lemma map_replace_entries t T' : forall l : list table_def,
  (forall x, In x l -> String.eqb (t_name x) t = false) -> ci_exact l t = true ->
  map (fun x => if ieq (ct_name x) t then T' else x) (map table_entry l) = map table_entry l.
Proof.
  induction l as [|x l IH]; intros H Hci; [reflexivity|]. cbn [map]. rewrite table_entry_name.
  rewrite (ci_exact_spec (x :: l) t x Hci (or_introl eq_refl)), (H x (or_introl eq_refl)). f_equal.
  apply IH; [intros y Hy; apply H; now right|]. unfold ci_exact in *. cbn [forallb] in Hci. now apply andb_prop in Hci as [_ Hci].
Qed.

Lemma ci_exact_app l1 l2 t : ci_exact (l1 ++ l2) t = true -> ci_exact l1 t = true /\ ci_exact l2 t = true.
Proof. unfold ci_exact. rewrite forallb_app. apply andb_prop. Qed.

Lemma none_named_split t : forall (s1 s2 : list table_def) td,
  filter (fun y => negb (String.eqb (t_name y) t)) (s1 ++ td :: s2) = s1 ++ s2 -> t_name td = t ->
  (forall x, In x s1 -> String.eqb (t_name x) t = false) /\ (forall x, In x s2 -> String.eqb (t_name x) t = false).
Proof.
  intros s1 s2 td Hfil Hx.
  assert (G : forall x, In x (s1 ++ s2) -> String.eqb (t_name x) t = false).
  { intros x Hin. rewrite <- Hfil in Hin. apply filter_In in Hin as [_ H]. now apply Bool.negb_true_iff in H. }
  split; intros x Hin; apply G; apply in_or_app; auto.
Qed.

Theorem sim_sqlite_add_column_plain : forall fk s c t col f td s' l c',
  Sim s c -> ci_exact s t = true -> unique_table s t = true ->
  find_table t s = Some td -> add_column_stable td col = true ->
  c_nullable col = true -> is_enum_type (c_type col) = false ->
  position_ci (c_name col) (snd (the_pk td)) 1 = 0 ->        (* the new column is not a primary-key column *)
  apply_action s (AddColumn t col f) = Ok s' ->
  gen s [] (AddColumn t col f) = GOk l ->
  exec_all fk c l 0 = Ok c' ->
  Sim s' c'.
Proof.
  intros fk s c t col f td s' l c' HS Hci Huniq Hfind Hst Hnull Henum Hpos Happ Hgen Hrun.
  pose proof (apply_add_column _ _ _ _ _ _ Happ Hfind Hst) as Happ2.
  cbn [gen] in Hgen. unfold gen_add_column in Hgen. rewrite Hnull, Henum in Hgen. cbn [negb orb] in Hgen.
  unfold gen_add_coldef in Hgen. destruct (render_type (c_type col) false) as [ty|] eqn:Hr; [|discriminate].
  injection Hgen as <-.
  cbn [exec_all] in Hrun.
  destruct (exec fk c (SAddColumn t _)) as [c1|] eqn:E; [|discriminate]. injection Hrun as <-.
  cbn [exec sc_name sc_pk sc_autoinc sc_type sc_notnull sc_default orb] in E.
  destruct (find_ctable t c) as [T|] eqn:FT; [|discriminate].
  destruct (has_ccol (c_name col) T); [discriminate|]. injection E as <-.
  destruct HS as [Ht Hi].
  destruct (split_unique_table t s s' td (with_column td col) Huniq Hfind Happ2) as (s1 & s2 & -> & -> & Hx & Hfil).
  destruct (none_named_split t s1 s2 td Hfil Hx) as [Hs1 Hs2].
  (* the table found is td's entry and carries exactly the name t *)
  assert (HTin : In T (map table_entry (s1 ++ td :: s2))).
  { unfold find_ctable in FT. apply find_some in FT as [Hin _]. eapply Permutation_in; [exact Ht|exact Hin]. }
  assert (HTn : ct_name T = t).
  { unfold find_ctable in FT. apply find_some in FT as [_ Hieq].
    apply in_map_iff in HTin as (x & <- & Hxin). rewrite table_entry_name in *.
    rewrite (ci_exact_spec _ t x Hci Hxin) in Hieq. now apply String.eqb_eq. }
  assert (HT : T = table_entry td) by (eapply in_entries_named; eauto).
  subst T.
  split; cbn [cat_tables cat_indexes replace_ctable ct_name].
  - eapply Permutation_trans; [apply Permutation_map; exact Ht|].
    rewrite HTn.
    destruct (ci_exact_app s1 (td :: s2) t Hci) as [C1 C2].
    assert (C3 : ci_exact s2 t = true) by (unfold ci_exact in C2; cbn [forallb] in C2; now apply andb_prop in C2 as [_ C2]).
    rewrite !map_app. cbn [map]. rewrite (map_replace_entries t _ s1 Hs1 C1), (map_replace_entries t _ s2 Hs2 C3).
    rewrite table_entry_name, Hx, ieq_refl.
    rewrite (table_entry_with_plain_column td col ty Henum Hr Hpos). rewrite <- HTn at 1. apply Permutation_refl.
  - rewrite !flat_map_app in *. cbn [flat_map] in *. exact Hi.
Qed.
