(* Generic lemmas about the validator on the documents the encoders build. *)
From VV.SERDE Require Import Serde SerdeBase SchemaOf.
From Coq Require Import Lia.

Lemma and_o_tt : and_o (Some true) (Some true) = Some true. Proof. reflexivity. Qed.

Lemma all_o_true {A} (f : A -> option bool) (l : list A) :
  (forall x, In x l -> f x = Some true) -> all_o f l = Some true.
Proof.
  induction l as [|x r IH]; intros H; cbn [all_o]; [reflexivity|].
  rewrite (H x (or_introl eq_refl)), IH; [reflexivity|]. intros y Hy; apply H; right; exact Hy.
Qed.

Lemma any_o_true {A} (f : A -> option bool) (l : list A) (a : A) :
  In a l -> f a = Some true -> any_o f l = Some true.
Proof.
  induction l as [|x r IH]; intros Hin Ha; [destruct Hin|]. cbn [any_o].
  destruct Hin as [->|Hin].
  - rewrite Ha. destruct (any_o f r) as [[|]|]; reflexivity.
  - rewrite (IH Hin Ha). destruct (f x) as [[|]|]; reflexivity.
Qed.

(* ---------- last occurrence = the member, for objects built by mk_obj over distinct keys ---------- *)
Lemma assoc_app (k : string) (a b : obj) :
  assoc_j k (a ++ b) = match assoc_j k a with Some v => Some v | None => assoc_j k b end.
Proof.
  induction a as [|[k' v] r IH]; cbn [app assoc_j]; [reflexivity|].
  destruct (String.eqb k k'); [reflexivity|exact IH].
Qed.

Lemma assoc_none_notin (k : string) (o : obj) : ~ In k (map fst o) -> assoc_j k o = None.
Proof.
  induction o as [|[k' v] r IH]; cbn [map fst assoc_j]; intros H; [reflexivity|].
  destruct (String.eqb k k') eqn:E; [apply String.eqb_eq in E; subst; exfalso; apply H; left; reflexivity|].
  apply IH. intros Hin. apply H. right. exact Hin.
Qed.

Lemma assoc_rev (k : string) (o : obj) : NoDup (map fst o) -> assoc_j k (rev o) = assoc_j k o.
Proof.
  induction o as [|[k' v] r IH]; intros H; [reflexivity|].
  cbn [map fst] in H. inversion H as [|x l Hn Hd]; subst.
  cbn [rev]. rewrite assoc_app, (IH Hd). cbn [assoc_j].
  destruct (String.eqb k k') eqn:E.
  - apply String.eqb_eq in E; subst k'. rewrite (assoc_none_notin k r Hn). reflexivity.
  - destruct (assoc_j k r); reflexivity.
Qed.

Lemma mk_obj_keys_incl (l : list (string * option json)) (k : string) :
  In k (map fst (mk_obj l)) -> In k (map fst l).
Proof.
  induction l as [|[k' [j|]] r IH]; cbn [mk_obj map fst]; intros H; [exact H| |right; exact (IH H)].
  destruct H as [H|H]; [left; exact H|right; exact (IH H)].
Qed.

Lemma mk_obj_nodup (l : list (string * option json)) : nodupb (map fst l) = true -> NoDup (map fst (mk_obj l)).
Proof.
  induction l as [|[k' v] r IH]; cbn [map fst nodupb mk_obj]; intros H; [constructor|].
  apply Bool.andb_true_iff in H as [H1 H2]. apply Bool.negb_true_iff in H1.
  destruct v as [j|]; [|exact (IH H2)].
  cbn [map fst]. constructor; [|exact (IH H2)].
  intros Hin. exact (mem_str_false_in _ _ H1 (mk_obj_keys_incl r k' Hin)).
Qed.

Lemma last_mk (k : string) (l : list (string * option json)) :
  nodupb (map fst l) = true -> last_j k (mk_obj l) = get_mk k l.
Proof. intros H. unfold last_j. rewrite (assoc_rev k _ (mk_obj_nodup l H)). apply assoc_mk. exact H. Qed.

(* ---------- schema shapes ---------- *)
Definition is_some_j (o : option json) : bool := match o with Some _ => true | None => false end.

(* an object schema (type object, properties, required; no other validating keyword) on mk_obj *)
Lemma v_obj_mk (n : nat) (ds : defs) (props : list (string * jschema)) (req : list string)
      (fm : option string) (df : option json) (l : list (string * option json)) :
  nodupb (map fst l) = true ->
  forallb (fun r => is_some_j (get_mk r l)) req = true ->
  (forall ps, In ps props -> match get_mk (fst ps) l with
                             | Some v => valid_f n ds (snd ps) v = Some true
                             | None => True
                             end) ->
  valid_f (S n) ds (Sch (Some [TyObject]) props req None None None None None None None None fm df) (JObj (mk_obj l)) = Some true.
Proof.
  intros Hd Hr Hp. cbn [valid_f existsb has_type orb].
  assert (R : forallb (fun r => match last_j r (mk_obj l) with Some _ => true | None => false end) req = true).
  { rewrite forallb_forall in *. intros r Hin. rewrite (last_mk r l Hd). exact (Hr r Hin). }
  rewrite R.
  assert (P : all_o (fun ps => match last_j (fst ps) (mk_obj l) with
                               | Some v => valid_f n ds (snd ps) v
                               | None => Some true
                               end) props = Some true).
  { apply all_o_true. intros ps Hin. rewrite (last_mk (fst ps) l Hd).
    specialize (Hp ps Hin). destruct (get_mk (fst ps) l); [exact Hp|reflexivity]. }
  rewrite P. reflexivity.
Qed.

(* an array schema with items *)
Lemma v_arr {A} (n : nat) (ds : defs) (it : jschema) (fm : option string) (df : option json) (e : A -> json) (l : list A) :
  (forall x, In x l -> valid_f n ds it (e x) = Some true) ->
  valid_f (S n) ds (Sch (Some [TyArray]) [] [] (Some it) None None None None None None None fm df) (JArr (map e l)) = Some true.
Proof.
  intros H. cbn [valid_f existsb has_type orb].
  rewrite (all_o_true (valid_f n ds it) (map e l)); [reflexivity|].
  intros j Hj. apply in_map_iff in Hj as [x [<- Hx]]. exact (H x Hx).
Qed.

(* a pure $ref *)
Lemma v_ref (n : nat) (ds : defs) (name k : string) (t : jschema) (fm : option string) (df : option json) (j : json) :
  find (fun kv => String.eqb (fst kv) name) ds = Some (k, t) ->
  valid_f n ds t j = Some true ->
  valid_f (S n) ds (Sch None [] [] None None None None None None (Some name) None fm df) j = Some true.
Proof.
  intros Hf Hv. cbn [valid_f]. rewrite Hf, Hv. destruct j; reflexivity.
Qed.

(* a pure anyOf *)
Lemma v_anyof (n : nat) (ds : defs) (alts : list jschema) (a : jschema) (fm : option string) (df : option json) (j : json) :
  In a alts -> valid_f n ds a j = Some true ->
  valid_f (S n) ds (Sch None [] [] None None (Some alts) None None None None None fm df) j = Some true.
Proof.
  intros Hin Hv. cbn [valid_f].
  rewrite (any_o_true (fun a => valid_f n ds a j) alts a Hin Hv). destruct j; reflexivity.
Qed.

(* a pure oneOf: exactly one alternative holds *)
Lemma v_oneof (n : nat) (ds : defs) (alts : list jschema) (fm : option string) (df : option json) (j : json) :
  count_o (fun a => valid_f n ds a j) alts = Some 1%nat ->
  valid_f (S n) ds (Sch None [] [] None None None (Some alts) None None None None fm df) j = Some true.
Proof. intros Hc. cbn [valid_f]. rewrite Hc. destruct j; reflexivity. Qed.

(* ---------- definite rejection: one declared member is definitely invalid ---------- *)
Lemma all_o_false {A} (f : A -> option bool) (l : list A) (a : A) :
  In a l -> f a = Some false -> all_o f l = Some false.
Proof.
  induction l as [|x r IH]; intros Hin Ha; [destruct Hin|]. cbn [all_o].
  destruct Hin as [->|Hin].
  - rewrite Ha. destruct (all_o f r) as [[|]|]; reflexivity.
  - rewrite (IH Hin Ha). destruct (f x) as [[|]|]; reflexivity.
Qed.

Lemma v_obj_false (n : nat) (ds : defs) (props : list (string * jschema)) (req : list string)
      (fm : option string) (df : option json) (l : list (string * option json)) (ps : string * jschema) (v : json) :
  nodupb (map fst l) = true ->
  In ps props -> get_mk (fst ps) l = Some v -> valid_f n ds (snd ps) v = Some false ->
  valid_f (S n) ds (Sch (Some [TyObject]) props req None None None None None None None None fm df) (JObj (mk_obj l)) = Some false.
Proof.
  intros Hd Hin Hg Hv. cbn [valid_f existsb has_type orb].
  assert (P : all_o (fun ps => match last_j (fst ps) (mk_obj l) with
                               | Some v => valid_f n ds (snd ps) v
                               | None => Some true
                               end) props = Some false).
  { apply (all_o_false _ props ps Hin). rewrite (last_mk (fst ps) l Hd), Hg. exact Hv. }
  rewrite P. destruct (forallb _ req); reflexivity.
Qed.

Lemma count_o_nil {A} (f : A -> option bool) : count_o f [] = Some O.
Proof. reflexivity. Qed.
Lemma count_o_false_step {A} (f : A -> option bool) (x : A) (r : list A) (k : nat) :
  f x = Some false -> count_o f r = Some k -> count_o f (x :: r) = Some k.
Proof. intros Hx Hr. cbn [count_o]. rewrite Hx, Hr. reflexivity. Qed.
Lemma count_o_true_step {A} (f : A -> option bool) (x : A) (r : list A) (k : nat) :
  f x = Some true -> count_o f r = Some k -> count_o f (x :: r) = Some (S k).
Proof. intros Hx Hr. cbn [count_o]. rewrite Hx, Hr. reflexivity. Qed.
