(* decode_of_valid: a document without repeated members that validates under the strict reading of
   the schema (format = Rust width, integer excludes floats; Model/SchemaStrict.v) is accepted by the
   parser model - for ALL documents, by inversion of the validator per schema definition. *)
From VV.SERDE Require Import Serde Config SerdeBase SchemaOf SchemaOfTypes SchemaStrict ValidBase ValidEncode StrictBase.
From Coq Require Import Lia.

Ltac inv H :=
  match type of H with
  | svalid_f ?n _ _ _ = Some true =>
      destruct n as [|?n]; [discriminate H|];
      apply sv_inv in H; destruct H as (?T & ?O & ?An & ?On & ?En & ?Co & ?Rf & ?Mi & ?Fm)
  end.
Ltac in_props := cbn [In]; repeat (first [ left; reflexivity | right ]).

Lemma req_present (o : obj) (req : list string) :
  forallb (fun r => match last_j r o with Some _ => true | None => false end) req = true ->
  forall r, In r req -> exists v, last_j r o = Some v.
Proof.
  intros H r Hin. rewrite forallb_forall in H. specialize (H r Hin).
  destruct (last_j r o) as [v|]; [exists v; reflexivity|discriminate H].
Qed.

Lemma opt_some {A} (d : dec A) (v : json) : (v = JNull \/ exists x, d v = Some x) -> exists r, opt d (Some v) = Some r.
Proof.
  intros [->|[x Hx]]; [eexists; reflexivity|]. unfold opt, d_option.
  destruct v; rewrite ?Hx; eexists; reflexivity.
Qed.
Lemma opt_none {A} (d : dec A) : exists r, opt d None = Some r.
Proof. eexists. reflexivity. Qed.

(* leaves *)
Lemma ty_string n ds props req items addl anyof oneof enum const ref mi fm df j :
  svalid_f n ds (Sch (Some [TyString]) props req items addl anyof oneof enum const ref mi fm df) j = Some true ->
  exists s, j = JStr s.
Proof. intros H. inv H. destruct j; try discriminate T. eexists. reflexivity. Qed.
Lemma ty_bool n ds props req items addl anyof oneof enum const ref mi fm df j :
  svalid_f n ds (Sch (Some [TyBoolean]) props req items addl anyof oneof enum const ref mi fm df) j = Some true ->
  exists b, j = JBool b.
Proof. intros H. inv H. destruct j; try discriminate T. eexists. reflexivity. Qed.
Lemma ty_null n ds props req items addl anyof oneof enum const ref mi fm df j :
  svalid_f n ds (Sch (Some [TyNull]) props req items addl anyof oneof enum const ref mi fm df) j = Some true -> j = JNull.
Proof. intros H. inv H. destruct j; try discriminate T. reflexivity. Qed.
Lemma ty_strnull n ds props req items addl anyof oneof enum const ref mi fm df j :
  svalid_f n ds (Sch (Some [TyString; TyNull]) props req items addl anyof oneof enum const ref mi fm df) j = Some true ->
  j = JNull \/ exists s, j = JStr s.
Proof. intros H. inv H. destruct j; try discriminate T; [left; reflexivity|right; eexists; reflexivity]. Qed.
Lemma ty_int n ds props req items addl anyof oneof enum const ref mi fm df j :
  svalid_f n ds (Sch (Some [TyInteger]) props req items addl anyof oneof enum const ref mi fm df) j = Some true ->
  exists z, j = JInt z /\ fmt_ok fm (JInt z) = true /\ match mi with None => true | Some m => Z.leb m z end = true.
Proof. intros H. inv H. destruct j; try discriminate T. eexists. repeat split; assumption. Qed.
Lemma ty_strs n ds fm df j :
  svalid_f n ds (Sch (Some [TyArray]) [] [] (Some (Sch (Some [TyString]) [] [] None None None None None None None None None None))
                 None None None None None None None fm df) j = Some true ->
  exists l, d_vec d_string j = Some l.
Proof.
  intros H. inv H. destruct j as [| | | | |l|]; try discriminate T. unfold d_vec.
  apply map_opt_all. intros x Hx. destruct (ty_string _ _ _ _ _ _ _ _ _ _ _ _ _ _ _ (O x Hx)) as [s ->]. eexists. reflexivity.
Qed.

Lemma sv_const_str n ds ty props req items addl anyof oneof enum c ref mi fm df j :
  svalid_f n ds (Sch ty props req items addl anyof oneof enum (Some (JStr c)) ref mi fm df) j = Some true -> j = JStr c.
Proof. intros H. inv H. exact (json_eqb_str _ _ Co). Qed.
Lemma sv_obj_parts n ds props req items addl anyof oneof enum const ref mi fm df j :
  svalid_f n ds (Sch (Some [TyObject]) props req items addl anyof oneof enum const ref mi fm df) j = Some true ->
  exists m o, j = JObj o
    /\ forallb (fun r => match last_j r o with Some _ => true | None => false end) req = true
    /\ (forall ps, In ps props -> forall v, last_j (fst ps) o = Some v -> svalid_f m ds (snd ps) v = Some true).
Proof.
  intros H. inv H. destruct j as [| | | | | |o]; try discriminate T. destruct O as (Hr & Hp & _).
  exists n, o. repeat split; assumption.
Qed.
Lemma sv_arr_parts n ds props req it addl anyof oneof enum const ref mi fm df j :
  svalid_f n ds (Sch (Some [TyArray]) props req (Some it) addl anyof oneof enum const ref mi fm df) j = Some true ->
  exists m l, j = JArr l /\ forall x, In x l -> svalid_f m ds it x = Some true.
Proof. intros H. inv H. destruct j as [| | | | |l|]; try discriminate T. exists n, l. split; [reflexivity|exact O]. Qed.
Lemma sv_anyof_alt n ds ty props req items addl alts oneof enum const ref mi fm df j :
  svalid_f n ds (Sch ty props req items addl (Some alts) oneof enum const ref mi fm df) j = Some true ->
  exists m a, In a alts /\ svalid_f m ds a j = Some true.
Proof. intros H. inv H. destruct An as (a & Hin & Ha). exists n, a. split; assumption. Qed.
Lemma sv_oneof_alt n ds ty props req items addl anyof alts enum const ref mi fm df j :
  svalid_f n ds (Sch ty props req items addl anyof (Some alts) enum const ref mi fm df) j = Some true ->
  exists m a, In a alts /\ svalid_f m ds a j = Some true.
Proof. intros H. inv H. destruct On as (a & Hin & Ha). exists n, a. split; assumption. Qed.
Lemma ty_number n ds props req items addl anyof oneof enum const ref mi fm df j :
  svalid_f n ds (Sch (Some [TyNumber]) props req items addl anyof oneof enum const ref mi fm df) j = Some true ->
  (exists z, j = JInt z /\ fmt_ok fm (JInt z) = true) \/ exists r, j = JFloat r.
Proof. intros H. inv H. destruct j; try discriminate T; [left; eexists; split; [reflexivity|assumption]|right; eexists; reflexivity]. Qed.

Lemma first_some_any {A} (alts : list (dec A)) (j : json) :
  (exists d, In d alts /\ exists v, d j = Some v) -> exists v, first_some alts j = Some v.
Proof.
  induction alts as [|d r IH]; intros (d0 & Hin & v & Hv); [destruct Hin|]. cbn [first_some].
  destruct (d j) as [x|] eqn:E; [eexists; reflexivity|].
  destruct Hin as [->|Hin]; [rewrite Hv in E; discriminate E|]. apply IH. exists d0. split; [exact Hin|exists v; exact Hv].
Qed.
Lemma d_u32_ok z : fmt_ok (Some "uint32") (JInt z) = true -> exists n, d_u32 (JInt z) = Some n.
Proof. cbn. intros H. unfold d_u32. rewrite H. eexists. reflexivity. Qed.

Definition def_action : jschema :=
  match find (fun kv => String.eqb (fst kv) "MigrationAction") DS with Some (_, t) => t | None => SFalse end.

Section DV.
  Variable ds : defs.
  Hypothesis Hds : defs_ok ds.

  (* a pure $ref to one of the shared definitions *)
  Lemma sv_ref_def n name props req items addl anyof oneof enum const mi fm df j :
    In name used ->
    svalid_f n ds (Sch None props req items addl anyof oneof enum const (Some name) mi fm df) j = Some true ->
    exists m, svalid_f m ds (def name) j = Some true.
  Proof.
    intros Hn H. inv H. destruct Rf as (k & t & Hf & Hv). rewrite (Hds name Hn) in Hf.
    injection Hf as _ <-. exists n. exact Hv.
  Qed.
  (* anyOf [ $ref name ; null ] *)
  Lemma sv_nullable_ref n name fm df j :
    In name used ->
    svalid_f n ds (Sch None [] [] None None
                     (Some [Sch None [] [] None None None None None None (Some name) None None None;
                            Sch (Some [TyNull]) [] [] None None None None None None None None None None])
                     None None None None None fm df) j = Some true ->
    j = JNull \/ exists m, svalid_f m ds (def name) j = Some true.
  Proof.
    intros Hn H. inv H. destruct An as (a & Hin & Ha). cbn [In] in Hin.
    destruct Hin as [<-|[<-|[]]]; [right; exact (sv_ref_def _ _ _ _ _ _ _ _ _ _ _ _ _ _ Hn Ha)|left; exact (ty_null _ _ _ _ _ _ _ _ _ _ _ _ _ _ _ Ha)].
  Qed.

  Lemma dv_simple n j : svalid_f n ds (def "SimpleColumnType") j = Some true -> exists s, d_simple j = Some s.
  Proof.
    let t := eval vm_compute in (def "SimpleColumnType") in change (def "SimpleColumnType") with t.
    intros H. inv H. change (existsb (json_eqb j) (map JStr (map simple_name all_simple)) = true) in En.
    destruct (enum_strs _ _ En) as [s [-> Hin]]. unfold d_simple, d_unit_enum, simple_table.
    exact (lookup_name_in simple_name all_simple s Hin).
  Qed.
  Lemma dv_ref_action (owned : bool) n j :
    svalid_f n ds (def "ReferenceAction") j = Some true -> exists a, d_unit_enum owned ref_action_table j = Some a.
  Proof.
    let t := eval vm_compute in (def "ReferenceAction") in change (def "ReferenceAction") with t.
    intros H. inv H.
    change (existsb (json_eqb j) (map JStr (map ref_action_name [Cascade; Restrict; SetNull; SetDefault; NoAction])) = true) in En.
    destruct (enum_strs _ _ En) as [s [-> Hin]]. unfold d_unit_enum, ref_action_table.
    exact (lookup_name_in ref_action_name _ s Hin).
  Qed.

  Lemma dv_num n j : nodup_doc j = true -> svalid_f n ds (def "NumValue") j = Some true -> exists v, d_num j = Some v.
  Proof.
    let t := eval vm_compute in (def "NumValue") in change (def "NumValue") with t.
    intros W H. inv H. destruct j as [| | | | | |o]; try discriminate T.
    destruct O as (Hr & Hp & _). destruct (nodup_doc_obj o W) as [Hd _].
    unfold d_num. rewrite (d_struct_obj _ _ o Hd). cbn [num_fields map fst b_num].
    destruct (req_present o _ Hr "name" ltac:(in_props)) as [v1 E1].
    destruct (req_present o _ Hr "value" ltac:(in_props)) as [v2 E2].
    rewrite E1, E2. cbn [req].
    destruct (ty_string _ _ _ _ _ _ _ _ _ _ _ _ _ _ _ (Hp ("name", _) ltac:(in_props) v1 E1)) as [s ->].
    destruct (ty_int _ _ _ _ _ _ _ _ _ _ _ _ _ _ _ (Hp ("value", _) ltac:(in_props) v2 E2)) as (z & -> & Hf & _).
    cbn in Hf. cbn [d_string d_i32]. rewrite Hf. eexists. reflexivity.
  Qed.

  Lemma dv_ev n j : nodup_doc j = true -> svalid_f n ds (def "EnumValues") j = Some true -> exists v, d_ev j = Some v.
  Proof.
    let t := eval vm_compute in (def "EnumValues") in change (def "EnumValues") with t.
    intros W H. destruct (sv_anyof_alt _ _ _ _ _ _ _ _ _ _ _ _ _ _ _ _ H) as (m & a & Hin & Ha). clear H.
    unfold d_ev. apply first_some_any. cbn [In] in Hin. destruct Hin as [<-|[<-|[]]].
    - eexists. split; [left; reflexivity|]. destruct (ty_strs _ _ _ _ _ Ha) as [l ->]. eexists. reflexivity.
    - eexists. split; [right; left; reflexivity|].
      destruct (sv_arr_parts _ _ _ _ _ _ _ _ _ _ _ _ _ _ _ Ha) as (m' & l & -> & Hl).
      assert (X : exists ys, map_opt d_num l = Some ys).
      { apply map_opt_all. intros x Hx.
        destruct (sv_ref_def _ "NumValue" _ _ _ _ _ _ _ _ _ _ _ _ ltac:(cbn [In used]; tauto) (Hl x Hx)) as [m2 H2].
        exact (dv_num _ _ (nodup_doc_arr l W x Hx) H2). }
      destruct X as [ys E]. cbn [d_vec]. rewrite E. eexists. reflexivity.
  Qed.

  (* an internally tagged alternative: the document is an object whose tag member is the string [name] *)
  Lemma tag_parts n tagk name props req items addl anyof oneof enum const ref mi fm df j :
    In tagk req ->
    (exists s, In (tagk, s) props /\ exists ty p r i a an on en rf m f d, s = Sch ty p r i a an on en (Some (JStr name)) rf m f d) ->
    svalid_f n ds (Sch (Some [TyObject]) props req items addl anyof oneof enum const ref mi fm df) j = Some true ->
    exists m o, j = JObj o /\ last_j tagk o = Some (JStr name)
      /\ forallb (fun r => match last_j r o with Some _ => true | None => false end) req = true
      /\ (forall ps, In ps props -> forall v, last_j (fst ps) o = Some v -> svalid_f m ds (snd ps) v = Some true).
  Proof.
    intros Hreq (s & Hs & ty & p & r & i & a & an & on & en & rf & m0 & f & d & ->) H.
    destruct (sv_obj_parts _ _ _ _ _ _ _ _ _ _ _ _ _ _ _ H) as (m & o & -> & Hr & Hp).
    exists m, o. destruct (req_present o _ Hr tagk Hreq) as [vt Et].
    pose proof (Hp _ Hs vt Et) as Hc. cbn [snd] in Hc. apply sv_const_str in Hc. subst vt.
    repeat split; assumption.
  Qed.

  (* one alternative of an internally tagged enum: from the validity of the alternative's object schema
     to the variant's row builder *)
  Lemma tagged_dec {A} (c : ctx) (tagk : string) (vs : list (variant A)) n name props req items addl anyof oneof enum const ref mi fm df j
        (i : nat) (n' : string) (fs : fields) (build : row -> option A) :
    nodup_doc j = true ->
    svalid_f n ds (Sch (Some [TyObject]) props req items addl anyof oneof enum const ref mi fm df) j = Some true ->
    In tagk req ->
    (exists s, In (tagk, s) props /\ exists ty p r i a an on en rf m f d, s = Sch ty p r i a an on en (Some (JStr name)) rf m f d) ->
    find_index (String.eqb name) (map fst vs) = Some i ->
    nth_error vs i = Some (n', (fs, build)) ->
    forallb (fun f => negb (String.eqb (fst f) tagk)) fs = true ->
    (forall m o,
        (forall k v, last_j k o = Some v -> nodup_doc v = true) ->
        forallb (fun r => match last_j r o with Some _ => true | None => false end) req = true ->
        (forall ps, In ps props -> forall v, last_j (fst ps) o = Some v -> svalid_f m ds (snd ps) v = Some true) ->
        exists v, build (map (fun f => last_j (fst f) o) fs) = Some v) ->
    exists v, d_tagged c tagk vs j = Some v.
  Proof.
    intros W H Hreq Hshape Hi Hn Hfs K.
    destruct (tag_parts n tagk name props req items addl anyof oneof enum const ref mi fm df j Hreq Hshape H) as (m & o & -> & Et & Hr & Hp).
    destruct (nodup_doc_obj o W) as [Hd Hw].
    rewrite (d_tagged_obj c tagk vs o name i n' fs build Hd Et Hi Hn Hfs).
    apply (K m o); [|exact Hr|exact Hp]. intros k v E. exact (Hw k v (last_in _ _ _ E)).
  Qed.

  (* ---- field tactics: the context holds  o, Hw, Hr, Hp  as introduced by tagged_dec / the struct lemmas;
          they are found by their types ---- *)
  Ltac with_ctx tac :=
    match goal with
    | Hw : (forall k v, last_j k ?o = Some v -> nodup_doc v = true),
      Hr : forallb _ _ = true,
      Hp : (forall ps, In ps _ -> forall v, last_j (fst ps) ?o = Some v -> _) |- _ => tac o Hw Hr Hp
    end.
  Ltac with_v tac :=
    match goal with
    | Hv : svalid_f _ _ _ ?v = Some true, Wv : nodup_doc ?v = true |- _ => tac v Hv Wv
    end.
  Ltac f_req k :=
    idtac; with_ctx ltac:(fun o Hw Hr Hp =>
      let v := fresh "v" in let E := fresh "E" in let Hv := fresh "Hv" in let Wv := fresh "Wv" in
      destruct (req_present _ _ Hr k ltac:(in_props)) as [v E]; rewrite E; cbn [req dflt];
      pose proof (Hp (k, _) ltac:(in_props) v E) as Hv; pose proof (Hw k v E) as Wv; cbn [fst snd] in Hv).
  Ltac f_str := idtac; with_v ltac:(fun v Hv Wv =>
    let s := fresh "s" in destruct (ty_string _ _ _ _ _ _ _ _ _ _ _ _ _ _ _ Hv) as [s ->]; cbn [d_string]; clear Hv Wv).
  Ltac f_bool := idtac; with_v ltac:(fun v Hv Wv =>
    let b := fresh "b" in destruct (ty_bool _ _ _ _ _ _ _ _ _ _ _ _ _ _ _ Hv) as [b ->]; cbn [d_bool]; clear Hv Wv).
  Ltac f_u32 := idtac; with_v ltac:(fun v Hv Wv =>
    let z := fresh "z" in let Hf := fresh "Hf" in let x := fresh "x" in let Ex := fresh "Ex" in
    destruct (ty_int _ _ _ _ _ _ _ _ _ _ _ _ _ _ _ Hv) as (z & -> & Hf & _); destruct (d_u32_ok z Hf) as [x Ex]; rewrite Ex; clear Hv Wv).
  Ltac f_strs := idtac; with_v ltac:(fun v Hv Wv =>
    let l := fresh "l" in let El := fresh "El" in destruct (ty_strs _ _ _ _ _ Hv) as [l El]; rewrite El; clear Hv Wv).
  Ltac f_ref name L := idtac; with_v ltac:(fun v Hv Wv =>
    let m := fresh "m" in let H2 := fresh "H2" in
    destruct (sv_ref_def _ name _ _ _ _ _ _ _ _ _ _ _ _ ltac:(cbn [In used]; tauto) Hv) as [m H2];
    let x := fresh "x" in let Ex := fresh "Ex" in destruct (L _ _ Wv H2) as [x Ex]; rewrite Ex; clear Hv Wv H2).
  (* optional members: absent, or present with the member's schema.  One goal per member (no branching):
     first  exists r, opt d (last_j k o) = Some r  is established, then rewritten *)
  Ltac f_opt k tac :=
    idtac; with_ctx ltac:(fun o Hw Hr Hp =>
      let r := fresh "r" in let Er := fresh "Er" in
      match goal with
      | |- context [opt ?d (last_j k o)] =>
          assert (Er : exists r, opt d (last_j k o) = Some r);
          [ let v := fresh "v" in let E := fresh "E" in let Hv := fresh "Hv" in let Wv := fresh "Wv" in
            destruct (last_j k o) as [v|] eqn:E;
            [ pose proof (Hp (k, _) ltac:(in_props) v E) as Hv; pose proof (Hw k v E) as Wv; cbn [fst snd] in Hv;
              apply opt_some; tac
            | apply opt_none ]
          | destruct Er as [r Er]; rewrite Er ]
      | |- context [dflt ?a ?d (last_j k o)] =>
          assert (Er : exists r, dflt a d (last_j k o) = Some r);
          [ let v := fresh "v" in let E := fresh "E" in let Hv := fresh "Hv" in let Wv := fresh "Wv" in
            destruct (last_j k o) as [v|] eqn:E;
            [ pose proof (Hp (k, _) ltac:(in_props) v E) as Hv; pose proof (Hw k v E) as Wv; cbn [fst snd] in Hv;
              cbn [dflt]; tac
            | eexists; reflexivity ]
          | destruct Er as [r Er]; rewrite Er ]
      end).
  (* goal: v = JNull \/ exists x, d v = Some x *)
  Ltac o_strnull := idtac; with_v ltac:(fun v Hv Wv =>
    let s := fresh "s" in destruct (ty_strnull _ _ _ _ _ _ _ _ _ _ _ _ _ _ _ Hv) as [->|[s ->]]; [left; reflexivity|right; eexists; reflexivity]).
  Ltac o_nullable name L := idtac; with_v ltac:(fun v Hv Wv =>
    let H2 := fresh "H2" in let m := fresh "m" in
    destruct (sv_nullable_ref _ name _ _ _ ltac:(cbn [In used]; tauto) Hv) as [->|[m H2]];
    [ left; reflexivity | right; exact (L _ _ Wv H2) ]).
  (* goal: exists r, d v = Some r  (for #[serde(default)] members) *)
  Ltac d_bool_ := idtac; with_v ltac:(fun v Hv Wv =>
    let b := fresh "b" in destruct (ty_bool _ _ _ _ _ _ _ _ _ _ _ _ _ _ _ Hv) as [b ->]; eexists; reflexivity).
  Ltac done := eexists; reflexivity.

  Lemma dv_complex n j :
    nodup_doc j = true -> svalid_f n ds (def "ComplexColumnType") j = Some true -> exists t, d_complex j = Some t.
  Proof.
    let t := eval vm_compute in (def "ComplexColumnType") in change (def "ComplexColumnType") with t.
    intros W H. destruct (sv_oneof_alt _ _ _ _ _ _ _ _ _ _ _ _ _ _ _ _ H) as (m & a & Hin & Ha). clear H.
    unfold d_complex. cbn [In] in Hin.
    repeat (destruct Hin as [<-|Hin];
            [ eapply (tagged_dec FromContent "kind" complex_variants _ _ _ _ _ _ _ _ _ _ _ _ _ _ _ _ _ _ _ W Ha);
              [ in_props | eexists; split; [in_props|repeat eexists] | reflexivity | reflexivity | reflexivity
              | intros m0 o Hw Hr Hp; cbn [map fst] ] | ]); [ .. | destruct Hin ].
    - f_req "length". f_u32. done.
    - f_req "precision". f_u32. f_req "scale". f_u32. done.
    - f_req "length". f_u32. done.
    - f_req "custom_type". f_str. done.
    - f_req "name". f_str. f_req "values". f_ref "EnumValues" dv_ev. done.
  Qed.

  Lemma struct_dec {A} (fs : fields) (build : row -> option A) n props req items addl anyof oneof enum const ref mi fm df j :
    nodup_doc j = true ->
    svalid_f n ds (Sch (Some [TyObject]) props req items addl anyof oneof enum const ref mi fm df) j = Some true ->
    (forall m o,
        (forall k v, last_j k o = Some v -> nodup_doc v = true) ->
        forallb (fun r => match last_j r o with Some _ => true | None => false end) req = true ->
        (forall ps, In ps props -> forall v, last_j (fst ps) o = Some v -> svalid_f m ds (snd ps) v = Some true) ->
        exists v, build (map (fun f => last_j (fst f) o) fs) = Some v) ->
    exists v, d_struct fs build j = Some v.
  Proof.
    intros W H K. destruct (sv_obj_parts _ _ _ _ _ _ _ _ _ _ _ _ _ _ _ H) as (m & o & -> & Hr & Hp).
    destruct (nodup_doc_obj o W) as [Hd Hw]. rewrite (d_struct_obj fs build o Hd).
    apply (K m o); [|exact Hr|exact Hp]. intros k v E. exact (Hw k v (last_in _ _ _ E)).
  Qed.

  Lemma dv_ctype n j : nodup_doc j = true -> svalid_f n ds (def "ColumnType") j = Some true -> exists t, d_ctype j = Some t.
  Proof.
    let t := eval vm_compute in (def "ColumnType") in change (def "ColumnType") with t.
    intros W H. destruct (sv_anyof_alt _ _ _ _ _ _ _ _ _ _ _ _ _ _ _ _ H) as (m & a & Hin & Ha). clear H.
    unfold d_ctype. apply first_some_any. cbn [In] in Hin. destruct Hin as [<-|[<-|[]]].
    - destruct (sv_ref_def _ "SimpleColumnType" _ _ _ _ _ _ _ _ _ _ _ _ ltac:(cbn [In used]; tauto) Ha) as [m2 H2].
      destruct (dv_simple _ _ H2) as [x Ex]. eexists. split; [left; reflexivity|]. cbn beta. rewrite Ex. eexists. reflexivity.
    - destruct (sv_ref_def _ "ComplexColumnType" _ _ _ _ _ _ _ _ _ _ _ _ ltac:(cbn [In used]; tauto) Ha) as [m2 H2].
      eexists. split; [right; left; reflexivity|]. exact (dv_complex _ _ W H2).
  Qed.

  Lemma dv_default n j : svalid_f n ds (def "DefaultValue") j = Some true -> exists d, d_default j = Some d.
  Proof.
    let t := eval vm_compute in (def "DefaultValue") in change (def "DefaultValue") with t.
    intros H. destruct (sv_anyof_alt _ _ _ _ _ _ _ _ _ _ _ _ _ _ _ _ H) as (m & a & Hin & Ha). clear H.
    unfold d_default. apply first_some_any. cbn [In] in Hin. destruct Hin as [<-|[<-|[<-|[<-|[]]]]].
    - destruct (ty_bool _ _ _ _ _ _ _ _ _ _ _ _ _ _ _ Ha) as [b ->]. eexists. split; [left; reflexivity|eexists; reflexivity].
    - destruct (ty_int _ _ _ _ _ _ _ _ _ _ _ _ _ _ _ Ha) as (z & -> & Hf & _). cbn in Hf.
      eexists. split; [right; left; reflexivity|]. cbn [d_i64]. rewrite Hf. eexists. reflexivity.
    - destruct (ty_number _ _ _ _ _ _ _ _ _ _ _ _ _ _ _ Ha) as [(z & -> & Hf)|[r ->]].
      + cbn in Hf. destruct (in_range i64_min i64_max z) eqn:Ei.
        * eexists. split; [right; left; reflexivity|]. cbn [d_i64]. rewrite Ei. eexists. reflexivity.
        * eexists. split; [do 2 right; left; reflexivity|]. cbn [d_f64].
          assert (Eu : in_range two63 (two64 - 1)%Z z = true).
          { unfold in_range in *. apply Bool.andb_true_iff in Hf as [H1 H2]. apply Z.leb_le in H1, H2.
            apply Bool.andb_true_iff. split; apply Z.leb_le; [|exact H2].
            apply Bool.andb_false_iff in Ei as [Ei|Ei]; apply Z.leb_gt in Ei; unfold i64_min, i64_max, two63 in *; lia. }
          rewrite Eu. eexists. reflexivity.
      + eexists. split; [do 2 right; left; reflexivity|eexists; reflexivity].
    - destruct (ty_string _ _ _ _ _ _ _ _ _ _ _ _ _ _ _ Ha) as [s ->]. eexists. split; [do 3 right; left; reflexivity|eexists; reflexivity].
  Qed.
  Lemma dv_default' n j : nodup_doc j = true -> svalid_f n ds (def "DefaultValue") j = Some true -> exists d, d_default j = Some d.
  Proof. intros _. apply dv_default. Qed.
  Lemma dv_ra n j : nodup_doc j = true -> svalid_f n ds (def "ReferenceAction") j = Some true -> exists a, d_ref_action j = Some a.
  Proof. intros _. apply (dv_ref_action false). Qed.
  Lemma dv_ra_owned n j : nodup_doc j = true -> svalid_f n ds (def "ReferenceAction") j = Some true -> exists a, d_ref_action_owned j = Some a.
  Proof. intros _. apply (dv_ref_action true). Qed.

  Lemma dv_pkdef n j : nodup_doc j = true -> svalid_f n ds (def "PrimaryKeyDef") j = Some true -> exists b, d_struct pk_fields b_pk j = Some b.
  Proof.
    let t := eval vm_compute in (def "PrimaryKeyDef") in change (def "PrimaryKeyDef") with t.
    intros W H. eapply struct_dec; [exact W|exact H|]. intros m o Hw Hr Hp. cbn [pk_fields map fst b_pk].
    f_opt "auto_increment" ltac:(d_bool_). done.
  Qed.
  Lemma dv_pk n j : nodup_doc j = true -> svalid_f n ds (def "PrimaryKeySyntax") j = Some true -> exists p, d_pk j = Some p.
  Proof.
    let t := eval vm_compute in (def "PrimaryKeySyntax") in change (def "PrimaryKeySyntax") with t.
    intros W H. destruct (sv_anyof_alt _ _ _ _ _ _ _ _ _ _ _ _ _ _ _ _ H) as (m & a & Hin & Ha). clear H.
    unfold d_pk. apply first_some_any. cbn [In] in Hin. destruct Hin as [<-|[<-|[]]].
    - destruct (ty_bool _ _ _ _ _ _ _ _ _ _ _ _ _ _ _ Ha) as [b ->]. eexists. split; [left; reflexivity|eexists; reflexivity].
    - destruct (sv_ref_def _ "PrimaryKeyDef" _ _ _ _ _ _ _ _ _ _ _ _ ltac:(cbn [In used]; tauto) Ha) as [m2 H2].
      destruct (dv_pkdef _ _ W H2) as [x Ex]. eexists. split; [right; left; reflexivity|]. cbn beta. rewrite Ex. eexists. reflexivity.
  Qed.
  Lemma dv_sba n j : nodup_doc j = true -> svalid_f n ds (def "StrOrBoolOrArray") j = Some true -> exists s, d_sba j = Some s.
  Proof.
    let t := eval vm_compute in (def "StrOrBoolOrArray") in change (def "StrOrBoolOrArray") with t.
    intros W H. destruct (sv_anyof_alt _ _ _ _ _ _ _ _ _ _ _ _ _ _ _ _ H) as (m & a & Hin & Ha). clear H.
    unfold d_sba. apply first_some_any. cbn [In] in Hin. destruct Hin as [<-|[<-|[<-|[]]]].
    - destruct (ty_string _ _ _ _ _ _ _ _ _ _ _ _ _ _ _ Ha) as [s ->]. eexists. split; [left; reflexivity|eexists; reflexivity].
    - destruct (ty_strs _ _ _ _ _ Ha) as [l El]. eexists. split; [right; left; reflexivity|]. cbn beta. rewrite El. eexists. reflexivity.
    - destruct (ty_bool _ _ _ _ _ _ _ _ _ _ _ _ _ _ _ Ha) as [b ->]. eexists. split; [do 2 right; left; reflexivity|eexists; reflexivity].
  Qed.

  Lemma dv_rsd n j : nodup_doc j = true -> svalid_f n ds (def "ReferenceSyntaxDef") j = Some true -> exists f, d_struct fkref_fields b_fkref j = Some f.
  Proof.
    let t := eval vm_compute in (def "ReferenceSyntaxDef") in change (def "ReferenceSyntaxDef") with t.
    intros W H. eapply struct_dec; [exact W|exact H|]. intros m o Hw Hr Hp. cbn [fkref_fields map fst b_fkref].
    f_req "references". f_str.
    f_opt "on_delete" ltac:(o_nullable "ReferenceAction" dv_ra).
    f_opt "on_update" ltac:(o_nullable "ReferenceAction" dv_ra). done.
  Qed.
  Lemma dv_fkd n j : nodup_doc j = true -> svalid_f n ds (def "ForeignKeyDef") j = Some true -> exists f, d_struct fkobj_fields b_fkobj j = Some f.
  Proof.
    let t := eval vm_compute in (def "ForeignKeyDef") in change (def "ForeignKeyDef") with t.
    intros W H. eapply struct_dec; [exact W|exact H|]. intros m o Hw Hr Hp. cbn [fkobj_fields map fst b_fkobj].
    f_req "ref_table". f_str. f_req "ref_columns". f_strs.
    f_opt "on_delete" ltac:(o_nullable "ReferenceAction" dv_ra).
    f_opt "on_update" ltac:(o_nullable "ReferenceAction" dv_ra). done.
  Qed.
  Lemma dv_fk n j : nodup_doc j = true -> svalid_f n ds (def "ForeignKeySyntax") j = Some true -> exists f, d_fk j = Some f.
  Proof.
    let t := eval vm_compute in (def "ForeignKeySyntax") in change (def "ForeignKeySyntax") with t.
    intros W H. destruct (sv_anyof_alt _ _ _ _ _ _ _ _ _ _ _ _ _ _ _ _ H) as (m & a & Hin & Ha). clear H.
    unfold d_fk. apply first_some_any. cbn [In] in Hin. destruct Hin as [<-|[<-|[<-|[]]]].
    - destruct (ty_string _ _ _ _ _ _ _ _ _ _ _ _ _ _ _ Ha) as [s ->]. eexists. split; [left; reflexivity|eexists; reflexivity].
    - destruct (sv_ref_def _ "ReferenceSyntaxDef" _ _ _ _ _ _ _ _ _ _ _ _ ltac:(cbn [In used]; tauto) Ha) as [m2 H2].
      eexists. split; [right; left; reflexivity|]. exact (dv_rsd _ _ W H2).
    - destruct (sv_ref_def _ "ForeignKeyDef" _ _ _ _ _ _ _ _ _ _ _ _ ltac:(cbn [In used]; tauto) Ha) as [m2 H2].
      eexists. split; [do 2 right; left; reflexivity|]. exact (dv_fkd _ _ W H2).
  Qed.

  Lemma dv_column n j : nodup_doc j = true -> svalid_f n ds (def "ColumnDef") j = Some true -> exists c, d_column j = Some c.
  Proof.
    let t := eval vm_compute in (def "ColumnDef") in change (def "ColumnDef") with t.
    intros W H. unfold d_column. eapply struct_dec; [exact W|exact H|]. intros m o Hw Hr Hp. cbn [column_fields map fst b_column].
    f_req "name". f_str. f_req "type". f_ref "ColumnType" dv_ctype. f_req "nullable". f_bool.
    f_opt "default" ltac:(o_nullable "DefaultValue" dv_default').
    f_opt "comment" ltac:(o_strnull).
    f_opt "primary_key" ltac:(o_nullable "PrimaryKeySyntax" dv_pk).
    f_opt "unique" ltac:(o_nullable "StrOrBoolOrArray" dv_sba).
    f_opt "index" ltac:(o_nullable "StrOrBoolOrArray" dv_sba).
    f_opt "foreign_key" ltac:(o_nullable "ForeignKeySyntax" dv_fk). done.
  Qed.

  Ltac tagged_alts c tagk vs W Ha Hin :=
    cbn [In] in Hin;
    repeat (destruct Hin as [<-|Hin];
            [ eapply (tagged_dec c tagk vs _ _ _ _ _ _ _ _ _ _ _ _ _ _ _ _ _ _ _ W Ha);
              [ in_props | eexists; split; [in_props|repeat eexists] | reflexivity | reflexivity | reflexivity
              | let m0 := fresh "m" in let o := fresh "o" in let Hw := fresh "Hw" in let Hr := fresh "Hr" in let Hp := fresh "Hp" in
                intros m0 o Hw Hr Hp; cbn [map fst s2] ] | ]); [ .. | destruct Hin ].

  Lemma dv_constraint (c : ctx) n j :
    nodup_doc j = true -> svalid_f n ds (def "TableConstraint") j = Some true -> exists k, d_constraint c j = Some k.
  Proof.
    let t := eval vm_compute in (def "TableConstraint") in change (def "TableConstraint") with t.
    intros W H. destruct (sv_oneof_alt _ _ _ _ _ _ _ _ _ _ _ _ _ _ _ _ H) as (m & a & Hin & Ha). clear H.
    unfold d_constraint. tagged_alts c "type" constraint_variants W Ha Hin.
    - f_opt "auto_increment" ltac:(d_bool_). f_req "columns". f_strs. done.
    - f_opt "name" ltac:(o_strnull). f_req "columns". f_strs. done.
    - f_opt "name" ltac:(o_strnull). f_req "columns". f_strs. f_req "ref_table". f_str. f_req "ref_columns". f_strs.
      f_opt "on_delete" ltac:(o_nullable "ReferenceAction" dv_ra_owned).
      f_opt "on_update" ltac:(o_nullable "ReferenceAction" dv_ra_owned). done.
    - f_req "name". f_str. f_req "expr". f_str. done.
    - f_opt "name" ltac:(o_strnull). f_req "columns". f_strs. done.
  Qed.

  (* arrays of $ref *)
  Lemma dv_vec_ref {A} (d : dec A) name n fm df j :
    In name used ->
    (forall n j, nodup_doc j = true -> svalid_f n ds (def name) j = Some true -> exists x, d j = Some x) ->
    nodup_doc j = true ->
    svalid_f n ds (Sch (Some [TyArray]) [] [] (Some (Sch None [] [] None None None None None None (Some name) None None None))
                   None None None None None None None fm df) j = Some true ->
    exists l, d_vec d j = Some l.
  Proof.
    intros Hn L W H. destruct (sv_arr_parts _ _ _ _ _ _ _ _ _ _ _ _ _ _ _ H) as (m & l & -> & Hl).
    cbn [d_vec]. apply map_opt_all. intros x Hx.
    destruct (sv_ref_def _ name _ _ _ _ _ _ _ _ _ _ _ _ Hn (Hl x Hx)) as [m2 H2].
    exact (L _ _ (nodup_doc_arr l W x Hx) H2).
  Qed.
  Ltac f_vec name L := idtac; with_v ltac:(fun v Hv Wv =>
    let l := fresh "l" in let El := fresh "El" in
    destruct (dv_vec_ref _ name _ _ _ _ ltac:(cbn [In used]; tauto) L Wv Hv) as [l El]; rewrite El; clear Hv Wv).

  (* BTreeMap<String,String> | null *)
  Lemma assoc_nodup_in (k : string) (v : json) (o : obj) : NoDup (map fst o) -> In (k, v) o -> assoc_j k o = Some v.
  Proof.
    induction o as [|[k' v'] r IH]; intros Hd Hin; [destruct Hin|]. cbn [map fst] in Hd. inversion Hd as [|x l Hn Hd']; subst.
    cbn [assoc_j]. destruct Hin as [E|Hin].
    - injection E as -> ->. rewrite String.eqb_refl. reflexivity.
    - destruct (String.eqb k k') eqn:E; [|exact (IH Hd' Hin)].
      apply String.eqb_eq in E; subst k'. exfalso. apply Hn. apply in_map_iff. exists (k, v). split; [reflexivity|exact Hin].
  Qed.
  Lemma dv_optmap n fm df j :
    nodup_doc j = true ->
    svalid_f n ds (Sch (Some [TyObject; TyNull]) [] [] None
                     (Some (Sch (Some [TyString]) [] [] None None None None None None None None None None))
                     None None None None None None fm df) j = Some true ->
    exists r, d_option d_map j = Some r.
  Proof.
    intros W H. inv H. destruct j as [| | | | | |o]; try discriminate T; [eexists; reflexivity|].
    destruct O as (_ & _ & Ha). destruct (nodup_doc_obj o W) as [Hd _].
    cbn [d_option d_map].
    assert (X : exists l, map_opt (fun kv : string * json => v <- d_string (snd kv);; Some (fst kv, v)) o = Some l).
    { apply map_opt_all. intros [k v] Hin. cbn [fst snd].
      assert (E : last_j k o = Some v) by (rewrite <- (last_assoc k o Hd); exact (assoc_nodup_in k v o Hd Hin)).
      destruct (ty_string _ _ _ _ _ _ _ _ _ _ _ _ _ _ _ (Ha (k, v) Hin eq_refl v E)) as [s ->]. eexists. reflexivity. }
    destruct X as [l ->]. eexists. reflexivity.
  Qed.
  Ltac d_optmap_ := idtac; with_v ltac:(fun v Hv Wv => exact (dv_optmap _ _ _ _ Wv Hv)).

  Lemma dv_action (c : ctx) n j :
    find (fun kv => String.eqb (fst kv) "MigrationAction") ds = Some ("MigrationAction", def_action) ->
    nodup_doc j = true -> svalid_f n ds def_action j = Some true -> exists a, d_action c j = Some a.
  Proof.
    intros _.
    let t := eval vm_compute in def_action in change def_action with t.
    intros W H. destruct (sv_oneof_alt _ _ _ _ _ _ _ _ _ _ _ _ _ _ _ _ H) as (m & a & Hin & Ha). clear H.
    unfold d_action. tagged_alts c "type" action_variants W Ha Hin.
    - f_req "table". f_str. f_req "columns". f_vec "ColumnDef" dv_column.
      f_req "constraints". f_vec "TableConstraint" (dv_constraint FromContent). done.
    - f_req "table". f_str. done.
    - f_req "table". f_str. f_req "column". f_ref "ColumnDef" dv_column. f_opt "fill_with" ltac:(o_strnull). done.
    - f_req "table". f_str. f_req "from". f_str. f_req "to". f_str. done.
    - f_req "table". f_str. f_req "column". f_str. done.
    - f_req "table". f_str. f_req "column". f_str. f_req "new_type". f_ref "ColumnType" dv_ctype.
      f_opt "fill_with" ltac:(d_optmap_). done.
    - f_req "table". f_str. f_req "column". f_str. f_req "nullable". f_bool. f_opt "fill_with" ltac:(o_strnull). done.
    - f_req "table". f_str. f_req "column". f_str. f_opt "new_default" ltac:(o_strnull). done.
    - f_req "table". f_str. f_req "column". f_str. f_opt "new_comment" ltac:(o_strnull). done.
    - f_req "table". f_str. f_req "constraint". f_ref "TableConstraint" (dv_constraint FromContent). done.
    - f_req "table". f_str. f_req "constraint". f_ref "TableConstraint" (dv_constraint FromContent). done.
    - f_req "from". f_str. f_req "to". f_str. done.
    - f_req "sql". f_str. done.
  Qed.

  (* ---------- the document roots ---------- *)
  Ltac d_vec_ name L := idtac; with_v ltac:(fun v Hv Wv => exact (dv_vec_ref _ name _ _ _ _ ltac:(cbn [In used]; tauto) L Wv Hv)).
  Ltac d_optstr_ := idtac; with_v ltac:(fun v Hv Wv =>
    let s := fresh "s" in destruct (ty_strnull _ _ _ _ _ _ _ _ _ _ _ _ _ _ _ Hv) as [->|[s ->]]; eexists; reflexivity).
  Ltac d_str_ := idtac; with_v ltac:(fun v Hv Wv =>
    let s := fresh "s" in destruct (ty_string _ _ _ _ _ _ _ _ _ _ _ _ _ _ _ Hv) as [s ->]; eexists; reflexivity).

  Lemma dv_table_root n j :
    nodup_doc j = true -> svalid_f n ds (sd_root schema_of_model) j = Some true -> exists t, decode_table j = Some t.
  Proof.
    let r := eval vm_compute in (sd_root schema_of_model) in change (sd_root schema_of_model) with r.
    intros W H. unfold decode_table. eapply struct_dec; [exact W|exact H|]. intros m o Hw Hr Hp.
    cbn [table_fields map fst b_table].
    f_req "name". f_str. f_opt "description" ltac:(o_strnull).
    f_req "columns". f_vec "ColumnDef" dv_column.
    f_opt "constraints" ltac:(d_vec_ "TableConstraint" (dv_constraint FromText)). done.
  Qed.

  Lemma dv_plan_root n j :
    find (fun kv => String.eqb (fst kv) "MigrationAction") ds = Some ("MigrationAction", def_action) ->
    nodup_doc j = true -> svalid_f n ds (sd_root schema_of_migration) j = Some true -> exists p, decode_plan j = Some p.
  Proof.
    let r := eval vm_compute in (sd_root schema_of_migration) in change (sd_root schema_of_migration) with r.
    intros Hfa W H. unfold decode_plan. eapply struct_dec; [exact W|exact H|]. intros m o Hw Hr Hp.
    cbn [plan_fields map fst b_plan].
    f_opt "id" ltac:(d_str_). f_opt "comment" ltac:(o_strnull). f_opt "created_at" ltac:(d_optstr_).
    f_req "version". f_u32. f_req "actions".
    destruct (sv_arr_parts _ _ _ _ _ _ _ _ _ _ _ _ _ _ _ Hv) as (m' & l & -> & Hl).
    assert (X : exists acts, map_opt (d_action FromText) l = Some acts).
    { apply map_opt_all. intros a Ha. pose proof (Hl a Ha) as Hx'. inv Hx'.
      destruct Rf as (k & t & Hfd & Ht). rewrite Hfa in Hfd. injection Hfd as _ <-.
      exact (dv_action FromText _ _ Hfa (nodup_doc_arr l Wv a Ha) Ht). }
    destruct X as [acts Ea]. cbn [d_vec]. rewrite Ea. done.
  Qed.
End DV.

(* decode_of_valid for the two document types, any fuel *)
Theorem decode_of_valid_table (n : nat) (j : json) :
  nodup_doc j = true ->
  svalid_f n (sd_defs schema_of_model) (sd_root schema_of_model) j = Some true ->
  exists t, decode_table j = Some t.
Proof. exact (dv_table_root _ defs_ok_model n j). Qed.

Theorem decode_of_valid_plan (n : nat) (j : json) :
  nodup_doc j = true ->
  svalid_f n (sd_defs schema_of_migration) (sd_root schema_of_migration) j = Some true ->
  exists p, decode_plan j = Some p.
Proof. exact (dv_plan_root DS defs_ok_migration n j eq_refl). Qed.
