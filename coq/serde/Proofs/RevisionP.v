(* Writer / reader agreement (C12, second half): what `revision` writes (M1's revision_fill) against
   the loader's validate_migration_plan. *)
From VV.M1 Require Import Validate Revision.
From VV.SERDE Require Import CorrSerde.

Definition not_missing (r : vres) : Prop := forall t c, r <> Err (VMissingFillWith t c).

Lemma first_err_not_missing {A} (f : A -> vres) (l : list A) :
  (forall a, In a l -> not_missing (f a)) -> not_missing (first_err f l).
Proof.
  induction l as [|a r IH]; intros H t c; cbn [first_err].
  - unfold vok. discriminate.
  - destruct (f a) as [u|e] eqn:E.
    + apply IH. intros b Hb. apply H. right. exact Hb.
    + rewrite <- E. apply H. left. reflexivity.
Qed.

Lemma enum_value_not_missing (v : string) (vs : enum_values) (t c : string) :
  not_missing (validate_enum_value v vs t c).
Proof.
  intros t' c'. unfold validate_enum_value.
  destruct (extract_enum_value v); [destruct (mem_str _ _)|]; unfold vok; discriminate.
Qed.

Lemma vseq_not_missing (a b : vres) : not_missing a -> not_missing b -> not_missing (vseq a b).
Proof. intros Ha Hb t c. unfold vseq. destruct a as [u|e]; [apply Hb|apply Ha]. Qed.

(* the writer's and the reader's common notion: this action still lacks a fill value *)
Definition needs_fill (a : action) : bool :=
  match a with
  | AddColumn _ col fw => (negb (c_nullable col) && is_none (c_default col) && is_none fw)%bool
  | ModifyColumnNullable _ _ n fw => (negb n && is_none fw)%bool
  | _ => false
  end.

Lemma is_none_match {A} (o : option A) : match o with None => true | Some _ => false end = is_none o.
Proof. reflexivity. Qed.

Lemma validate_action_not_missing (a : action) : needs_fill a = false -> not_missing (validate_action a).
Proof.
  destruct a as [t cols ks|t|t col f|t x y|t x|t x ty f|t x n f|t x d|t x d|t k|t k|x y|s];
    cbn [needs_fill validate_action]; intros H; try (intros t' c'; unfold vok; discriminate).
  - rewrite !is_none_match, H.
    destruct (c_type col); try (intros t' c'; unfold vok; discriminate).
    apply vseq_not_missing.
    + destruct f; [apply enum_value_not_missing|intros t' c'; unfold vok; discriminate].
    + destruct (c_default col); [apply enum_value_not_missing|intros t' c'; unfold vok; discriminate].
  - destruct f as [fw|]; [|intros t' c'; unfold vok; discriminate].
    destruct ty; try (intros t' c'; unfold vok; discriminate).
    apply first_err_not_missing. intros kv _. apply enum_value_not_missing.
  - rewrite is_none_match, H. intros t' c'. unfold vok. discriminate.
Qed.

(* ---------- the fill map covers every action that needs a fill, outside the known class ---------- *)
Lemma collect_tail (a0 : action) (r : list action) (s : schema) x :
  In x (collect_fills r s) -> In x (collect_fills (a0 :: r) s).
Proof.
  intros H. destruct a0; cbn [collect_fills]; try exact H.
  - destruct (_ && _ && _)%bool; [right|]; exact H.
  - destruct (_ && _)%bool; [|exact H].
    destruct (lookup_col s table column) as [c|]; [destruct (is_none (c_default c))|]; try (right; exact H); exact H.
Qed.

Lemma collect_in_add (acts : list action) (s : schema) t col :
  In (AddColumn t col None) acts -> (negb (c_nullable col) && is_none (c_default col))%bool = true ->
  exists v, In (t, c_name col, v) (collect_fills acts s).
Proof.
  induction acts as [|a0 r IH]; intros Hin Hc; [destruct Hin|].
  destruct Hin as [->|Hin].
  - cbn [collect_fills]. rewrite Hc. cbn [is_none andb]. eexists. left. reflexivity.
  - destruct (IH Hin Hc) as [v Hv]. exists v. apply collect_tail. exact Hv.
Qed.

Lemma collect_in_mcn (acts : list action) (s : schema) t c :
  In (ModifyColumnNullable t c false None) acts ->
  match lookup_col s t c with Some col => is_none (c_default col) | None => true end = true ->
  exists v, In (t, c, v) (collect_fills acts s).
Proof.
  induction acts as [|a0 r IH]; intros Hin Hc; [destruct Hin|].
  destruct Hin as [->|Hin].
  - cbn [collect_fills negb is_none andb].
    destruct (lookup_col s t c) as [col|]; [rewrite Hc|]; eexists; left; reflexivity.
  - destruct (IH Hin Hc) as [v Hv]. exists v. apply collect_tail. exact Hv.
Qed.

Lemma fv_get_in (t c v : string) (m : list (string * string * string)) :
  In (t, c, v) m -> fv_get t c m <> None.
Proof.
  intros Hin. unfold fv_get.
  destruct (find _ (rev m)) eqn:E; [discriminate|].
  exfalso. pose proof (find_none _ _ E (t, c, v) (proj1 (in_rev m (t, c, v)) Hin)) as F.
  cbn [fst snd] in F. rewrite !String.eqb_refl in F. discriminate.
Qed.

Lemma apply_fill_nil (a : action) : apply_fill [] a = a.
Proof. destruct a; try reflexivity; destruct fill_with; reflexivity. Qed.

Lemma filled_actions (acts : list action) (m : list (string * string * string)) :
  match m with [] => acts | _ => map (apply_fill m) acts end = map (apply_fill m) acts.
Proof.
  destruct m; [|reflexivity]. induction acts as [|a r IH]; [reflexivity|].
  cbn [map]. rewrite apply_fill_nil, <- IH. reflexivity.
Qed.

Lemma apply_fill_no_need (np : plan) (baseline : schema) (a : action) :
  known_C12_nullable_default np baseline = false -> In a (p_actions np) ->
  needs_fill (apply_fill (collect_fills (p_actions np) baseline) a) = false.
Proof.
  intros Hk Hin. set (m := collect_fills (p_actions np) baseline).
  destruct a as [t cols ks|t|t col f|t x y|t x|t x ty f|t x n f|t x d|t x d|t k|t k|x y|s]; try reflexivity.
  - destruct f as [v|]; cbn [apply_fill].
    + cbn [needs_fill is_none]. rewrite Bool.andb_false_r. reflexivity.
    + destruct (fv_get t (c_name col) m) as [v|] eqn:E.
      * cbn [needs_fill is_none]. rewrite Bool.andb_false_r. reflexivity.
      * cbn [needs_fill is_none]. rewrite Bool.andb_true_r.
        destruct (negb (c_nullable col) && is_none (c_default col))%bool eqn:C; [|reflexivity].
        exfalso. destruct (collect_in_add (p_actions np) baseline t col Hin C) as [v Hv].
        exact (fv_get_in _ _ _ _ Hv E).
  - destruct f as [v|]; cbn [apply_fill].
    + cbn [needs_fill is_none]. rewrite Bool.andb_false_r. reflexivity.
    + destruct (fv_get t x m) as [v|] eqn:E.
      * cbn [needs_fill is_none]. rewrite Bool.andb_false_r. reflexivity.
      * cbn [needs_fill is_none]. rewrite Bool.andb_true_r.
        destruct n; [reflexivity|]. exfalso.
        assert (C : match lookup_col baseline t x with Some col => is_none (c_default col) | None => true end = true).
        { destruct (lookup_col baseline t x) as [col|] eqn:L; [|reflexivity].
          destruct (c_default col) as [dv|] eqn:D; [|reflexivity]. exfalso.
          unfold known_C12_nullable_default in Hk.
          assert (X : existsb (fun a => match a with
                                        | ModifyColumnNullable t c false None =>
                                            match lookup_col baseline t c with
                                            | Some col => match c_default col with Some _ => true | None => false end
                                            | None => false
                                            end
                                        | _ => false
                                        end) (p_actions np) = true).
          { apply existsb_exists. eexists. split; [exact Hin|]. cbn. rewrite L, D. reflexivity. }
          rewrite X in Hk. discriminate. }
        destruct (collect_in_mcn (p_actions np) baseline t x Hin C) as [v Hv].
        exact (fv_get_in _ _ _ _ Hv E).
Qed.

Lemma apply_enum_fills_in (i : nat) (l : list action) (me : list (nat * list string)) (a' : action) :
  In a' (apply_enum_fills i l me) -> In a' l \/ needs_fill a' = false.
Proof.
  revert i. induction l as [|a r IH]; intros i H; [destruct H|].
  cbn [apply_enum_fills] in H. destruct H as [H|H].
  - destruct a; try (left; left; exact H).
    destruct (find _ me) as [[k unc]|]; [|left; left; exact H].
    destruct new_type as [| | | | |nm [[|f0 fr]|nl]]; try (left; left; exact H).
    right. subst a'. reflexivity.
  - destruct (IH _ H) as [Hl|Hn]; [left; right; exact Hl|right; exact Hn].
Qed.

(* Outside the known class the loader never rejects a freshly written migration for a missing fill
   value.  _partial: the other error kind of validate_migration_plan (InvalidEnumDefault: an enum
   column whose default / fill value is not one of its labels, e.g. an enum without labels) is not
   excluded by this statement. *)
Theorem revision_output_loadable_partial (np : plan) (baseline : schema) (w : plan) :
  written_of np baseline = Some w ->
  known_C12_nullable_default np baseline = false ->
  forall t c, validate_migration_plan w <> Err (VMissingFillWith t c).
Proof.
  intros Hw Hk. unfold written_of, revision_fill in Hw.
  destruct (refuses (p_actions np)); [discriminate|].
  injection Hw as <-. rewrite filled_actions.
  unfold validate_migration_plan. cbn [p_actions].
  apply first_err_not_missing. intros a' Ha'. apply validate_action_not_missing.
  destruct (apply_enum_fills_in _ _ _ _ Ha') as [Hl|Hn]; [|exact Hn].
  apply in_map_iff in Hl as [a [<- Hin]].
  apply apply_fill_no_need; assumption.
Qed.

(* D6: the faithful model violates revision_output_loadable. *)
Definition d6_t1 : schema :=
  [mkTable "user" None
     [mkCol "id" (TSimple Integer) false None None (Some (PKBool true)) None None None;
      mkCol "name" (TSimple Text) true (Some (DStr "'x'")) None None None None None] []].
Definition d6_t2 : schema :=
  [mkTable "user" None
     [mkCol "id" (TSimple Integer) false None None (Some (PKBool true)) None None None;
      mkCol "name" (TSimple Text) false (Some (DStr "'x'")) None None None None None] []].

Lemma revision_unloadable_refuted :
  exists p1 np baseline w,
    plan_next d6_t1 [] = Ok p1 /\ plan_next d6_t2 [p1] = Ok np /\ replay [p1] = Ok baseline /\
    written_of np baseline = Some w /\
    known_C12_nullable_default np baseline = true /\
    validate_migration_plan w = Err (VMissingFillWith "user" "name").
Proof.
  do 4 eexists.
  split; [vm_compute; reflexivity|].
  split; [vm_compute; reflexivity|].
  split; [vm_compute; reflexivity|].
  split; [vm_compute; reflexivity|].
  split; vm_compute; reflexivity.
Qed.
