(* Writer / reader agreement (C12, second half): what `revision` writes (M1's revision_fill) against
   the loader's validate_migration_plan. *)
From VV.M1 Require Import Validate Revision.
From VV.SERDE Require Import CorrSerde.

Definition not_missing (r : vres) : Prop := forall t c, r <> Err (VMissingFillWith t c).

Lemma first_err_not_missing {A} (f : A -> vres) (l : list A) :
  (forall a, In a l -> not_missing (f a)) -> not_missing (first_err f l).
Proof.
  induction l as [|a r IH]; intros H t c; cbn [first_err].
  - unfold vok. discriminate.
  - destruct (f a) as [u|e] eqn:E.
    + apply IH. intros b Hb. apply H. right. exact Hb.
    + rewrite <- E. apply H. left. reflexivity.
Qed.

Lemma enum_value_not_missing (v : string) (vs : enum_values) (t c : string) :
  not_missing (validate_enum_value v vs t c).
Proof.
  intros t' c'. unfold validate_enum_value.
  destruct (extract_enum_value v); [destruct (mem_str _ _)|]; unfold vok; discriminate.
Qed.

Lemma vseq_not_missing (a b : vres) : not_missing a -> not_missing b -> not_missing (vseq a b).
Proof. intros Ha Hb t c. unfold vseq. destruct a as [u|e]; [apply Hb|apply Ha]. Qed.

(* the writer's and the reader's common notion: this action still lacks a fill value *)
Definition needs_fill (a : action) : bool :=
  match a with
  | AddColumn _ col fw => (negb (c_nullable col) && is_none (c_default col) && is_none fw)%bool
  | ModifyColumnNullable _ _ n fw => (negb n && is_none fw)%bool
  | _ => false
  end.

Lemma is_none_match {A} (o : option A) : match o with None => true | Some _ => false end = is_none o.
Proof. reflexivity. Qed.

Lemma validate_action_not_missing (a : action) : needs_fill a = false -> not_missing (validate_action a).
Proof.
  destruct a as [t cols ks|t|t col f|t x y|t x|t x ty f|t x n f|t x d|t x d|t k|t k|x y|s];
    cbn [needs_fill validate_action]; intros H; try (intros t' c'; unfold vok; discriminate).
  - rewrite !is_none_match, H.
    destruct (c_type col); try (intros t' c'; unfold vok; discriminate).
    apply vseq_not_missing.
    + destruct f; [apply enum_value_not_missing|intros t' c'; unfold vok; discriminate].
    + destruct (c_default col); [apply enum_value_not_missing|intros t' c'; unfold vok; discriminate].
  - destruct f as [fw|]; [|intros t' c'; unfold vok; discriminate].
    destruct ty; try (intros t' c'; unfold vok; discriminate).
    apply first_err_not_missing. intros kv _. apply enum_value_not_missing.
  - rewrite is_none_match, H. intros t' c'. unfold vok. discriminate.
Qed.

(* ---------- the fill map covers every action that needs a fill, outside the known class ---------- *)
Lemma collect_tail (a0 : action) (r : list action) (s : schema) x :
  In x (collect_fills r s) -> In x (collect_fills (a0 :: r) s).
Proof.
  intros H. destruct a0; cbn [collect_fills]; try exact H.
  - destruct (_ && _ && _)%bool; [right|]; exact H.
  - destruct (_ && _)%bool; [|exact H].
    destruct (lookup_col s table column) as [c|]; [destruct (is_none (c_default c))|]; try (right; exact H); exact H.
Qed.

Lemma collect_in_add (acts : list action) (s : schema) t col :
  In (AddColumn t col None) acts -> (negb (c_nullable col) && is_none (c_default col))%bool = true ->
  exists v, In (t, c_name col, v) (collect_fills acts s).
Proof.
  induction acts as [|a0 r IH]; intros Hin Hc; [destruct Hin|].
  destruct Hin as [->|Hin].
  - cbn [collect_fills]. rewrite Hc. cbn [is_none andb]. eexists. left. reflexivity.
  - destruct (IH Hin Hc) as [v Hv]. exists v. apply collect_tail. exact Hv.
Qed.

Lemma collect_in_mcn (acts : list action) (s : schema) t c :
  In (ModifyColumnNullable t c false None) acts ->
  match lookup_col s t c with Some col => is_none (c_default col) | None => true end = true ->
  exists v, In (t, c, v) (collect_fills acts s).
Proof.
  induction acts as [|a0 r IH]; intros Hin Hc; [destruct Hin|].
  destruct Hin as [->|Hin].
  - cbn [collect_fills negb is_none andb].
    destruct (lookup_col s t c) as [col|]; [rewrite Hc|]; eexists; left; reflexivity.
  - destruct (IH Hin Hc) as [v Hv]. exists v. apply collect_tail. exact Hv.
Qed.

Lemma fv_get_in (t c v : string) (m : list (string * string * string)) :
  In (t, c, v) m -> fv_get t c m <> None.
Proof.
  intros Hin. unfold fv_get.
  destruct (find _ (rev m)) eqn:E; [discriminate|].
  exfalso. pose proof (find_none _ _ E (t, c, v) (proj1 (in_rev m (t, c, v)) Hin)) as F.
  cbn [fst snd] in F. rewrite !String.eqb_refl in F. discriminate.
Qed.

Lemma apply_fill_nil (a : action) : apply_fill [] a = a.
Proof. destruct a; try reflexivity; destruct fill_with; reflexivity. Qed.

Lemma filled_actions (acts : list action) (m : list (string * string * string)) :
  match m with [] => acts | _ => map (apply_fill m) acts end = map (apply_fill m) acts.
Proof.
  destruct m; [|reflexivity]. induction acts as [|a r IH]; [reflexivity|].
  cbn [map]. rewrite apply_fill_nil, <- IH. reflexivity.
Qed.

Lemma apply_enum_fills_in (i : nat) (l : list action) (me : list (nat * list string)) (a' : action) :
  In a' (apply_enum_fills i l me) -> In a' l \/ needs_fill a' = false.
Proof.
  revert i. induction l as [|a r IH]; intros i H; [destruct H|].
  cbn [apply_enum_fills] in H. destruct H as [H|H].
  - destruct a; try (left; left; exact H).
    destruct (find _ me) as [[k unc]|]; [|left; left; exact H].
    destruct new_type as [| | | | |nm [[|f0 fr]|nl]]; try (left; left; exact H).
    right. subst a'. reflexivity.
  - destruct (IH _ H) as [Hl|Hn]; [left; right; exact Hl|right; exact Hn].
Qed.

Lemma default_as_fill_keeps (b : schema) (a : action) :
  needs_fill a = false -> needs_fill (default_as_fill b a) = false.
Proof.
  destruct a as [t cols ks|t|t col f|t x y|t x|t x ty f|t x n f|t x d|t x d|t k|t k|x y|s]; intros H; try exact H.
  destruct n; [exact H|]. destruct f as [v|]; [exact H|]. discriminate H.
Qed.

(* every action of the plan: after the fill map and the default-as-fill pass nothing lacks a fill value *)
Lemma filled_no_need (np : plan) (baseline : schema) (a : action) :
  In a (p_actions np) ->
  needs_fill (default_as_fill baseline (apply_fill (collect_fills (p_actions np) baseline) a)) = false.
Proof.
  intros Hin. set (m := collect_fills (p_actions np) baseline).
  destruct a as [t cols ks|t|t col f|t x y|t x|t x ty f|t x n f|t x d|t x d|t k|t k|x y|s]; try reflexivity.
  - apply default_as_fill_keeps. destruct f as [v|]; cbn [apply_fill].
    + cbn [needs_fill is_none]. rewrite Bool.andb_false_r. reflexivity.
    + destruct (fv_get t (c_name col) m) as [v|] eqn:E.
      * cbn [needs_fill is_none]. rewrite Bool.andb_false_r. reflexivity.
      * cbn [needs_fill is_none]. rewrite Bool.andb_true_r.
        destruct (negb (c_nullable col) && is_none (c_default col))%bool eqn:C; [|reflexivity].
        exfalso. destruct (collect_in_add (p_actions np) baseline t col Hin C) as [v Hv].
        exact (fv_get_in _ _ _ _ Hv E).
  - destruct f as [v|]; cbn [apply_fill].
    + apply default_as_fill_keeps. cbn [needs_fill is_none]. rewrite Bool.andb_false_r. reflexivity.
    + destruct (fv_get t x m) as [v|] eqn:E.
      * apply default_as_fill_keeps. cbn [needs_fill is_none]. rewrite Bool.andb_false_r. reflexivity.
      * destruct n; [reflexivity|]. cbn [default_as_fill].
        destruct (lookup_col baseline t x) as [col|] eqn:L.
        -- destruct (c_default col) as [dv|] eqn:D; [reflexivity|]. exfalso.
           assert (C : match lookup_col baseline t x with Some col => is_none (c_default col) | None => true end = true)
             by (rewrite L, D; reflexivity).
           destruct (collect_in_mcn (p_actions np) baseline t x Hin C) as [v Hv].
           exact (fv_get_in _ _ _ _ Hv E).
        -- exfalso.
           assert (C : match lookup_col baseline t x with Some col => is_none (c_default col) | None => true end = true)
             by (rewrite L; reflexivity).
           destruct (collect_in_mcn (p_actions np) baseline t x Hin C) as [v Hv].
           exact (fv_get_in _ _ _ _ Hv E).
Qed.

(* After the repair of D6 (446c8b4, default_as_fill): whatever plan is handed to `revision`
   (in particular every plan produced by plan_next) and whatever fill values it already carries,
   the loader never rejects the written migration for a missing fill value. *)
Theorem revision_no_missing_fill (np : plan) (baseline : schema) (w : plan) :
  written_of np baseline = Some w ->
  forall t c, validate_migration_plan w <> Err (VMissingFillWith t c).
Proof.
  intros Hw. unfold written_of, revision_fill in Hw.
  destruct (refuses (p_actions np)); [discriminate|].
  injection Hw as <-. rewrite filled_actions.
  unfold validate_migration_plan. cbn [p_actions].
  apply first_err_not_missing. intros a'' Ha''. apply validate_action_not_missing.
  apply in_map_iff in Ha'' as [a' [<- Ha']].
  destruct (apply_enum_fills_in _ _ _ _ Ha') as [Hl|Hn]; [|apply default_as_fill_keeps; exact Hn].
  apply in_map_iff in Hl as [a [<- Hin]].
  apply filled_no_need. exact Hin.
Qed.

(* what the loader's validation can answer at all *)
Definition verdict_kind (r : vres) : Prop :=
  r = Ok tt \/ (exists t c, r = Err (VMissingFillWith t c)) \/ (exists t c v, r = Err (VInvalidEnumDefault t c v)).
Lemma enum_value_kind (v : string) (vs : enum_values) (t c : string) : verdict_kind (validate_enum_value v vs t c).
Proof.
  unfold validate_enum_value, vok. destruct (extract_enum_value v) as [x|]; [destruct (mem_str _ _)|];
    [left; reflexivity|right; right; do 3 eexists; reflexivity|left; reflexivity].
Qed.
Lemma vseq_kind (a b : vres) : verdict_kind a -> verdict_kind b -> verdict_kind (vseq a b).
Proof.
  intros Ha Hb. unfold vseq. destruct a as [u|e]; [exact Hb|].
  destruct Ha as [Ha|Ha]; [discriminate Ha|]. right. exact Ha.
Qed.
Lemma first_err_kind {A} (f : A -> vres) (l : list A) : (forall a, verdict_kind (f a)) -> verdict_kind (first_err f l).
Proof.
  intros H. induction l as [|a r IH]; cbn [first_err]; [left; reflexivity|].
  destruct (f a) as [u|e] eqn:E; [exact IH|]. rewrite <- E. apply H.
Qed.
Lemma validate_action_kind (a : action) : verdict_kind (validate_action a).
Proof.
  destruct a as [t cols ks|t|t col f|t x y|t x|t x ty f|t x n f|t x d|t x d|t k|t k|x y|s];
    cbn [validate_action]; try (left; reflexivity).
  - destruct (_ && _ && _)%bool; [right; left; do 2 eexists; reflexivity|].
    destruct (c_type col); try (left; reflexivity).
    apply vseq_kind.
    + destruct f; [apply enum_value_kind|left; reflexivity].
    + destruct (c_default col); [apply enum_value_kind|left; reflexivity].
  - destruct f as [fw|]; [|left; reflexivity].
    destruct ty; try (left; reflexivity).
    apply first_err_kind. intros kv. apply enum_value_kind.
  - destruct (_ && _)%bool; [right; left; do 2 eexists; reflexivity|left; reflexivity].
Qed.

(* revision_output_loadable, full statement of what is and is not guaranteed: the written migration is
   accepted by the loader, or it is rejected because an enum-typed column's default / fill value is not
   one of the enum's labels (InvalidEnumDefault) - never for a missing fill value. *)
Theorem revision_output_loadable (np : plan) (baseline : schema) (w : plan) :
  written_of np baseline = Some w ->
  validate_migration_plan w = Ok tt \/ exists t c v, validate_migration_plan w = Err (VInvalidEnumDefault t c v).
Proof.
  intros Hw.
  destruct (first_err_kind validate_action (p_actions w) validate_action_kind) as [H|[[t [c H]]|H]].
  - left. exact H.
  - exfalso. exact (revision_no_missing_fill np baseline w Hw t c H).
  - right. exact H.
Qed.

(* the former D6 witness: the plan planned for it is now written with the default as fill value and loads *)
Definition d6_t1 : schema :=
  [mkTable "user" None
     [mkCol "id" (TSimple Integer) false None None (Some (PKBool true)) None None None;
      mkCol "name" (TSimple Text) true (Some (DStr "'x'")) None None None None None] []].
Definition d6_t2 : schema :=
  [mkTable "user" None
     [mkCol "id" (TSimple Integer) false None None (Some (PKBool true)) None None None;
      mkCol "name" (TSimple Text) false (Some (DStr "'x'")) None None None None None] []].

Lemma d6_witness_now_loads :
  exists p1 np baseline w,
    plan_next d6_t1 [] = Ok p1 /\ plan_next d6_t2 [p1] = Ok np /\ replay [p1] = Ok baseline /\
    written_of np baseline = Some w /\
    p_actions w = [ModifyColumnNullable "user" "name" false (Some "'x'")] /\
    validate_migration_plan w = Ok tt.
Proof.
  do 4 eexists.
  split; [vm_compute; reflexivity|].
  split; [vm_compute; reflexivity|].
  split; [vm_compute; reflexivity|].
  split; [vm_compute; reflexivity|].
  split; vm_compute; reflexivity.
Qed.

(* the second disjunct of revision_output_loadable is inhabited: a fill value the user chose on the
   command line (`revision --fill-with t.status=bogus`, applied before revision_fill, revision.rs:395-399)
   for an enum-typed column is written unchecked and the loader rejects it *)
Lemma revision_enum_fill_refuted :
  exists np baseline w,
    written_of np baseline = Some w /\
    validate_migration_plan w = Err (VInvalidEnumDefault "t" "status" "bogus").
Proof.
  exists (mkPlan "" None None 2
            [AddColumn "t" (mkCol "status" (TEnum "status" (EVString ["active"; "done"])) false None None None None None None)
                       (Some "bogus")]).
  exists [mkTable "t" None [mkCol "id" (TSimple Integer) false None None (Some (PKBool true)) None None None] []].
  eexists. split; [vm_compute; reflexivity|]. vm_compute. reflexivity.
Qed.
