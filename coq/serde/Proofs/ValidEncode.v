(* valid (schema_of ..) (encode v) = Some true for every value in the image: the documents the
   serialisers produce validate against the schemas schemars derives from the same types. *)
From VV.SERDE Require Import Serde Config SerdeBase SchemaOf SchemaOfTypes ValidBase.
From Coq Require Import Lia.

Definition DS : defs := sd_defs schema_of_migration.
Definition def (name : string) : jschema :=
  match find (fun kv => String.eqb (fst kv) name) DS with Some (_, t) => t | None => SFalse end.
Definition used : list string :=
  ["ColumnDef"; "ColumnType"; "ComplexColumnType"; "DefaultValue"; "EnumValues"; "ForeignKeyDef";
   "ForeignKeySyntax"; "NumValue"; "PrimaryKeyDef"; "PrimaryKeySyntax"; "ReferenceAction";
   "ReferenceSyntaxDef"; "SimpleColumnType"; "StrOrBoolOrArray"; "TableConstraint"].
(* the definitions a document schema must share with the migration schema (the model schema does) *)
Definition defs_ok (ds : defs) : Prop :=
  forall name, In name used -> find (fun kv => String.eqb (fst kv) name) ds = Some (name, def name).

Ltac use_ref name :=
  eapply (v_ref _ _ name name (def name));
  [ match goal with H : defs_ok _ |- _ => apply H; cbn [In used]; tauto end
  | let t := eval vm_compute in (def name) in change (def name) with t ].
Ltac props :=
  let ps := fresh "ps" in let Hin := fresh "Hin" in
  intros ps Hin; cbn [In] in Hin;
  repeat (destruct Hin as [<-|Hin]); [..|contradiction];
  cbn [fst snd get_mk String.eqb Ascii.eqb Bool.eqb andb].
Ltac alt0 := eapply v_anyof; [ left; reflexivity | ].
Ltac alt1 := eapply v_anyof; [ right; left; reflexivity | ].
Ltac alt2 := eapply v_anyof; [ do 2 right; left; reflexivity | ].
Ltac alt3 := eapply v_anyof; [ do 3 right; left; reflexivity | ].

Ltac in_props := cbn [In]; repeat (first [ left; reflexivity | right ]).
Ltac nomatch tagkey :=
  eapply (v_obj_false _ _ _ _ _ _ _ (tagkey, _)); [ reflexivity | in_props | reflexivity | reflexivity ].
Ltac one_of tagkey tac :=
  apply v_oneof;
  repeat first
    [ apply count_o_nil
    | (apply count_o_false_step; [ solve [ nomatch tagkey ] | ])
    | (apply count_o_true_step; [ tac | ]) ].

Lemma tagged_mk (tag name : string) (l : list (string * option json)) :
  JObj ((tag, JStr name) :: mk_obj l) = JObj (mk_obj ((tag, Some (JStr name)) :: l)).
Proof. reflexivity. Qed.

Lemma v_u32 (m : nat) (ds : defs) (n : N) (df : option json) :
  valid_f (S m) ds (Sch (Some [TyInteger]) [] [] None None None None None None None (Some 0%Z) (Some "uint32") df) (e_u32 n) = Some true.
Proof.
  cbn [valid_f e_u32 existsb has_type orb ge_min].
  replace (Z.leb 0 (Z.of_N n)) with true; [reflexivity|]. symmetry. apply Z.leb_le. lia.
Qed.

Section Valid.
  Variable ds : defs.
  Hypothesis Hds : defs_ok ds.

  Lemma v_strs (m : nat) (fm : option string) (df : option json) (l : list string) :
    valid_f (2 + m) ds (Sch (Some [TyArray]) [] []
                          (Some (Sch (Some [TyString]) [] [] None None None None None None None None None None))
                          None None None None None None None fm df) (e_strs l) = Some true.
  Proof. apply v_arr. intros x _. reflexivity. Qed.

  Lemma v_simple (m : nat) (s : simple_type) : valid_f (1 + m) ds (def "SimpleColumnType") (e_simple s) = Some true.
  Proof. destruct s; reflexivity. Qed.
  Lemma v_ref_action (m : nat) (a : ref_action) : valid_f (1 + m) ds (def "ReferenceAction") (e_ref_action a) = Some true.
  Proof. destruct a; reflexivity. Qed.

  Lemma v_num (m : nat) (n : num_value) : valid_f (2 + m) ds (def "NumValue") (e_num n) = Some true.
  Proof.
    let t := eval vm_compute in (def "NumValue") in change (def "NumValue") with t.
    unfold e_num. apply v_obj_mk; [reflexivity|reflexivity|]. props; reflexivity.
  Qed.

  Lemma v_ev (m : nat) (v : enum_values) : valid_f (5 + m) ds (def "EnumValues") (e_ev v) = Some true.
  Proof.
    let t := eval vm_compute in (def "EnumValues") in change (def "EnumValues") with t.
    destruct v as [l|l]; cbn [e_ev].
    - alt0. apply (v_strs (2 + m)).
    - alt1. apply v_arr. intros x _. use_ref "NumValue". apply (v_num m).
  Qed.

  Lemma v_complex (m : nat) (t : column_type) :
    match t with TSimple _ => True | _ => valid_f (8 + m) ds (def "ComplexColumnType") (e_ctype t) = Some true end.
  Proof.
    let t := eval vm_compute in (def "ComplexColumnType") in change (def "ComplexColumnType") with t.
    destruct t as [s|n|p s|n|c|n v]; [exact I|..]; cbn [e_ctype]; rewrite tagged_mk;
      (one_of "kind" ltac:(apply v_obj_mk; [reflexivity|reflexivity|props; first [apply v_u32|reflexivity|idtac]])).
    use_ref "EnumValues". apply (v_ev m).
  Qed.

  Lemma v_ctype (m : nat) (t : column_type) : valid_f (11 + m) ds (def "ColumnType") (e_ctype t) = Some true.
  Proof.
    let t := eval vm_compute in (def "ColumnType") in change (def "ColumnType") with t.
    destruct t as [s|n|p s|n|c|n v].
    - alt0. use_ref "SimpleColumnType". apply (v_simple (8 + m)).
    - alt1. eapply (v_ref _ _ "ComplexColumnType"); [apply Hds; cbn [In used]; tauto|]. exact (v_complex (1 + m) (TVarchar n)).
    - alt1. eapply (v_ref _ _ "ComplexColumnType"); [apply Hds; cbn [In used]; tauto|]. exact (v_complex (1 + m) (TNumeric p s)).
    - alt1. eapply (v_ref _ _ "ComplexColumnType"); [apply Hds; cbn [In used]; tauto|]. exact (v_complex (1 + m) (TChar n)).
    - alt1. eapply (v_ref _ _ "ComplexColumnType"); [apply Hds; cbn [In used]; tauto|]. exact (v_complex (1 + m) (TCustom c)).
    - alt1. eapply (v_ref _ _ "ComplexColumnType"); [apply Hds; cbn [In used]; tauto|]. exact (v_complex (1 + m) (TEnum n v)).
  Qed.

  (* anyOf [ $ref name ; null ] : the schemars rendering of Option<T> *)
  Lemma v_nullable_ref (n : nat) (name : string) (j : json) (fm : option string) (df : option json) :
    In name used -> (j = JNull \/ valid_f n ds (def name) j = Some true) ->
    valid_f (2 + n) ds (Sch None [] [] None None
                          (Some [Sch None [] [] None None None None None None (Some name) None None None;
                                 Sch (Some [TyNull]) [] [] None None None None None None None None None None])
                          None None None None None fm df) j = Some true.
  Proof.
    intros Hn [->|Hv].
    - alt1. reflexivity.
    - alt0. eapply (v_ref _ _ name name (def name)); [apply Hds; exact Hn|exact Hv].
  Qed.

  Lemma v_default (m : nat) (d : default_value) :
    im_default d = true -> valid_f (2 + m) ds (def "DefaultValue") (e_default d) = Some true.
  Proof.
    let t := eval vm_compute in (def "DefaultValue") in change (def "DefaultValue") with t.
    destruct d as [b|z|r|s]; cbn [im_default e_default]; intros H.
    - alt0. reflexivity.
    - alt1. reflexivity.
    - apply Bool.negb_true_iff in H. rewrite H. alt2. reflexivity.
    - alt3. reflexivity.
  Qed.

  Lemma v_pk (m : nat) (p : pk_syntax) : valid_f (5 + m) ds (def "PrimaryKeySyntax") (e_pk p) = Some true.
  Proof.
    let t := eval vm_compute in (def "PrimaryKeySyntax") in change (def "PrimaryKeySyntax") with t.
    destruct p as [b|a]; cbn [e_pk].
    - alt0. reflexivity.
    - alt1. use_ref "PrimaryKeyDef". apply v_obj_mk; [reflexivity|reflexivity|]. props. reflexivity.
  Qed.

  Lemma v_sba (m : nat) (s : str_or_bool_or_array) : valid_f (4 + m) ds (def "StrOrBoolOrArray") (e_sba s) = Some true.
  Proof.
    let t := eval vm_compute in (def "StrOrBoolOrArray") in change (def "StrOrBoolOrArray") with t.
    destruct s as [s|l|b]; cbn [e_sba].
    - alt0. reflexivity.
    - alt1. apply (v_strs (1 + m)).
    - alt2. reflexivity.
  Qed.

  Lemma v_opt_ref_action_skip (m : nat) (d : option ref_action) (fm : option string) (df : option json) :
    match option_map e_ref_action d with
    | Some j => valid_f (4 + m) ds (Sch None [] [] None None
                          (Some [Sch None [] [] None None None None None None (Some "ReferenceAction") None None None;
                                 Sch (Some [TyNull]) [] [] None None None None None None None None None None])
                          None None None None None fm df) j = Some true
    | None => True
    end.
  Proof.
    destruct d as [a|]; cbn [option_map]; [|exact I].
    apply (v_nullable_ref (2 + m)); [cbn [In used]; tauto|]. right. apply (v_ref_action (1 + m)).
  Qed.
  Lemma v_opt_ref_action_null (m : nat) (d : option ref_action) (fm : option string) (df : option json) :
    valid_f (4 + m) ds (Sch None [] [] None None
                          (Some [Sch None [] [] None None None None None None (Some "ReferenceAction") None None None;
                                 Sch (Some [TyNull]) [] [] None None None None None None None None None None])
                          None None None None None fm df) (e_option e_ref_action d) = Some true.
  Proof.
    apply (v_nullable_ref (2 + m)); [cbn [In used]; tauto|].
    destruct d as [a|]; cbn [e_option]; [right; apply (v_ref_action (1 + m))|left; reflexivity].
  Qed.

  Lemma v_fk (m : nat) (f : fk_syntax) : valid_f (8 + m) ds (def "ForeignKeySyntax") (e_fk f) = Some true.
  Proof.
    let t := eval vm_compute in (def "ForeignKeySyntax") in change (def "ForeignKeySyntax") with t.
    destruct f as [s|a d u|t c d u]; cbn [e_fk].
    - alt0. reflexivity.
    - alt1. use_ref "ReferenceSyntaxDef". apply v_obj_mk; [reflexivity|reflexivity|]. props.
      + apply (v_opt_ref_action_skip (1 + m)).
      + apply (v_opt_ref_action_skip (1 + m)).
      + reflexivity.
    - alt2. use_ref "ForeignKeyDef". apply v_obj_mk; [reflexivity|reflexivity|]. props.
      + apply (v_opt_ref_action_null (1 + m)).
      + apply (v_opt_ref_action_null (1 + m)).
      + apply (v_strs (3 + m)).
      + reflexivity.
  Qed.

  Ltac opt_str := match goal with |- context [option_map JStr ?o] => destruct o; [reflexivity|exact I] end.
  Ltac nul_str := match goal with |- context [e_option JStr ?o] => destruct o; reflexivity end.

  (* dispatch on the shape of the value, so that no lemma is ever tried on a goal it cannot close
     (a failing [apply] would make the unifier unfold the validator) *)
  Ltac leaf :=
    lazymatch goal with
    | |- valid_f _ _ _ (e_strs _) = _ => apply (v_strs _)
    | |- valid_f _ _ _ (e_option e_ref_action _) = _ => apply (v_opt_ref_action_null _)
    | |- valid_f _ _ _ (e_option JStr ?o) = _ => destruct o; reflexivity
    | |- valid_f _ _ _ (JStr _) = _ => reflexivity
    | |- valid_f _ _ _ (JBool _) = _ => reflexivity
    | |- match option_map JStr ?o with Some _ => _ | None => _ end => destruct o; [reflexivity|exact I]
    | |- True => exact I
    end.

  Lemma v_column (m : nat) (c : column_def) :
    im_column c = true -> valid_f (14 + m) ds (def "ColumnDef") (e_column c) = Some true.
  Proof.
    intros H. unfold im_column in H. apply Bool.andb_true_iff in H as [_ Hd].
    let t := eval vm_compute in (def "ColumnDef") in change (def "ColumnDef") with t.
    unfold e_column. apply v_obj_mk; [reflexivity|reflexivity|]. props.
    - opt_str.
    - destruct (c_default c) as [d|]; cbn [option_map]; [|exact I].
      apply (v_nullable_ref (11 + m)); [cbn [In used]; tauto|]. right. apply (v_default (9 + m)). exact Hd.
    - destruct (c_foreign_key c) as [f|]; cbn [option_map]; [|exact I].
      apply (v_nullable_ref (11 + m)); [cbn [In used]; tauto|]. right. apply (v_fk (3 + m)).
    - destruct (c_index c) as [x|]; cbn [option_map]; [|exact I].
      apply (v_nullable_ref (11 + m)); [cbn [In used]; tauto|]. right. apply (v_sba (7 + m)).
    - reflexivity.
    - reflexivity.
    - destruct (c_primary_key c) as [x|]; cbn [option_map]; [|exact I].
      apply (v_nullable_ref (11 + m)); [cbn [In used]; tauto|]. right. apply (v_pk (6 + m)).
    - use_ref "ColumnType". apply (v_ctype (1 + m)).
    - destruct (c_unique c) as [x|]; cbn [option_map]; [|exact I].
      apply (v_nullable_ref (11 + m)); [cbn [In used]; tauto|]. right. apply (v_sba (7 + m)).
  Qed.

  Lemma v_columns (m : nat) (fm : option string) (df : option json) (l : list column_def) :
    forallb im_column l = true ->
    valid_f (16 + m) ds (Sch (Some [TyArray]) [] [] (Some (Sch None [] [] None None None None None None (Some "ColumnDef") None None None))
                           None None None None None None None fm df) (JArr (map e_column l)) = Some true.
  Proof.
    intros H. apply v_arr. intros c Hc. use_ref "ColumnDef". apply (v_column m).
    rewrite forallb_forall in H. exact (H c Hc).
  Qed.

  Lemma v_constraint (m : nat) (k : table_constraint) :
    valid_f (8 + m) ds (def "TableConstraint") (e_constraint k) = Some true.
  Proof.
    let t := eval vm_compute in (def "TableConstraint") in change (def "TableConstraint") with t.
    destruct k as [a cols|n cols|n cols t rc d u|n e|n cols]; cbn [e_constraint]; rewrite tagged_mk;
      (one_of "type" ltac:(apply v_obj_mk; [reflexivity|reflexivity|props; leaf])).
  Qed.

  Lemma v_constraints (m : nat) (fm : option string) (df : option json) (l : list table_constraint) :
    valid_f (10 + m) ds (Sch (Some [TyArray]) [] [] (Some (Sch None [] [] None None None None None None (Some "TableConstraint") None None None))
                           None None None None None None None fm df) (JArr (map e_constraint l)) = Some true.
  Proof. apply v_arr. intros k _. use_ref "TableConstraint". apply (v_constraint m). Qed.

  (* BTreeMap<String,String>: type [object, null] with additionalProperties: string *)
  Lemma assoc_all (P : json -> Prop) (k : string) (o : obj) (v : json) :
    (forall kv, In kv o -> P (snd kv)) -> assoc_j k o = Some v -> P v.
  Proof.
    induction o as [|[k' v'] r IH]; cbn [assoc_j]; intros H E; [discriminate|].
    destruct (String.eqb k k').
    - injection E as <-. exact (H (k', v') (or_introl eq_refl)).
    - apply IH; [intros kv Hin; apply H; right; exact Hin|exact E].
  Qed.
  Lemma v_map (m : nat) (fm : option string) (df : option json) (mp : list (string * string)) :
    valid_f (2 + m) ds (Sch (Some [TyObject; TyNull]) [] [] None
                          (Some (Sch (Some [TyString]) [] [] None None None None None None None None None None))
                          None None None None None None fm df) (e_map mp) = Some true.
  Proof.
    unfold e_map. cbn [Nat.add valid_f existsb has_type orb forallb all_o].
    set (o := map (fun kv : string * string => (fst kv, JStr (snd kv))) mp).
    rewrite all_o_true; [reflexivity|].
    intros kv _. destruct (last_j (fst kv) o) as [v|] eqn:E; [|reflexivity].
    assert (S : exists s, v = JStr s).
    { unfold last_j in E. apply (assoc_all (fun v => exists s, v = JStr s) (fst kv) (rev o) v); [|exact E].
      intros kv' Hin. apply in_rev in Hin. unfold o in Hin. apply in_map_iff in Hin as [x [<- _]]. eexists. reflexivity. }
    destruct S as [s ->]. reflexivity.
  Qed.

  Ltac aleaf H :=
    lazymatch goal with
    | |- valid_f _ _ _ (JArr (map e_column _)) = _ => apply (v_columns _); exact H
    | |- valid_f _ _ _ (JArr (map e_constraint _)) = _ => apply (v_constraints _)
    | |- valid_f _ _ _ (e_column _) = _ => use_ref "ColumnDef"; apply (v_column _); exact H
    | |- valid_f _ _ _ (e_constraint _) = _ => use_ref "TableConstraint"; apply (v_constraint _)
    | |- valid_f _ _ _ (e_ctype _) = _ => use_ref "ColumnType"; apply (v_ctype _)
    | |- valid_f _ _ _ (e_map _) = _ => apply (v_map _)
    | _ => leaf
    end.

  Lemma v_action (m : nat) (a : action) :
    im_action a = true -> valid_f (20 + m) ds (def "MigrationAction") (e_action a) = Some true.
  Proof.
    intros H.
    let t := eval vm_compute in (def "MigrationAction") in change (def "MigrationAction") with t.
    destruct a as [t cols ks|t|t col f|t x y|t x|t x ty f|t x n f|t x d|t x d|t k|t k|x y|s];
      cbn [e_action]; unfold tagged; rewrite tagged_mk; cbn [im_action] in H;
      [ | | | | | destruct f as [mp|]; cbn [option_map] | | | | | | | ];
      (one_of "type" ltac:(apply v_obj_mk; [reflexivity|reflexivity|props; aleaf H])).
  Qed.
End Valid.

Lemma defs_ok_migration : defs_ok DS.
Proof.
  intros name Hin. cbn [In used] in Hin.
  repeat (destruct Hin as [<-|Hin]; [reflexivity|]). contradiction.
Qed.
Lemma defs_ok_model : defs_ok (sd_defs schema_of_model).
Proof.
  intros name Hin. cbn [In used] in Hin.
  repeat (destruct Hin as [<-|Hin]; [vm_compute; reflexivity|]). contradiction.
Qed.

(* every MigrationPlan in the image serialises to a document that validates against the schema
   derived from the type (all 13 action kinds, every column / constraint / type / default shape) *)
Theorem valid_encode_plan (p : plan) :
  im_plan p = true -> valid schema_of_migration (encode_plan p) = Some true.
Proof.
  intros H. unfold im_plan in H. apply Bool.andb_true_iff in H as [_ Ha].
  unfold valid, VALID_FUEL.
  let r := eval vm_compute in (sd_root schema_of_migration) in change (sd_root schema_of_migration) with r.
  change (sd_defs schema_of_migration) with DS.
  unfold encode_plan. apply v_obj_mk; [reflexivity|reflexivity|]. props.
  - apply v_arr. intros a Hin.
    eapply (v_ref _ _ "MigrationAction" "MigrationAction"); [reflexivity|].
    apply (v_action DS defs_ok_migration 41 a). rewrite forallb_forall in Ha. exact (Ha a Hin).
  - destruct (p_comment p); reflexivity.
  - destruct (p_created_at p); reflexivity.
  - reflexivity.
  - apply v_u32.
Qed.

Theorem valid_encode_table (t : table_def) :
  im_table t = true -> valid schema_of_model (encode_table t) = Some true.
Proof.
  intros H. unfold im_table in H.
  unfold valid, VALID_FUEL.
  let r := eval vm_compute in (sd_root schema_of_model) in change (sd_root schema_of_model) with r.
  unfold encode_table. apply v_obj_mk; [reflexivity|reflexivity|]. props.
  - apply (v_columns _ defs_ok_model 47). exact H.
  - destruct (t_constraints t) as [|k ks]; [exact I|].
    apply (v_constraints _ defs_ok_model 53 None None (k :: ks)).
  - destruct (t_description t); [reflexivity|exact I].
  - reflexivity.
Qed.

(* ---------- VespertideConfig ---------- *)
Definition DSC : defs := sd_defs schema_of_config.
Ltac cref name tac :=
  eapply (v_ref _ DSC name name); [reflexivity|]; tac.
Theorem valid_encode_config (c : vconfig) : valid schema_of_config (encode_config c) = Some true.
Proof.
  unfold valid, VALID_FUEL.
  let r := eval vm_compute in (sd_root schema_of_config) in change (sd_root schema_of_config) with r.
  change (sd_defs schema_of_config) with DSC.
  unfold encode_config. apply v_obj_mk; [reflexivity|reflexivity|]. props.
  - cref "NameCase" ltac:(destruct (cf_column_naming_case c); reflexivity).
  - reflexivity.
  - cref "FileFormat" ltac:(destruct (cf_migration_format c); reflexivity).
  - reflexivity.
  - reflexivity.
  - cref "FileFormat" ltac:(destruct (cf_model_format c); reflexivity).
  - reflexivity.
  - reflexivity.
  - cref "SeaOrmConfig" ltac:(idtac).
    unfold e_seaorm. apply v_obj_mk; [reflexivity|reflexivity|]. props.
    + cref "NameCase" ltac:(destruct (so_enum_naming_case (cf_seaorm c)); reflexivity).
    + apply (v_strs DSC 59).
    + apply (v_strs DSC 59).
    + reflexivity.
  - cref "NameCase" ltac:(destruct (cf_table_naming_case c); reflexivity).
Qed.
