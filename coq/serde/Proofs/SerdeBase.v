(* Generic lemmas about the struct / tagged-enum / option decoders of Model/Serde.v. *)
From VV.SERDE Require Import Serde.
From Coq Require Import Lia.

Lemma map_opt_map {A B} (d : B -> option A) (e : A -> B) (l : list A) :
  (forall x, In x l -> d (e x) = Some x) -> map_opt d (map e l) = Some l.
Proof.
  induction l as [|x r IH]; intros H; cbn [map map_opt]; [reflexivity|].
  rewrite (H x (or_introl eq_refl)), IH; [reflexivity|].
  intros y Hy; apply H; right; exact Hy.
Qed.

Lemma map_opt_map_b {A B} (P : A -> bool) (d : B -> option A) (e : A -> B) (l : list A) :
  forallb P l = true -> (forall x, P x = true -> d (e x) = Some x) -> map_opt d (map e l) = Some l.
Proof.
  intros HP H. apply map_opt_map. intros x Hx. apply H.
  rewrite forallb_forall in HP. exact (HP x Hx).
Qed.

(* ---------- objects built by mk_obj ---------- *)
Fixpoint get_mk (k : string) (l : list (string * option json)) : option json :=
  match l with
  | [] => None
  | (k', v) :: r => if String.eqb k k' then v else get_mk k r
  end.

Lemma mem_str_false_in (k : string) (l : list string) : mem_str k l = false -> ~ In k l.
Proof.
  unfold mem_str. induction l as [|x r IH]; cbn [existsb]; intros H Hin; [exact Hin|].
  apply Bool.orb_false_iff in H as [H1 H2].
  destruct Hin as [->|Hin]; [rewrite String.eqb_refl in H1; discriminate|exact (IH H2 Hin)].
Qed.

Lemma absent_mk (k : string) (l : list (string * option json)) :
  mem_str k (map fst l) = false -> assoc_j k (mk_obj l) = None /\ count_key k (mk_obj l) = O.
Proof.
  unfold mem_str. induction l as [|[k' v] r IH]; cbn [map fst existsb mk_obj]; intros H.
  - split; reflexivity.
  - apply Bool.orb_false_iff in H as [H1 H2]. specialize (IH H2).
    destruct v as [j|]; [cbn [assoc_j count_key]; rewrite H1|]; exact IH.
Qed.

Lemma assoc_mk (k : string) (l : list (string * option json)) :
  nodupb (map fst l) = true -> assoc_j k (mk_obj l) = get_mk k l.
Proof.
  induction l as [|[k' v] r IH]; cbn [map fst nodupb mk_obj get_mk]; intros H; [reflexivity|].
  apply Bool.andb_true_iff in H as [H1 H2]. apply Bool.negb_true_iff in H1.
  destruct v as [j|]; cbn [assoc_j].
  - destruct (String.eqb k k'); [reflexivity|exact (IH H2)].
  - destruct (String.eqb k k') eqn:E.
    + apply String.eqb_eq in E; subst k'. exact (proj1 (absent_mk k r H1)).
    + exact (IH H2).
Qed.

Lemma count_mk (k : string) (l : list (string * option json)) :
  nodupb (map fst l) = true -> Nat.ltb 1 (count_key k (mk_obj l)) = false.
Proof.
  induction l as [|[k' v] r IH]; cbn [map fst nodupb mk_obj]; intros H; [reflexivity|].
  apply Bool.andb_true_iff in H as [H1 H2]. apply Bool.negb_true_iff in H1.
  destruct v as [j|]; cbn [count_key].
  - destruct (String.eqb k k') eqn:E.
    + apply String.eqb_eq in E; subst k'. rewrite (proj2 (absent_mk k r H1)). reflexivity.
    + exact (IH H2).
  - exact (IH H2).
Qed.

Lemma row_of_obj_mk (fs : fields) (l : list (string * option json)) :
  nodupb (map fst l) = true ->
  row_of_obj fs (mk_obj l) = Some (map (fun f => get_mk (fst f) l) fs).
Proof.
  intros H. unfold row_of_obj, dup_known.
  assert (E : existsb (fun f => Nat.ltb 1 (count_key f (mk_obj l))) (map fst fs) = false).
  { induction (map fst fs) as [|f r IH]; cbn [existsb]; [reflexivity|].
    rewrite (count_mk f l H), IH. reflexivity. }
  rewrite E. f_equal. apply map_ext. intros f. apply assoc_mk. exact H.
Qed.

Lemma d_struct_mk {A} (fs : fields) (build : row -> option A) (l : list (string * option json)) :
  nodupb (map fst l) = true ->
  d_struct fs build (JObj (mk_obj l)) = build (map (fun f => get_mk (fst f) l) fs).
Proof. intros H. unfold d_struct. rewrite (row_of_obj_mk fs l H). reflexivity. Qed.

Lemma remove_key_mk (k : string) (l : list (string * option json)) :
  mem_str k (map fst l) = false -> remove_key k (mk_obj l) = mk_obj l.
Proof.
  unfold mem_str. induction l as [|[k' v] r IH]; cbn [map fst existsb mk_obj]; intros H; [reflexivity|].
  apply Bool.orb_false_iff in H as [H1 H2].
  destruct v as [j|]; [cbn [remove_key]; rewrite H1, (IH H2); reflexivity|exact (IH H2)].
Qed.

Lemma d_tagged_mk {A} (c : ctx) (tag : string) (vs : list (variant A)) (name : string)
      (l : list (string * option json)) (i : nat) (n' : string) (fs : fields) (build : row -> option A) :
  find_index (String.eqb name) (map fst vs) = Some i ->
  nth_error vs i = Some (n', (fs, build)) ->
  nodupb (map fst l) = true ->
  mem_str tag (map fst l) = false ->
  d_tagged c tag vs (JObj ((tag, JStr name) :: mk_obj l)) = build (map (fun f => get_mk (fst f) l) fs).
Proof.
  intros Hi Hn Hd Ht. unfold d_tagged. cbn [count_key assoc_j remove_key].
  rewrite String.eqb_refl. rewrite (proj2 (absent_mk tag l Ht)). cbn [Nat.eqb].
  cbn [d_tag]. rewrite Hi, Hn. cbn [fst snd].
  rewrite (remove_key_mk tag l Ht), (row_of_obj_mk fs l Hd). reflexivity.
Qed.

(* ---------- Option<T> ---------- *)
Lemma d_option_some {A} (d : dec A) (j : json) (x : A) :
  j <> JNull -> d j = Some x -> d_option d j = Some (Some x).
Proof. intros Hn Hd. unfold d_option. destruct j; try congruence; rewrite Hd; reflexivity. Qed.

(* skip_serializing_if = "Option::is_none" *)
Lemma opt_skip {A} (d : dec A) (e : A -> json) (v : option A) :
  (forall x, v = Some x -> e x <> JNull /\ d (e x) = Some x) -> opt d (option_map e v) = Some v.
Proof.
  intros H. destruct v as [x|]; cbn [option_map opt]; [|reflexivity].
  destruct (H x eq_refl) as [Hn Hd]. exact (d_option_some d (e x) x Hn Hd).
Qed.

(* Option serialised as null *)
Lemma opt_null {A} (d : dec A) (e : A -> json) (v : option A) :
  (forall x, v = Some x -> e x <> JNull /\ d (e x) = Some x) -> opt d (Some (e_option e v)) = Some v.
Proof.
  intros H. destruct v as [x|]; cbn [e_option opt]; [|reflexivity].
  destruct (H x eq_refl) as [Hn Hd]. exact (d_option_some d (e x) x Hn Hd).
Qed.

Lemma jstr_ok (s : string) : JStr s <> JNull /\ d_string (JStr s) = Some s.
Proof. split; [discriminate|reflexivity]. Qed.

Lemma d_strs (l : list string) : d_vec d_string (e_strs l) = Some l.
Proof. unfold d_vec, e_strs. apply map_opt_map. reflexivity. Qed.

Lemma d_u32_e (n : N) : repr_u32 n = true -> d_u32 (e_u32 n) = Some n.
Proof.
  unfold repr_u32, d_u32, e_u32, in_range, u32_maxZ. intros H. apply N.leb_le in H.
  replace (Z.leb 0 (Z.of_N n) && Z.leb (Z.of_N n) 4294967295)%bool with true.
  - rewrite N2Z.id. reflexivity.
  - symmetry. apply Bool.andb_true_iff. split; apply Z.leb_le; lia.
Qed.
