(* The boolean equalities used by the correspondences and by the per-run schema comparisons decide
   Leibniz equality: json_eqb, jschema_eqb, doc_eqb  (= true  ->  =). *)
From VV.SERDE Require Import Json SchemaOf.

Lemma list_eqb_eq {A} (f : A -> A -> bool) (Hf : forall x y, f x y = true -> x = y) (a b : list A) :
  list_eqb f a b = true -> a = b.
Proof.
  revert b. induction a as [|x r IH]; intros [|y s] H; cbn [list_eqb] in H; try discriminate H; [reflexivity|].
  apply Bool.andb_true_iff in H as [H1 H2]. f_equal; [exact (Hf _ _ H1)|exact (IH _ H2)].
Qed.
Lemma opt_eqb_with_eq {A} (f : A -> A -> bool) (Hf : forall x y, f x y = true -> x = y) (a b : option A) :
  opt_eqb_with f a b = true -> a = b.
Proof. destruct a, b; cbn; intros H; try discriminate H; [f_equal; exact (Hf _ _ H)|reflexivity]. Qed.
Lemma string_eqb_eq (x y : string) : String.eqb x y = true -> x = y.
Proof. apply String.eqb_eq. Qed.
Lemma z_eqb_eq (x y : Z) : Z.eqb x y = true -> x = y.
Proof. apply Z.eqb_eq. Qed.
Lemma jtype_eqb_eq (x y : jtype) : jtype_eqb x y = true -> x = y.
Proof. destruct x, y; cbn; intros H; try discriminate H; reflexivity. Qed.

Fixpoint json_eqb_eq (a b : json) {struct a} : json_eqb a b = true -> a = b.
Proof.
  destruct a as [|x|x|x|x|l|o], b as [|y|y|y|y|l'|o']; cbn [json_eqb]; intros H; try discriminate H.
  - reflexivity.
  - apply Bool.eqb_prop in H. subst. reflexivity.
  - apply Z.eqb_eq in H. subst. reflexivity.
  - apply String.eqb_eq in H. subst. reflexivity.
  - apply String.eqb_eq in H. subst. reflexivity.
  - f_equal. revert l' H.
    induction l as [|x r IH]; intros [|y s] H; try discriminate H; [reflexivity|].
    apply Bool.andb_true_iff in H as [H1 H2]. f_equal; [exact (json_eqb_eq x y H1)|exact (IH s H2)].
  - f_equal. revert o' H.
    induction o as [|[k x] r IH]; intros [|[k' y] s] H; try discriminate H; [reflexivity|].
    apply Bool.andb_true_iff in H as [H1 H3]. apply Bool.andb_true_iff in H1 as [H1 H2].
    apply String.eqb_eq in H1. subst k'. f_equal; [f_equal; exact (json_eqb_eq x y H2)|exact (IH s H3)].
Qed.

Fixpoint jschema_eqb_eq (a b : jschema) {struct a} : jschema_eqb a b = true -> a = b.
Proof.
  destruct a as [| |ty1 p1 r1 i1 ad1 an1 on1 en1 c1 rf1 m1 f1 d1], b as [| |ty2 p2 r2 i2 ad2 an2 on2 en2 c2 rf2 m2 f2 d2];
    cbn [jschema_eqb]; intros H; try discriminate H; try reflexivity.
  repeat (let X := fresh "E" in apply Bool.andb_true_iff in H as [H X]).
  f_equal.
  - exact (opt_eqb_with_eq _ (list_eqb_eq _ jtype_eqb_eq) _ _ H).
  - clear - E10 jschema_eqb_eq. revert p2 E10.
    induction p1 as [|[k s] r IH]; intros [|[k' s'] r'] Hx; try discriminate Hx; [reflexivity|].
    apply Bool.andb_true_iff in Hx as [H1 H3]. apply Bool.andb_true_iff in H1 as [H1 H2].
    apply String.eqb_eq in H1. subst k'. f_equal; [f_equal; exact (jschema_eqb_eq s s' H2)|exact (IH r' H3)].
  - exact (list_eqb_eq _ string_eqb_eq _ _ E9).
  - destruct i1 as [x|], i2 as [y|]; try discriminate E8; [f_equal; exact (jschema_eqb_eq x y E8)|reflexivity].
  - destruct ad1 as [x|], ad2 as [y|]; try discriminate E7; [f_equal; exact (jschema_eqb_eq x y E7)|reflexivity].
  - destruct an1 as [x|], an2 as [y|]; try discriminate E6; [|reflexivity]. f_equal.
    clear - E6 jschema_eqb_eq. revert y E6.
    induction x as [|s r IH]; intros [|s' r'] Hx; try discriminate Hx; [reflexivity|].
    apply Bool.andb_true_iff in Hx as [H1 H2]. f_equal; [exact (jschema_eqb_eq s s' H1)|exact (IH r' H2)].
  - destruct on1 as [x|], on2 as [y|]; try discriminate E5; [|reflexivity]. f_equal.
    clear - E5 jschema_eqb_eq. revert y E5.
    induction x as [|s r IH]; intros [|s' r'] Hx; try discriminate Hx; [reflexivity|].
    apply Bool.andb_true_iff in Hx as [H1 H2]. f_equal; [exact (jschema_eqb_eq s s' H1)|exact (IH r' H2)].
  - exact (opt_eqb_with_eq _ (list_eqb_eq _ json_eqb_eq) _ _ E4).
  - exact (opt_eqb_with_eq _ json_eqb_eq _ _ E3).
  - exact (opt_eqb_with_eq _ string_eqb_eq _ _ E2).
  - exact (opt_eqb_with_eq _ z_eqb_eq _ _ E1).
  - exact (opt_eqb_with_eq _ string_eqb_eq _ _ E0).
  - exact (opt_eqb_with_eq _ json_eqb_eq _ _ E).
Qed.

Lemma defs_eqb_eq (a b : defs) : defs_eqb a b = true -> a = b.
Proof.
  revert b. induction a as [|[k s] r IH]; intros [|[k' s'] r'] H; cbn [defs_eqb] in H; try discriminate H; [reflexivity|].
  apply Bool.andb_true_iff in H as [H1 H3]. apply Bool.andb_true_iff in H1 as [H1 H2].
  apply String.eqb_eq in H1. subst k'. f_equal; [f_equal; exact (jschema_eqb_eq _ _ H2)|exact (IH _ H3)].
Qed.

Theorem doc_eqb_eq (a b : schema_doc) : doc_eqb a b = true -> a = b.
Proof.
  destruct a as [ra da], b as [rb db]. unfold doc_eqb. cbn [sd_root sd_defs]. intros H.
  apply Bool.andb_true_iff in H as [H1 H2]. f_equal; [exact (jschema_eqb_eq _ _ H1)|exact (defs_eqb_eq _ _ H2)].
Qed.
