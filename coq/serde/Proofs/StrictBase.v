(* Inversion of the strict validator and the decoder-side facts about objects without repeated
   members: the generic half of decode_of_valid. *)
From VV.SERDE Require Import Serde SchemaOf SchemaStrict SerdeBase ValidBase.
From Coq Require Import Lia.

(* ---------- three-valued connectives, read backwards ---------- *)
Lemma and_o_true (a b : option bool) : and_o a b = Some true -> a = Some true /\ b = Some true.
Proof. destruct a as [[|]|], b as [[|]|]; cbn; intros H; try discriminate H; split; reflexivity. Qed.
Lemma or_o_true (a b : option bool) : or_o a b = Some true -> a = Some true \/ b = Some true.
Proof. destruct a as [[|]|], b as [[|]|]; cbn; intros H; try discriminate H; auto. Qed.
Lemma all_o_inv {A} (f : A -> option bool) (l : list A) :
  all_o f l = Some true -> forall x, In x l -> f x = Some true.
Proof.
  induction l as [|y r IH]; intros H x Hin; [destruct Hin|]. cbn [all_o] in H.
  apply and_o_true in H as [H1 H2]. destruct Hin as [<-|Hin]; [exact H1|exact (IH H2 x Hin)].
Qed.
Lemma any_o_inv {A} (f : A -> option bool) (l : list A) :
  any_o f l = Some true -> exists x, In x l /\ f x = Some true.
Proof.
  induction l as [|y r IH]; cbn [any_o]; intros H; [discriminate H|].
  apply or_o_true in H as [H|H]; [exists y; split; [left; reflexivity|exact H]|].
  destruct (IH H) as [x [Hin Hx]]. exists x. split; [right; exact Hin|exact Hx].
Qed.
Lemma count_o_pos {A} (f : A -> option bool) (l : list A) (n : nat) :
  count_o f l = Some (S n) -> exists x, In x l /\ f x = Some true.
Proof.
  revert n. induction l as [|y r IH]; intros n H; cbn [count_o] in H; [discriminate H|].
  destruct (f y) as [[|]|] eqn:E; [exists y; split; [left; reflexivity|exact E]| |discriminate H].
  destruct (count_o f r) as [k|]; [|discriminate H]. injection H as ->.
  destruct (IH n eq_refl) as [x [Hin Hx]]. exists x. split; [right; exact Hin|exact Hx].
Qed.

(* ---------- one level of the strict validator, read backwards ---------- *)
Section Inv.
  Variables (n : nat) (ds : defs) (ty : option (list jtype)) (props : list (string * jschema))
            (req : list string) (items addl : option jschema) (anyof oneof : option (list jschema))
            (enum : option (list json)) (const : option json) (ref : option string) (minimum : option Z)
            (fm : option string) (df : option json) (j : json).
  Hypothesis H : svalid_f (S n) ds (Sch ty props req items addl anyof oneof enum const ref minimum fm df) j = Some true.

  Lemma sv_inv :
    match ty with None => true | Some ts => existsb (fun t => has_type_s t j) ts end = true
    /\ match j with
       | JObj o =>
           forallb (fun r => match last_j r o with Some _ => true | None => false end) req = true
           /\ (forall ps, In ps props -> forall v, last_j (fst ps) o = Some v -> svalid_f n ds (snd ps) v = Some true)
           /\ match addl with
              | None => True
              | Some a => forall kv, In kv o -> existsb (fun ps => String.eqb (fst ps) (fst kv)) props = false ->
                                      forall v, last_j (fst kv) o = Some v -> svalid_f n ds a v = Some true
              end
       | JArr l => match items with None => True | Some it => forall x, In x l -> svalid_f n ds it x = Some true end
       | _ => True
       end
    /\ match anyof with None => True | Some l => exists a, In a l /\ svalid_f n ds a j = Some true end
    /\ match oneof with None => True | Some l => exists a, In a l /\ svalid_f n ds a j = Some true end
    /\ match enum with None => true | Some vs => existsb (json_eqb j) vs end = true
    /\ match const with None => true | Some v => json_eqb j v end = true
    /\ match ref with
       | None => True
       | Some name => exists k t, find (fun kv => String.eqb (fst kv) name) ds = Some (k, t) /\ svalid_f n ds t j = Some true
       end
    /\ match minimum with None => true | Some m => ge_min m j end = true
    /\ fmt_ok fm j = true.
  Proof.
    cbn [svalid_f] in H.
    apply and_o_true in H as [H1 H']. apply and_o_true in H' as [H2 H']. apply and_o_true in H' as [H3 H'].
    apply and_o_true in H' as [H4 H']. apply and_o_true in H' as [H5 H']. apply and_o_true in H' as [H6 H'].
    apply and_o_true in H' as [H7 H']. apply and_o_true in H' as [H8 H9].
    injection H1 as H1. injection H5 as H5. injection H6 as H6. injection H8 as H8. injection H9 as H9.
    repeat split; try assumption.
    - destruct j as [| | | | |l|o]; try exact I.
      + destruct items as [it|]; [|exact I]. exact (all_o_inv _ _ H2).
      + apply and_o_true in H2 as [Ha Hb]. apply and_o_true in Hb as [Hb Hc]. injection Ha as Ha.
        split; [exact Ha|]. split.
        * intros ps Hin v Hv. pose proof (all_o_inv _ _ Hb ps Hin) as Hx. cbn beta in Hx. rewrite Hv in Hx. exact Hx.
        * destruct addl as [a|]; [|exact I]. intros kv Hin He v Hv.
          pose proof (all_o_inv _ _ Hc kv Hin) as Hx. cbn beta in Hx. rewrite He, Hv in Hx. exact Hx.
    - destruct anyof as [l|]; [|exact I]. exact (any_o_inv _ _ H3).
    - destruct oneof as [l|]; [|exact I].
      destruct (count_o (fun a => svalid_f n ds a j) l) as [k|] eqn:C; [|discriminate H4].
      injection H4 as H4. apply Nat.eqb_eq in H4. subst k. exact (count_o_pos _ _ _ C).
    - destruct ref as [name|]; [|exact I].
      destruct (find (fun kv => String.eqb (fst kv) name) ds) as [[k t]|]; [|discriminate H7].
      exists k, t. split; [reflexivity|exact H7].
  Qed.
End Inv.

(* ---------- objects without repeated members ---------- *)
Lemma nodupb_NoDup (l : list string) : nodupb l = true -> NoDup l.
Proof.
  induction l as [|x r IH]; cbn [nodupb]; intros H; [constructor|].
  apply Bool.andb_true_iff in H as [H1 H2]. apply Bool.negb_true_iff in H1.
  constructor; [exact (mem_str_false_in _ _ H1)|exact (IH H2)].
Qed.

Lemma nodup_doc_obj (o : obj) :
  nodup_doc (JObj o) = true -> NoDup (map fst o) /\ forall k v, In (k, v) o -> nodup_doc v = true.
Proof.
  cbn [nodup_doc]. intros H. apply Bool.andb_true_iff in H as [H1 H2]. split; [exact (nodupb_NoDup _ H1)|].
  clear H1. induction o as [|[k' v'] r IH]; intros k v Hin; [destruct Hin|].
  apply Bool.andb_true_iff in H2 as [Ha Hb]. destruct Hin as [E|Hin]; [injection E as <- <-; exact Ha|exact (IH Hb k v Hin)].
Qed.
Lemma nodup_doc_arr (l : list json) : nodup_doc (JArr l) = true -> forall x, In x l -> nodup_doc x = true.
Proof.
  cbn [nodup_doc]. induction l as [|y r IH]; intros H x Hin; [destruct Hin|].
  apply Bool.andb_true_iff in H as [Ha Hb]. destruct Hin as [<-|Hin]; [exact Ha|exact (IH Hb x Hin)].
Qed.

Lemma assoc_in (k : string) (o : obj) (v : json) : assoc_j k o = Some v -> In (k, v) o.
Proof.
  induction o as [|[k' v'] r IH]; cbn [assoc_j]; intros H; [discriminate H|].
  destruct (String.eqb k k') eqn:E; [apply String.eqb_eq in E; subst k'; injection H as <-; left; reflexivity|right; exact (IH H)].
Qed.
Lemma last_in (k : string) (o : obj) (v : json) : last_j k o = Some v -> In (k, v) o.
Proof. intros H. apply in_rev. exact (assoc_in _ _ _ H). Qed.
Lemma last_assoc (k : string) (o : obj) : NoDup (map fst o) -> assoc_j k o = last_j k o.
Proof. intros H. unfold last_j. symmetry. exact (assoc_rev k o H). Qed.

Lemma count_key_notin (k : string) (o : obj) : ~ In k (map fst o) -> count_key k o = O.
Proof.
  induction o as [|[k' v] r IH]; cbn [map fst count_key]; intros H; [reflexivity|].
  destruct (String.eqb k k') eqn:E; [apply String.eqb_eq in E; subst; exfalso; apply H; left; reflexivity|].
  apply IH. intros Hin. apply H. right. exact Hin.
Qed.
Lemma count_key_nodup (k : string) (o : obj) :
  NoDup (map fst o) -> count_key k o = match assoc_j k o with Some _ => 1%nat | None => O end.
Proof.
  induction o as [|[k' v] r IH]; cbn [map fst count_key assoc_j]; intros H; [reflexivity|].
  inversion H as [|x l Hn Hd]; subst. destruct (String.eqb k k') eqn:E.
  - apply String.eqb_eq in E; subst k'. rewrite (count_key_notin k r Hn). reflexivity.
  - exact (IH Hd).
Qed.
Lemma dup_known_nodup (fs : list string) (o : obj) : NoDup (map fst o) -> dup_known fs o = false.
Proof.
  intros H. unfold dup_known. induction fs as [|f r IH]; cbn [existsb]; [reflexivity|].
  rewrite IH, (count_key_nodup f o H). destruct (assoc_j f o); reflexivity.
Qed.
Lemma row_of_obj_nodup (fs : fields) (o : obj) :
  NoDup (map fst o) -> row_of_obj fs o = Some (map (fun f => last_j (fst f) o) fs).
Proof.
  intros H. unfold row_of_obj. rewrite (dup_known_nodup _ o H). f_equal.
  apply map_ext. intros f. exact (last_assoc _ o H).
Qed.
Lemma d_struct_obj {A} (fs : fields) (build : row -> option A) (o : obj) :
  NoDup (map fst o) -> d_struct fs build (JObj o) = build (map (fun f => last_j (fst f) o) fs).
Proof. intros H. unfold d_struct. rewrite (row_of_obj_nodup fs o H). reflexivity. Qed.

Lemma remove_key_keys (k x : string) (o : obj) : In x (map fst (remove_key k o)) -> In x (map fst o).
Proof.
  induction o as [|[k' v] r IH]; cbn [remove_key map fst]; intros H; [exact H|].
  destruct (String.eqb k k'); [right; exact (IH H)|].
  destruct H as [H|H]; [left; exact H|right; exact (IH H)].
Qed.
Lemma remove_key_nodup (k : string) (o : obj) : NoDup (map fst o) -> NoDup (map fst (remove_key k o)).
Proof.
  induction o as [|[k' v] r IH]; cbn [remove_key map fst]; intros H; [constructor|].
  inversion H as [|x l Hn Hd]; subst. destruct (String.eqb k k'); [exact (IH Hd)|].
  cbn [map fst]. constructor; [|exact (IH Hd)]. intros Hin. exact (Hn (remove_key_keys k k' r Hin)).
Qed.
Lemma remove_key_assoc (k x : string) (o : obj) :
  String.eqb x k = false -> assoc_j x (remove_key k o) = assoc_j x o.
Proof.
  intros E. induction o as [|[k' v] r IH]; cbn [remove_key assoc_j]; [reflexivity|].
  destruct (String.eqb k k') eqn:E2.
  - apply String.eqb_eq in E2; subst k'. rewrite E. exact IH.
  - cbn [assoc_j]. rewrite IH. reflexivity.
Qed.

Lemma d_tagged_obj {A} (c : ctx) (tag : string) (vs : list (variant A)) (o : obj) (name : string)
      (i : nat) (n' : string) (fs : fields) (build : row -> option A) :
  NoDup (map fst o) ->
  last_j tag o = Some (JStr name) ->
  find_index (String.eqb name) (map fst vs) = Some i ->
  nth_error vs i = Some (n', (fs, build)) ->
  forallb (fun f => negb (String.eqb (fst f) tag)) fs = true ->
  d_tagged c tag vs (JObj o) = build (map (fun f => last_j (fst f) o) fs).
Proof.
  intros Hd Ht Hi Hn Hfs. unfold d_tagged.
  rewrite <- (last_assoc tag o Hd) in Ht.
  rewrite (count_key_nodup tag o Hd), Ht. cbn [Nat.eqb d_tag]. rewrite Hi, Hn. cbn [fst snd].
  unfold row_of_obj. rewrite (dup_known_nodup _ _ (remove_key_nodup tag o Hd)).
  f_equal. apply map_ext_in. intros f Hin.
  rewrite forallb_forall in Hfs. specialize (Hfs f Hin). apply Bool.negb_true_iff in Hfs.
  rewrite (remove_key_assoc tag (fst f) o Hfs). exact (last_assoc _ o Hd).
Qed.

(* ---------- leaves ---------- *)
Lemma json_eqb_str (j : json) (s : string) : json_eqb j (JStr s) = true -> j = JStr s.
Proof. destruct j; cbn; intros H; try discriminate H. apply String.eqb_eq in H. subst. reflexivity. Qed.

Lemma enum_strs (j : json) (names : list string) :
  existsb (json_eqb j) (map JStr names) = true -> exists s, j = JStr s /\ In s names.
Proof.
  induction names as [|x r IH]; cbn [map existsb]; intros H; [discriminate H|].
  apply Bool.orb_true_iff in H as [H|H].
  - exists x. split; [exact (json_eqb_str _ _ H)|left; reflexivity].
  - destruct (IH H) as [s [E Hin]]. exists s. split; [exact E|right; exact Hin].
Qed.

Lemma lookup_name_in {A} (name : A -> string) (all : list A) (s : string) :
  In s (map name all) -> exists v, lookup_name s (map (fun x => (name x, x)) all) = Some v.
Proof.
  induction all as [|x r IH]; cbn [map In lookup_name]; intros H; [destruct H|].
  destruct (String.eqb s (name x)) eqn:E; [eexists; reflexivity|].
  destruct H as [H|H]; [subst s; rewrite String.eqb_refl in E; discriminate E|exact (IH H)].
Qed.

Lemma map_opt_all {A B} (d : A -> option B) (l : list A) :
  (forall x, In x l -> exists y, d x = Some y) -> exists ys, map_opt d l = Some ys.
Proof.
  induction l as [|x r IH]; intros H; cbn [map_opt]; [eexists; reflexivity|].
  destruct (H x (or_introl eq_refl)) as [y ->].
  destruct IH as [ys ->]; [intros z Hz; apply H; right; exact Hz|]. eexists. reflexivity.
Qed.
