(* decode (encode v) = Some v for every vespertide-core document type, for all values in the image
   (the im_ predicates), by structural induction; no size bound. *)
From VV.SERDE Require Import Serde Config SerdeBase.
From Coq Require Import Lia.

Ltac rowc := cbn [map get_mk fst snd String.eqb Ascii.eqb Bool.eqb andb req dflt d_string d_bool].

(* ---------- unit-variant enums ---------- *)
Lemma d_simple_e (s : simple_type) : d_simple (e_simple s) = Some s.
Proof. destruct s; reflexivity. Qed.
Lemma d_ref_action_e (a : ref_action) : d_ref_action (e_ref_action a) = Some a.
Proof. destruct a; reflexivity. Qed.
Lemma d_ref_action_owned_e (a : ref_action) : d_ref_action_owned (e_ref_action a) = Some a.
Proof. destruct a; reflexivity. Qed.
Lemma ref_action_ok (a : ref_action) : e_ref_action a <> JNull /\ d_ref_action (e_ref_action a) = Some a.
Proof. split; [discriminate|apply d_ref_action_e]. Qed.
Lemma ref_action_owned_ok (a : ref_action) :
  e_ref_action a <> JNull /\ d_ref_action_owned (e_ref_action a) = Some a.
Proof. split; [discriminate|apply d_ref_action_owned_e]. Qed.

(* ---------- NumValue / EnumValues ---------- *)
Lemma d_num_e (n : num_value) : im_num n = true -> d_num (e_num n) = Some n.
Proof.
  intros H. unfold d_num, e_num. rewrite d_struct_mk by reflexivity.
  rowc. cbn [num_fields b_num map get_mk fst String.eqb Ascii.eqb Bool.eqb andb req d_string d_i32].
  unfold im_num in H. rewrite H. destruct n; reflexivity.
Qed.

Lemma d_ev_e (v : enum_values) : im_ev v = true -> d_ev (e_ev v) = Some v.
Proof.
  destruct v as [l|l]; intros H; unfold d_ev, e_ev; cbn [first_some].
  - rewrite d_strs. reflexivity.
  - destruct l as [|x r]; [discriminate H|].
    cbn [im_ev] in H.
    assert (E1 : d_vec d_string (JArr (map e_num (x :: r))) = None) by reflexivity.
    rewrite E1. cbn [option_map].
    unfold d_vec. rewrite (map_opt_map_b im_num d_num e_num (x :: r) H d_num_e). reflexivity.
Qed.

(* ---------- ColumnType ---------- *)
Lemma d_ctype_e (t : column_type) : im_ctype t = true -> d_ctype (e_ctype t) = Some t.
Proof.
  destruct t as [s|n|p s|n|c|n v]; intros H; unfold d_ctype; cbn [first_some e_ctype].
  - rewrite d_simple_e. reflexivity.
  - assert (E : d_simple (JObj (("kind", JStr "varchar") :: mk_obj [("length", Some (e_u32 n))])) = None) by reflexivity.
    rewrite E. cbn [option_map]. unfold d_complex.
    erewrite d_tagged_mk; [|reflexivity|reflexivity|reflexivity|reflexivity].
    rowc. cbn [im_ctype] in H. rewrite (d_u32_e n H). reflexivity.
  - assert (E : d_simple (JObj (("kind", JStr "numeric") :: mk_obj [("precision", Some (e_u32 p)); ("scale", Some (e_u32 s))])) = None) by reflexivity.
    rewrite E. cbn [option_map]. unfold d_complex.
    erewrite d_tagged_mk; [|reflexivity|reflexivity|reflexivity|reflexivity].
    rowc. cbn [im_ctype] in H. apply Bool.andb_true_iff in H as [Hp Hs].
    rewrite (d_u32_e p Hp), (d_u32_e s Hs). reflexivity.
  - assert (E : d_simple (JObj (("kind", JStr "char") :: mk_obj [("length", Some (e_u32 n))])) = None) by reflexivity.
    rewrite E. cbn [option_map]. unfold d_complex.
    erewrite d_tagged_mk; [|reflexivity|reflexivity|reflexivity|reflexivity].
    rowc. cbn [im_ctype] in H. rewrite (d_u32_e n H). reflexivity.
  - assert (E : d_simple (JObj (("kind", JStr "custom") :: mk_obj [("custom_type", Some (JStr c))])) = None) by reflexivity.
    rewrite E. cbn [option_map]. unfold d_complex.
    erewrite d_tagged_mk; [|reflexivity|reflexivity|reflexivity|reflexivity].
    rowc. reflexivity.
  - assert (E : d_simple (JObj (("kind", JStr "enum") :: mk_obj [("name", Some (JStr n)); ("values", Some (e_ev v))])) = None) by reflexivity.
    rewrite E. cbn [option_map]. unfold d_complex.
    erewrite d_tagged_mk; [|reflexivity|reflexivity|reflexivity|reflexivity].
    rowc. cbn [im_ctype] in H. rewrite (d_ev_e v H). reflexivity.
Qed.

(* ---------- DefaultValue ---------- *)
Lemma default_ok (d : default_value) :
  im_default d = true -> e_default d <> JNull /\ d_default (e_default d) = Some d.
Proof.
  destruct d as [b|z|r|s]; cbn [im_default e_default]; intros H.
  - split; [discriminate|reflexivity].
  - split; [discriminate|]. unfold d_default. cbn [first_some d_bool option_map d_i64]. rewrite H. reflexivity.
  - apply Bool.negb_true_iff in H. rewrite H. split; [discriminate|reflexivity].
  - split; [discriminate|reflexivity].
Qed.

(* ---------- PrimaryKeySyntax / StrOrBoolOrArray / ForeignKeySyntax ---------- *)
Lemma pk_ok (p : pk_syntax) : e_pk p <> JNull /\ d_pk (e_pk p) = Some p.
Proof.
  destruct p as [b|a]; (split; [discriminate|]).
  - reflexivity.
  - unfold d_pk, e_pk. cbn [first_some d_bool option_map].
    rewrite d_struct_mk by reflexivity. reflexivity.
Qed.

Lemma sba_ok (s : str_or_bool_or_array) : e_sba s <> JNull /\ d_sba (e_sba s) = Some s.
Proof.
  destruct s as [s|l|b]; (split; [discriminate|]).
  - reflexivity.
  - unfold d_sba, e_sba. cbn [first_some]. 
    assert (E : d_string (e_strs l) = None) by reflexivity. rewrite E. cbn [option_map].
    rewrite d_strs. reflexivity.
  - reflexivity.
Qed.

Lemma fk_ok (f : fk_syntax) : e_fk f <> JNull /\ d_fk (e_fk f) = Some f.
Proof.
  destruct f as [s|a d u|t c d u]; (split; [discriminate|]).
  - reflexivity.
  - unfold d_fk, e_fk. cbn [first_some d_string option_map].
    rewrite d_struct_mk by reflexivity.
    rowc. cbn [fkref_fields b_fkref map get_mk fst String.eqb Ascii.eqb Bool.eqb andb req d_string].
    rewrite (opt_skip d_ref_action e_ref_action d) by (intros; apply ref_action_ok).
    rewrite (opt_skip d_ref_action e_ref_action u) by (intros; apply ref_action_ok).
    reflexivity.
  - unfold d_fk, e_fk. cbn [first_some d_string option_map].
    rewrite (d_struct_mk fkref_fields) by reflexivity.
    cbn [fkref_fields b_fkref map get_mk fst String.eqb Ascii.eqb Bool.eqb andb req].
    rewrite d_struct_mk by reflexivity.
    cbn [fkobj_fields b_fkobj map get_mk fst String.eqb Ascii.eqb Bool.eqb andb req d_string].
    rewrite d_strs.
    rewrite (opt_null d_ref_action e_ref_action d) by (intros; apply ref_action_ok).
    rewrite (opt_null d_ref_action e_ref_action u) by (intros; apply ref_action_ok).
    reflexivity.
Qed.

(* ---------- ColumnDef ---------- *)
Lemma column_ok (c : column_def) : im_column c = true -> d_column (e_column c) = Some c.
Proof.
  intros H. unfold im_column in H. apply Bool.andb_true_iff in H as [Ht Hd].
  unfold d_column, e_column. rewrite d_struct_mk by reflexivity.
  cbn [column_fields b_column map get_mk fst String.eqb Ascii.eqb Bool.eqb andb req d_string d_bool].
  rewrite (d_ctype_e _ Ht).
  rewrite (opt_skip d_default e_default (c_default c)).
  2:{ intros x E. apply default_ok. rewrite E in Hd. exact Hd. }
  rewrite (opt_skip d_string JStr (c_comment c)) by (intros; apply jstr_ok).
  rewrite (opt_skip d_pk e_pk (c_primary_key c)) by (intros; apply pk_ok).
  rewrite (opt_skip d_sba e_sba (c_unique c)) by (intros; apply sba_ok).
  rewrite (opt_skip d_sba e_sba (c_index c)) by (intros; apply sba_ok).
  rewrite (opt_skip d_fk e_fk (c_foreign_key c)) by (intros; apply fk_ok).
  destruct c; reflexivity.
Qed.

Lemma columns_ok (l : list column_def) :
  forallb im_column l = true -> d_vec d_column (JArr (map e_column l)) = Some l.
Proof. intros H. unfold d_vec. exact (map_opt_map_b im_column d_column e_column l H column_ok). Qed.

(* ---------- TableConstraint ---------- *)
Lemma constraint_ok (c : ctx) (k : table_constraint) : d_constraint c (e_constraint k) = Some k.
Proof.
  destruct k as [a cols|n cols|n cols t rc d u|n e|n cols]; unfold d_constraint, e_constraint;
    (erewrite d_tagged_mk; [|reflexivity|reflexivity|reflexivity|reflexivity]);
    cbn [map get_mk fst String.eqb Ascii.eqb Bool.eqb andb req dflt d_string d_bool];
    rewrite ?d_strs.
  - reflexivity.
  - rewrite (opt_skip d_string JStr n) by (intros; apply jstr_ok). reflexivity.
  - rewrite (opt_skip d_string JStr n) by (intros; apply jstr_ok).
    rewrite (opt_null d_ref_action_owned e_ref_action d) by (intros; apply ref_action_owned_ok).
    rewrite (opt_null d_ref_action_owned e_ref_action u) by (intros; apply ref_action_owned_ok).
    reflexivity.
  - reflexivity.
  - rewrite (opt_skip d_string JStr n) by (intros; apply jstr_ok). reflexivity.
Qed.

Lemma constraints_ok (c : ctx) (l : list table_constraint) :
  d_vec (d_constraint c) (JArr (map e_constraint l)) = Some l.
Proof. unfold d_vec. apply map_opt_map. intros; apply constraint_ok. Qed.

(* ---------- TableDef ---------- *)
Theorem decode_encode_table (t : table_def) : im_table t = true -> decode_table (encode_table t) = Some t.
Proof.
  intros H. unfold decode_table, encode_table. rewrite d_struct_mk by reflexivity.
  cbn [table_fields b_table map get_mk fst String.eqb Ascii.eqb Bool.eqb andb req d_string].
  rewrite (opt_skip d_string JStr (t_description t)) by (intros; apply jstr_ok).
  rewrite (columns_ok _ H).
  destruct t as [n d cols ks]; cbn [t_constraints t_name t_description t_columns].
  destruct ks as [|k ks]; cbn [dflt]; [reflexivity|].
  change (e_constraint k :: map e_constraint ks) with (map e_constraint (k :: ks)).
  rewrite (constraints_ok FromText (k :: ks)). reflexivity.
Qed.

(* ---------- BTreeMap<String,String> ---------- *)
Lemma map_ok (m : list (string * string)) : im_map m = true -> e_map m <> JNull /\ d_option d_map (e_map m) = Some (Some m).
Proof.
  intros H. split; [discriminate|].
  apply d_option_some; [discriminate|]. unfold d_map, e_map.
  assert (E : map_opt (fun kv : string * json => v <- d_string (snd kv);; Some (fst kv, v))
                      (map (fun kv : string * string => (fst kv, JStr (snd kv))) m) = Some m).
  { apply map_opt_map. intros [k v] _. reflexivity. }
  rewrite E. unfold im_map, dec_b in H.
  destruct (list_eq_dec (pair_eq_dec string_dec string_dec) (bt_of_list m) m) as [Eq|]; [|discriminate].
  rewrite Eq. reflexivity.
Qed.

(* ---------- MigrationAction ---------- *)
Lemma action_ok (c : ctx) (a : action) : im_action a = true -> d_action c (e_action a) = Some a.
Proof.
  destruct a as [t cols ks|t|t col f|t x y|t x|t x ty f|t x n f|t x d|t x d|t k|t k|x y|s];
    intros H; unfold d_action, e_action, tagged;
    (erewrite d_tagged_mk; [|reflexivity|reflexivity|reflexivity|reflexivity]);
    cbn [map get_mk fst snd s2 String.eqb Ascii.eqb Bool.eqb andb req dflt d_string d_bool];
    cbn [im_action] in H.
  - rewrite (columns_ok _ H), (constraints_ok FromContent ks). reflexivity.
  - reflexivity.
  - rewrite (column_ok _ H).
    rewrite (opt_null d_string JStr f) by (intros; apply jstr_ok). reflexivity.
  - reflexivity.
  - reflexivity.
  - apply Bool.andb_true_iff in H as [Ht Hf]. rewrite (d_ctype_e _ Ht).
    destruct f as [m|]; cbn [option_map dflt]; [|reflexivity].
    cbn [im_opt] in Hf. rewrite (proj2 (map_ok m Hf)). reflexivity.
  - rewrite (opt_null d_string JStr f) by (intros; apply jstr_ok). reflexivity.
  - rewrite (opt_null d_string JStr d) by (intros; apply jstr_ok). reflexivity.
  - rewrite (opt_null d_string JStr d) by (intros; apply jstr_ok). reflexivity.
  - rewrite (constraint_ok FromContent k). reflexivity.
  - rewrite (constraint_ok FromContent k). reflexivity.
  - reflexivity.
  - reflexivity.
Qed.

(* ---------- MigrationPlan ---------- *)
Theorem decode_encode_plan (p : plan) : im_plan p = true -> decode_plan (encode_plan p) = Some p.
Proof.
  intros H. unfold im_plan in H. apply Bool.andb_true_iff in H as [Hv Ha].
  unfold decode_plan, encode_plan. rewrite d_struct_mk by reflexivity.
  cbn [plan_fields b_plan map get_mk fst String.eqb Ascii.eqb Bool.eqb andb req dflt d_string].
  rewrite (opt_null d_string JStr (p_comment p)) by (intros; apply jstr_ok).
  assert (Ec : d_option d_string (e_option JStr (p_created_at p)) = Some (p_created_at p)).
  { destruct (p_created_at p); reflexivity. }
  rewrite Ec, (d_u32_e _ Hv).
  unfold d_vec. rewrite (map_opt_map_b im_action (d_action FromText) e_action _ Ha (action_ok FromText)).
  destruct p; reflexivity.
Qed.

(* what `vespertide revision` puts on disk: keys in any order and an extra "$schema" member.
   Here: "$schema" added in front of / behind the struct-order encoding (the sorted-key form that
   serde_json::to_value produces is covered by the K-serde correspondence, sub-checks 3 and 4). *)
Theorem decode_encode_plan_with_schema (p : plan) (url : json) :
  im_plan p = true ->
  match encode_plan p with
  | JObj o => decode_plan (JObj (("$schema", url) :: o)) = Some p /\ decode_plan (JObj (o ++ [("$schema", url)])) = Some p
  | _ => False
  end.
Proof.
  intros H. pose proof (decode_encode_plan p H) as D. unfold encode_plan in *.
  set (l := [("id", Some (JStr (p_id p))); ("comment", Some (e_option JStr (p_comment p)));
             ("created_at", Some (e_option JStr (p_created_at p))); ("version", Some (e_u32 (p_version p)));
             ("actions", Some (JArr (map e_action (p_actions p))))]) in *.
  split.
  - change (("$schema", url) :: mk_obj l) with (mk_obj (("$schema", Some url) :: l)).
    unfold decode_plan in *. rewrite d_struct_mk in * by reflexivity. exact D.
  - replace (mk_obj l ++ [("$schema", url)]) with (mk_obj (l ++ [("$schema", Some url)])) by reflexivity.
    unfold decode_plan in *. rewrite d_struct_mk in * by reflexivity. exact D.
Qed.

(* ---------- VespertideConfig ---------- *)
Lemma d_name_case_e (n : name_case) : d_name_case (e_name_case n) = Some n.
Proof. destruct n; reflexivity. Qed.
Lemma d_file_format_e (f : file_format) : d_file_format (e_file_format f) = Some f.
Proof. destruct f; reflexivity. Qed.
Lemma d_seaorm_e (s : seaorm_config) : d_seaorm (e_seaorm s) = Some s.
Proof.
  unfold d_seaorm, e_seaorm. rewrite d_struct_mk by reflexivity.
  cbn [seaorm_fields b_seaorm map get_mk fst String.eqb Ascii.eqb Bool.eqb andb dflt d_bool].
  rewrite !d_strs, d_name_case_e. destruct s; reflexivity.
Qed.
Theorem decode_encode_config (c : vconfig) : decode_config (encode_config c) = Some c.
Proof.
  unfold decode_config, encode_config. rewrite d_struct_mk by reflexivity.
  cbn [config_fields b_config map get_mk fst String.eqb Ascii.eqb Bool.eqb andb req dflt d_string].
  rewrite !d_name_case_e, !d_file_format_e, d_seaorm_e. destruct c; reflexivity.
Qed.

(* ---------- the non-injective spots, each with a witness ---------- *)
Definition w_col (t : column_type) (d : option default_value) : column_def :=
  mkCol "c" t true d None None None None None.

(* EnumValues::Integer(vec![]) is written as [] and read back as String(vec![]) *)
Lemma enum_empty_refuted :
  exists t, im_table t = false /\ exists t', decode_table (encode_table t) = Some t' /\ t' <> t.
Proof.
  exists (mkTable "w_empty_int_enum" None [w_col (TEnum "e" (EVInteger [])) None] []).
  split; [reflexivity|]. eexists. split; [vm_compute; reflexivity|discriminate].
Qed.

(* a non-finite DefaultValue::Float is written as null and read back as no default at all *)
Lemma float_nonfinite_refuted :
  exists t, im_table t = false /\ exists t', decode_table (encode_table t) = Some t' /\ t' <> t.
Proof.
  exists (mkTable "w_nan" None [w_col (TSimple Real) (Some (DFloat "NaN"))] []).
  split; [reflexivity|]. eexists. split; [vm_compute; reflexivity|discriminate].
Qed.

(* candidates that turn out to round-trip: a float whose rendering is integral, a string that
   spells a boolean, an empty string enum *)
Lemma float_integral_roundtrips :
  let t := mkTable "w" None [w_col (TSimple Real) (Some (DFloat "1"))] [] in
  decode_table (encode_table t) = Some t.
Proof. vm_compute. reflexivity. Qed.
Lemma string_true_roundtrips :
  let t := mkTable "w" None [w_col (TSimple Text) (Some (DStr "true"))] [] in
  decode_table (encode_table t) = Some t.
Proof. vm_compute. reflexivity. Qed.

(* outside the representable range a Gallina term denotes no Rust value, and indeed does not decode *)
Lemma out_of_range_refuted :
  exists p, im_plan p = false /\ decode_plan (encode_plan p) = None.
Proof. exists (mkPlan "" None None 4294967296 []). split; vm_compute; reflexivity. Qed.
