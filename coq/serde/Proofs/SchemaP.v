(* C15: facts about the schema_of terms and the fuelled validator. *)
From VV.SERDE Require Import Serde Config CorrSchema SchemaOfTypes.

(* `bounded` (DESIGN C15) is what a schemars schema cannot say: integers fit their Rust width
   (format: uint32 is an annotation).  Outside it schema-valid documents are rejected by the parser: *)
Definition w_varchar_too_long : json :=
  JObj [("name", JStr "t");
        ("columns", JArr [JObj [("name", JStr "c");
                                ("type", JObj [("kind", JStr "varchar"); ("length", JInt 4294967296)]);
                                ("nullable", JBool true)]])].
Lemma decode_of_valid_refuted :
  exists j, valid schema_of_model j = Some true /\ decode_table j = None /\ known_C15_unbounded DTable j = true.
Proof. exists w_varchar_too_long. repeat split; vm_compute; reflexivity. Qed.

(* an integral float is an "integer" for JSON Schema and not for serde *)
Definition w_float_version : json := JObj [("version", JFloat "1"); ("actions", JArr [])].
Lemma decode_of_valid_float_refuted :
  exists j, valid schema_of_migration j = Some true /\ decode_plan j = None /\ known_C15_unbounded DPlan j = true.
Proof. exists w_float_version. repeat split; vm_compute; reflexivity. Qed.

(* the documents the serialisers produce validate: checked here on a value that touches every
   definition of the migration schema; for arbitrary values this is evaluated per generated case on
   every run (K-schema), not proved *)
Definition ex_plan : plan :=
  let c := mkCol "st" (TEnum "status" (EVInteger [mkNum "a" 1])) false (Some (DFloat "1.5")) (Some "c")
                 (Some (PKObj true)) (Some (SArr ["a"])) (Some (SBool true)) (Some (FKRef "u.id" (Some Cascade) None)) in
  let c2 := mkCol "x" (TVarchar 5) true (Some (DInt 3)) None (Some (PKBool false)) (Some (SStr "k")) None
                  (Some (FKObj "u" ["id"] None (Some SetNull))) in
  mkPlan "id" None (Some "2026-01-01T00:00:00Z") 4294967295
    [CreateTable "t" [c; c2; mkCol "y" (TSimple Uuid) true (Some (DBool true)) None None None None (Some (FKStr "u.id"))]
       [CPrimaryKey true ["st"]; CUnique (Some "u") ["x"]; CForeignKey None ["a"] "u" ["id"] None (Some SetNull);
        CCheck "k" "x > 0"; CIndex None ["x"]];
     DeleteTable "t"; AddColumn "t" c (Some "1"); RenameColumn "t" "a" "b"; DeleteColumn "t" "a";
     ModifyColumnType "t" "c" (TNumeric 10 2) (Some [("a", "b"); ("c", "d")]);
     ModifyColumnType "t" "c" (TEnum "e" (EVString ["a"; "b"])) None;
     ModifyColumnNullable "t" "c" false (Some "0"); ModifyColumnDefault "t" "c" None;
     ModifyColumnComment "t" "c" (Some "x"); AddConstraint "t" (CIndex (Some "i") ["a"]);
     RemoveConstraint "t" (CUnique None ["a"]); RenameTable "a" "b"; RawSql "select 1";
     ModifyColumnType "t" "c" (TChar 1) None; ModifyColumnType "t" "c" (TCustom "geo") None].
Lemma valid_encode_example :
  im_plan ex_plan = true /\ valid schema_of_migration (encode_plan ex_plan) = Some true
  /\ valid schema_of_migration (file_form schema_url (encode_plan ex_plan)) = Some true.
Proof. repeat split; vm_compute; reflexivity. Qed.
Lemma valid_encode_config_default :
  valid schema_of_config (encode_config default_config) = Some true
  /\ decode_config (JObj [("modelsDir", JStr "m"); ("migrationsDir", JStr "g"); ("tableNamingCase", JStr "snake");
                          ("columnNamingCase", JStr "snake")])
     = Some (mkConfig "m" "g" NCSnake NCSnake FFJson FFJson "%04v_%m" "src/models" default_seaorm "").
Proof. split; vm_compute; reflexivity. Qed.
