(* C15: facts about the schema_of terms and the fuelled validator. *)
From VV.SERDE Require Import Serde Config CorrSchema SchemaOfTypes SchemaStrict.

(* `bounded` (DESIGN C15) is what a schemars schema cannot say: integers fit their Rust width
   (format: uint32 is an annotation).  Outside it schema-valid documents are rejected by the parser: *)
Definition w_varchar_too_long : json :=
  JObj [("name", JStr "t");
        ("columns", JArr [JObj [("name", JStr "c");
                                ("type", JObj [("kind", JStr "varchar"); ("length", JInt 4294967296)]);
                                ("nullable", JBool true)]])].
Lemma decode_of_valid_refuted :
  exists j, valid schema_of_model j = Some true /\ decode_table j = None /\ known_C15_unbounded DTable j = true
            /\ nodup_doc j = true /\ svalid schema_of_model j = Some false.
Proof. exists w_varchar_too_long. repeat split; vm_compute; reflexivity. Qed.

(* an integral float is an "integer" for JSON Schema and not for serde *)
Definition w_float_version : json := JObj [("version", JFloat "1"); ("actions", JArr [])].
Lemma decode_of_valid_float_refuted :
  exists j, valid schema_of_migration j = Some true /\ decode_plan j = None /\ known_C15_unbounded DPlan j = true
            /\ nodup_doc j = true /\ svalid schema_of_migration j = Some false.
Proof. exists w_float_version. repeat split; vm_compute; reflexivity. Qed.

(* the documents the serialisers produce validate: checked here on a value that touches every
   definition of the migration schema; for arbitrary values this is evaluated per generated case on
   every run (K-schema), not proved *)
Definition ex_plan : plan :=
  let c := mkCol "st" (TEnum "status" (EVInteger [mkNum "a" 1])) false (Some (DFloat "1.5")) (Some "c")
                 (Some (PKObj true)) (Some (SArr ["a"])) (Some (SBool true)) (Some (FKRef "u.id" (Some Cascade) None)) in
  let c2 := mkCol "x" (TVarchar 5) true (Some (DInt 3)) None (Some (PKBool false)) (Some (SStr "k")) None
                  (Some (FKObj "u" ["id"] None (Some SetNull))) in
  mkPlan "id" None (Some "2026-01-01T00:00:00Z") 4294967295
    [CreateTable "t" [c; c2; mkCol "y" (TSimple Uuid) true (Some (DBool true)) None None None None (Some (FKStr "u.id"))]
       [CPrimaryKey true ["st"]; CUnique (Some "u") ["x"]; CForeignKey None ["a"] "u" ["id"] None (Some SetNull);
        CCheck "k" "x > 0"; CIndex None ["x"]];
     DeleteTable "t"; AddColumn "t" c (Some "1"); RenameColumn "t" "a" "b"; DeleteColumn "t" "a";
     ModifyColumnType "t" "c" (TNumeric 10 2) (Some [("a", "b"); ("c", "d")]);
     ModifyColumnType "t" "c" (TEnum "e" (EVString ["a"; "b"])) None;
     ModifyColumnNullable "t" "c" false (Some "0"); ModifyColumnDefault "t" "c" None;
     ModifyColumnComment "t" "c" (Some "x"); AddConstraint "t" (CIndex (Some "i") ["a"]);
     RemoveConstraint "t" (CUnique None ["a"]); RenameTable "a" "b"; RawSql "select 1";
     ModifyColumnType "t" "c" (TChar 1) None; ModifyColumnType "t" "c" (TCustom "geo") None].
Lemma valid_encode_example :
  im_plan ex_plan = true /\ valid schema_of_migration (encode_plan ex_plan) = Some true
  /\ valid schema_of_migration (file_form schema_url (encode_plan ex_plan)) = Some true.
Proof. repeat split; vm_compute; reflexivity. Qed.
Lemma valid_encode_config_default :
  valid schema_of_config (encode_config default_config) = Some true
  /\ decode_config (JObj [("modelsDir", JStr "m"); ("migrationsDir", JStr "g"); ("tableNamingCase", JStr "snake");
                          ("columnNamingCase", JStr "snake")])
     = Some (mkConfig "m" "g" NCSnake NCSnake FFJson FFJson "%04v_%m" "src/models" default_seaorm "").
Proof. split; vm_compute; reflexivity. Qed.

(* ---------- the verdict of the fuelled validator does not depend on the fuel ---------- *)
Definition le_o {A} (a a' : option A) : Prop := forall b, a = Some b -> a' = Some b.
Lemma le_o_refl {A} (a : option A) : le_o a a.
Proof. intros b H; exact H. Qed.

Lemma and_o_mono (a a' b b' : option bool) : le_o a a' -> le_o b b' -> le_o (and_o a b) (and_o a' b').
Proof.
  intros Ha Hb r H.
  destruct a as [[|]|], b as [[|]|]; cbn in H; try discriminate H;
    try rewrite (Ha _ eq_refl); try rewrite (Hb _ eq_refl); cbn; try exact H;
    destruct b' as [[|]|]; cbn; try exact H; destruct a' as [[|]|]; cbn; exact H.
Qed.

Lemma or_o_mono (a a' b b' : option bool) : le_o a a' -> le_o b b' -> le_o (or_o a b) (or_o a' b').
Proof.
  intros Ha Hb r H.
  destruct a as [[|]|], b as [[|]|]; cbn in H; try discriminate H;
    try rewrite (Ha _ eq_refl); try rewrite (Hb _ eq_refl); cbn; try exact H;
    destruct b' as [[|]|]; cbn; try exact H; destruct a' as [[|]|]; cbn; exact H.
Qed.

Lemma any_o_mono {A} (F G : A -> option bool) (l : list A) :
  (forall x, le_o (F x) (G x)) -> le_o (any_o F l) (any_o G l).
Proof.
  intros H. induction l as [|x r IH]; cbn [any_o]; [apply le_o_refl|].
  apply or_o_mono; [apply H|exact IH].
Qed.

Lemma all_o_mono {A} (F G : A -> option bool) (l : list A) :
  (forall x, le_o (F x) (G x)) -> le_o (all_o F l) (all_o G l).
Proof.
  intros H. induction l as [|x r IH]; cbn [all_o]; [apply le_o_refl|].
  apply and_o_mono; [apply H|exact IH].
Qed.

Lemma count_o_mono {A} (F G : A -> option bool) (l : list A) :
  (forall x, le_o (F x) (G x)) -> le_o (count_o F l) (count_o G l).
Proof.
  intros H. induction l as [|x r IH]; cbn [count_o]; [apply le_o_refl|].
  intros n. destruct (F x) as [[|]|] eqn:E; try discriminate;
    destruct (count_o F r) as [m|] eqn:C; try discriminate;
    rewrite (H x _ E), (IH m eq_refl); trivial.
Qed.

Lemma valid_f_mono (n : nat) : forall ds s j, le_o (valid_f n ds s j) (valid_f (S n) ds s j).
Proof.
  induction n as [|n IH]; intros ds s j; [intros b H; discriminate H|].
  change (valid_f (S n) ds s j) with
    (match s with
     | STrue => Some true
     | SFalse => Some false
     | Sch ty props required items addl anyof oneof enum const ref minimum _ _ =>
         and_o (Some (match ty with None => true | Some ts => existsb (fun t => has_type t j) ts end))
        (and_o (match j with
                | JObj o =>
                    and_o (Some (forallb (fun r => match last_j r o with Some _ => true | None => false end) required))
                   (and_o (all_o (fun ps => match last_j (fst ps) o with
                                            | Some v => valid_f n ds (snd ps) v
                                            | None => Some true
                                            end) props)
                          (match addl with
                           | None => Some true
                           | Some a => all_o (fun kv => if existsb (fun ps => String.eqb (fst ps) (fst kv)) props
                                                        then Some true
                                                        else match last_j (fst kv) o with
                                                             | Some v => valid_f n ds a v
                                                             | None => Some true
                                                             end) o
                           end))
                | JArr l => match items with None => Some true | Some it => all_o (valid_f n ds it) l end
                | _ => Some true
                end)
        (and_o (match anyof with
                | None => Some true
                | Some l => any_o (fun a => valid_f n ds a j) l
                end)
        (and_o (match oneof with
                | None => Some true
                | Some l => match count_o (fun a => valid_f n ds a j) l with
                            | Some k => Some (Nat.eqb k 1) | None => None end
                end)
        (and_o (Some (match enum with None => true | Some vs => existsb (json_eqb j) vs end))
        (and_o (Some (match const with None => true | Some v => json_eqb j v end))
        (and_o (match ref with
                | None => Some true
                | Some name => match find (fun kv => String.eqb (fst kv) name) ds with
                               | Some (_, t) => valid_f n ds t j
                               | None => Some false
                               end
                end)
               (Some (match minimum with None => true | Some m => ge_min m j end))))))))
     end).
  change (valid_f (S (S n)) ds s j) with
    (match s with
     | STrue => Some true
     | SFalse => Some false
     | Sch ty props required items addl anyof oneof enum const ref minimum _ _ =>
         and_o (Some (match ty with None => true | Some ts => existsb (fun t => has_type t j) ts end))
        (and_o (match j with
                | JObj o =>
                    and_o (Some (forallb (fun r => match last_j r o with Some _ => true | None => false end) required))
                   (and_o (all_o (fun ps => match last_j (fst ps) o with
                                            | Some v => valid_f (S n) ds (snd ps) v
                                            | None => Some true
                                            end) props)
                          (match addl with
                           | None => Some true
                           | Some a => all_o (fun kv => if existsb (fun ps => String.eqb (fst ps) (fst kv)) props
                                                        then Some true
                                                        else match last_j (fst kv) o with
                                                             | Some v => valid_f (S n) ds a v
                                                             | None => Some true
                                                             end) o
                           end))
                | JArr l => match items with None => Some true | Some it => all_o (valid_f (S n) ds it) l end
                | _ => Some true
                end)
        (and_o (match anyof with
                | None => Some true
                | Some l => any_o (fun a => valid_f (S n) ds a j) l
                end)
        (and_o (match oneof with
                | None => Some true
                | Some l => match count_o (fun a => valid_f (S n) ds a j) l with
                            | Some k => Some (Nat.eqb k 1) | None => None end
                end)
        (and_o (Some (match enum with None => true | Some vs => existsb (json_eqb j) vs end))
        (and_o (Some (match const with None => true | Some v => json_eqb j v end))
        (and_o (match ref with
                | None => Some true
                | Some name => match find (fun kv => String.eqb (fst kv) name) ds with
                               | Some (_, t) => valid_f (S n) ds t j
                               | None => Some false
                               end
                end)
               (Some (match minimum with None => true | Some m => ge_min m j end))))))))
     end).
  destruct s as [| |ty props required items addl anyof oneof enum const ref minimum fm df]; try apply le_o_refl.
  apply and_o_mono; [apply le_o_refl|].
  apply and_o_mono.
  { destruct j as [| | | | |l|o]; try apply le_o_refl.
    - destruct items as [it|]; [|apply le_o_refl]. apply all_o_mono. intros x. apply IH.
    - apply and_o_mono; [apply le_o_refl|]. apply and_o_mono.
      + apply all_o_mono. intros ps. destruct (last_j (fst ps) o); [apply IH|apply le_o_refl].
      + destruct addl as [a|]; [|apply le_o_refl]. apply all_o_mono. intros kv.
        destruct (existsb _ props); [apply le_o_refl|].
        destruct (last_j (fst kv) o); [apply IH|apply le_o_refl]. }
  apply and_o_mono.
  { destruct anyof as [l|]; [|apply le_o_refl]. apply any_o_mono. intros x. apply IH. }
  apply and_o_mono.
  { destruct oneof as [l|]; [|apply le_o_refl]. intros b.
    destruct (count_o (fun a => valid_f n ds a j) l) as [k|] eqn:C; [|discriminate].
    rewrite (count_o_mono _ (fun a => valid_f (S n) ds a j) l (fun x => IH ds x j) k C). trivial. }
  apply and_o_mono; [apply le_o_refl|].
  apply and_o_mono; [apply le_o_refl|].
  apply and_o_mono; [|apply le_o_refl].
  destruct ref as [name|]; [|apply le_o_refl].
  destruct (find _ ds) as [[k t]|]; [apply IH|apply le_o_refl].
Qed.

(* once the validator answers, more fuel never changes the answer *)
Theorem valid_fuel_irrelevant (n m : nat) (ds : defs) (s : jschema) (j : json) (b : bool) :
  valid_f n ds s j = Some b -> valid_f (n + m) ds s j = Some b.
Proof.
  intros H. induction m as [|m IH].
  - rewrite Nat.add_0_r. exact H.
  - rewrite Nat.add_succ_r. apply valid_f_mono. exact IH.
Qed.

(* the hypotheses of decode_of_valid are satisfiable by a document touching every definition (and by its
   written form with sorted keys and "$schema"); a repeated member alone takes a document out of them *)
Lemma strictly_valid_example :
  strictly_valid schema_of_migration (encode_plan ex_plan) = true
  /\ strictly_valid schema_of_migration (file_form schema_url (encode_plan ex_plan)) = true
  /\ strictly_valid schema_of_migration (JObj [("version", JInt 1); ("version", JInt 1); ("actions", JArr [])]) = false
  /\ valid schema_of_migration (JObj [("version", JInt 1); ("version", JInt 1); ("actions", JArr [])]) = Some true
  /\ decode_plan (JObj [("version", JInt 1); ("version", JInt 1); ("actions", JArr [])]) = None.
Proof. repeat split; vm_compute; reflexivity. Qed.
