(* C15 — shipped JSON Schemas and the parser accept the same documents.
   Pinned statements only.  The statements that mention the *regenerated* schema terms
   (shipped_is_current_X / shipped_is_stale_X_refuted, generated_is_schema_of_X) cannot live here
   because Gen/ is rebuilt on every run: they are in Properties/C15Schemas.v.in, instantiated as
   Gen/C15Schemas.v and compiled by checks/c15.py on every run (and counted as obligations there).
   NOT proved (stated honestly): decode_of_valid (bounded j -> valid j -> the parser accepts j) for all
   documents; it is evaluated by computation on every generated / mutated document of every run
   (K-schema + K-serde), which is a test. *)
From VV.SERDE Require Import Serde Config CorrSchema SchemaOfTypes SchemaP ValidEncode.

(* every document the serialisers produce validates against the schema derived from its type
   (schema_of_X = the regenerated schema, checked per run by generated_is_schema_of_X) *)
Theorem C15_valid_encode_plan : forall p, im_plan p = true -> valid schema_of_migration (encode_plan p) = Some true.
Proof. exact valid_encode_plan. Qed.
Print Assumptions C15_valid_encode_plan.
Check C15_valid_encode_plan : forall p, im_plan p = true -> valid schema_of_migration (encode_plan p) = Some true.

Theorem C15_valid_encode_table : forall t, im_table t = true -> valid schema_of_model (encode_table t) = Some true.
Proof. exact valid_encode_table. Qed.
Print Assumptions C15_valid_encode_table.
Check C15_valid_encode_table : forall t, im_table t = true -> valid schema_of_model (encode_table t) = Some true.

Theorem C15_valid_encode_config : forall c, valid schema_of_config (encode_config c) = Some true.
Proof. exact valid_encode_config. Qed.
Print Assumptions C15_valid_encode_config.
Check C15_valid_encode_config : forall c, valid schema_of_config (encode_config c) = Some true.

(* `bounded` cannot be dropped: schema-valid documents outside it are rejected by the parser *)
Theorem C15_decode_of_valid_refuted :
  exists j, valid schema_of_model j = Some true /\ decode_table j = None /\ known_C15_unbounded DTable j = true.
Proof. exact decode_of_valid_refuted. Qed.
Print Assumptions C15_decode_of_valid_refuted.
Check C15_decode_of_valid_refuted :
  exists j, valid schema_of_model j = Some true /\ decode_table j = None /\ known_C15_unbounded DTable j = true.

Theorem C15_decode_of_valid_float_refuted :
  exists j, valid schema_of_migration j = Some true /\ decode_plan j = None /\ known_C15_unbounded DPlan j = true.
Proof. exact decode_of_valid_float_refuted. Qed.
Print Assumptions C15_decode_of_valid_float_refuted.
Check C15_decode_of_valid_float_refuted :
  exists j, valid schema_of_migration j = Some true /\ decode_plan j = None /\ known_C15_unbounded DPlan j = true.

(* the fuelled validator's verdict, once given, is independent of the fuel (so VALID_FUEL only decides
   between an answer and the explicit out-of-fuel outcome, never between true and false) *)
Theorem C15_valid_fuel_irrelevant : forall n m ds s j b,
  valid_f n ds s j = Some b -> valid_f (n + m) ds s j = Some b.
Proof. exact valid_fuel_irrelevant. Qed.
Print Assumptions C15_valid_fuel_irrelevant.
Check C15_valid_fuel_irrelevant : forall n m ds s j b,
  valid_f n ds s j = Some b -> valid_f (n + m) ds s j = Some b.

(* a plan touching every definition of the migration schema validates, in struct order and in the
   sorted-keys + "$schema" form `revision` writes *)
Theorem C15_valid_encode_example :
  im_plan ex_plan = true /\ valid schema_of_migration (encode_plan ex_plan) = Some true
  /\ valid schema_of_migration (file_form schema_url (encode_plan ex_plan)) = Some true.
Proof. exact valid_encode_example. Qed.
Print Assumptions C15_valid_encode_example.
Check C15_valid_encode_example :
  im_plan ex_plan = true /\ valid schema_of_migration (encode_plan ex_plan) = Some true
  /\ valid schema_of_migration (file_form schema_url (encode_plan ex_plan)) = Some true.
