(* C15 — shipped JSON Schemas and the parser accept the same documents.
   Pinned statements only.  The statements that mention the *regenerated* schema terms
   (shipped_is_current_X / shipped_is_stale_X_refuted, generated_is_schema_of_X) cannot live here
   because Gen/ is rebuilt on every run: they are in Properties/C15Schemas.v.in, instantiated as
   Gen/C15Schemas.v and compiled by checks/c15.py on every run (and counted as obligations there).
   Both directions are proved for ALL documents / values (no sampling): valid_encode (what the serialisers
   write validates) and decode_of_valid (what validates - under the strict reading that is the complement of
   the recorded class C15-integer-width-not-in-schema, and without repeated members - is accepted by the
   parser model), each against schema_of_X; Gen/C15Schemas.v transports them to the *shipped* schema terms
   through doc_eqb_eq (soundness of the schema comparison) on every run. *)
From VV.SERDE Require Import Serde Config CorrSchema SchemaOfTypes SchemaStrict SchemaP ValidEncode DecodeOfValid EqbSound.

(* every document the serialisers produce validates against the schema derived from its type
   (schema_of_X = the regenerated schema, checked per run by generated_is_schema_of_X) *)
Theorem C15_valid_encode_plan : forall p, im_plan p = true -> valid schema_of_migration (encode_plan p) = Some true.
Proof. exact valid_encode_plan. Qed.
Print Assumptions C15_valid_encode_plan.
Check C15_valid_encode_plan : forall p, im_plan p = true -> valid schema_of_migration (encode_plan p) = Some true.

Theorem C15_valid_encode_table : forall t, im_table t = true -> valid schema_of_model (encode_table t) = Some true.
Proof. exact valid_encode_table. Qed.
Print Assumptions C15_valid_encode_table.
Check C15_valid_encode_table : forall t, im_table t = true -> valid schema_of_model (encode_table t) = Some true.

Theorem C15_valid_encode_config : forall c, valid schema_of_config (encode_config c) = Some true.
Proof. exact valid_encode_config. Qed.
Print Assumptions C15_valid_encode_config.
Check C15_valid_encode_config : forall c, valid schema_of_config (encode_config c) = Some true.

(* ---- decode_of_valid: every document without repeated members that is strictly valid (format =
   the Rust width of the field, "integer" excludes 1.0; Model/SchemaStrict.v) is accepted, for any fuel ---- *)
Theorem C15_decode_of_valid_table : forall n j,
  nodup_doc j = true ->
  svalid_f n (sd_defs schema_of_model) (sd_root schema_of_model) j = Some true ->
  exists t, decode_table j = Some t.
Proof. exact decode_of_valid_table. Qed.
Print Assumptions C15_decode_of_valid_table.
Check C15_decode_of_valid_table : forall n j,
  nodup_doc j = true ->
  svalid_f n (sd_defs schema_of_model) (sd_root schema_of_model) j = Some true ->
  exists t, decode_table j = Some t.

Theorem C15_decode_of_valid_plan : forall n j,
  nodup_doc j = true ->
  svalid_f n (sd_defs schema_of_migration) (sd_root schema_of_migration) j = Some true ->
  exists p, decode_plan j = Some p.
Proof. exact decode_of_valid_plan. Qed.
Print Assumptions C15_decode_of_valid_plan.
Check C15_decode_of_valid_plan : forall n j,
  nodup_doc j = true ->
  svalid_f n (sd_defs schema_of_migration) (sd_root schema_of_migration) j = Some true ->
  exists p, decode_plan j = Some p.

(* non-vacuity, and the two ways out of the hypotheses *)
Theorem C15_strictly_valid_example :
  strictly_valid schema_of_migration (encode_plan ex_plan) = true
  /\ strictly_valid schema_of_migration (file_form schema_url (encode_plan ex_plan)) = true
  /\ strictly_valid schema_of_migration (JObj [("version", JInt 1); ("version", JInt 1); ("actions", JArr [])]) = false
  /\ valid schema_of_migration (JObj [("version", JInt 1); ("version", JInt 1); ("actions", JArr [])]) = Some true
  /\ decode_plan (JObj [("version", JInt 1); ("version", JInt 1); ("actions", JArr [])]) = None.
Proof. exact strictly_valid_example. Qed.
Print Assumptions C15_strictly_valid_example.
Check C15_strictly_valid_example :
  strictly_valid schema_of_migration (encode_plan ex_plan) = true
  /\ strictly_valid schema_of_migration (file_form schema_url (encode_plan ex_plan)) = true
  /\ strictly_valid schema_of_migration (JObj [("version", JInt 1); ("version", JInt 1); ("actions", JArr [])]) = false
  /\ valid schema_of_migration (JObj [("version", JInt 1); ("version", JInt 1); ("actions", JArr [])]) = Some true
  /\ decode_plan (JObj [("version", JInt 1); ("version", JInt 1); ("actions", JArr [])]) = None.

(* the strict reading cannot be dropped (the recorded class): plainly valid, strictly invalid, rejected *)
Theorem C15_decode_of_valid_refuted :
  exists j, valid schema_of_model j = Some true /\ decode_table j = None /\ known_C15_unbounded DTable j = true
            /\ nodup_doc j = true /\ svalid schema_of_model j = Some false.
Proof. exact decode_of_valid_refuted. Qed.
Print Assumptions C15_decode_of_valid_refuted.
Check C15_decode_of_valid_refuted :
  exists j, valid schema_of_model j = Some true /\ decode_table j = None /\ known_C15_unbounded DTable j = true
            /\ nodup_doc j = true /\ svalid schema_of_model j = Some false.

Theorem C15_decode_of_valid_float_refuted :
  exists j, valid schema_of_migration j = Some true /\ decode_plan j = None /\ known_C15_unbounded DPlan j = true
            /\ nodup_doc j = true /\ svalid schema_of_migration j = Some false.
Proof. exact decode_of_valid_float_refuted. Qed.
Print Assumptions C15_decode_of_valid_float_refuted.
Check C15_decode_of_valid_float_refuted :
  exists j, valid schema_of_migration j = Some true /\ decode_plan j = None /\ known_C15_unbounded DPlan j = true
            /\ nodup_doc j = true /\ svalid schema_of_migration j = Some false.

(* the per-run schema comparisons (doc_eqb ... = true, closed by vm_compute) decide equality of the schema terms *)
Theorem C15_doc_eqb_sound : forall a b, doc_eqb a b = true -> a = b.
Proof. exact doc_eqb_eq. Qed.
Print Assumptions C15_doc_eqb_sound.
Check C15_doc_eqb_sound : forall a b, doc_eqb a b = true -> a = b.

(* the fuelled validator's verdict, once given, is independent of the fuel (so VALID_FUEL only decides
   between an answer and the explicit out-of-fuel outcome, never between true and false) *)
Theorem C15_valid_fuel_irrelevant : forall n m ds s j b,
  valid_f n ds s j = Some b -> valid_f (n + m) ds s j = Some b.
Proof. exact valid_fuel_irrelevant. Qed.
Print Assumptions C15_valid_fuel_irrelevant.
Check C15_valid_fuel_irrelevant : forall n m ds s j b,
  valid_f n ds s j = Some b -> valid_f (n + m) ds s j = Some b.

(* a plan touching every definition of the migration schema validates, in struct order and in the
   sorted-keys + "$schema" form `revision` writes *)
Theorem C15_valid_encode_example :
  im_plan ex_plan = true /\ valid schema_of_migration (encode_plan ex_plan) = Some true
  /\ valid schema_of_migration (file_form schema_url (encode_plan ex_plan)) = Some true.
Proof. exact valid_encode_example. Qed.
Print Assumptions C15_valid_encode_example.
Check C15_valid_encode_example :
  im_plan ex_plan = true /\ valid schema_of_migration (encode_plan ex_plan) = Some true
  /\ valid schema_of_migration (file_form schema_url (encode_plan ex_plan)) = Some true.
