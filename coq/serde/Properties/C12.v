(* C12 — whatever the tool writes, every command can read back unchanged.
   Pinned statements only: each theorem is closed by [exact] of a lemma proved in Proofs/.
   Value layer (JSON documents as serde_json sees them); the YAML *text* layer is not modelled and
   is exercised by the K-serde text round trips only (level for the YAML half: partial). *)
From VV.M1 Require Import Validate Revision.
From VV.SERDE Require Import Serde Config CorrSerde RoundTrip RevisionP EqbSound.

(* ---- round trip: MigrationPlan (all 13 action kinds), TableDef, VespertideConfig ---- *)
Theorem C12_decode_encode_plan : forall p, im_plan p = true -> decode_plan (encode_plan p) = Some p.
Proof. exact decode_encode_plan. Qed.
Print Assumptions C12_decode_encode_plan.
Check C12_decode_encode_plan : forall p, im_plan p = true -> decode_plan (encode_plan p) = Some p.

Theorem C12_decode_encode_table : forall t, im_table t = true -> decode_table (encode_table t) = Some t.
Proof. exact decode_encode_table. Qed.
Print Assumptions C12_decode_encode_table.
Check C12_decode_encode_table : forall t, im_table t = true -> decode_table (encode_table t) = Some t.

Theorem C12_decode_encode_config : forall c, decode_config (encode_config c) = Some c.
Proof. exact decode_encode_config. Qed.
Print Assumptions C12_decode_encode_config.
Check C12_decode_encode_config : forall c, decode_config (encode_config c) = Some c.

(* the file `revision` writes carries an extra "$schema" member *)
Theorem C12_decode_encode_plan_with_schema : forall p url, im_plan p = true ->
  match encode_plan p with
  | JObj o => decode_plan (JObj (("$schema", url) :: o)) = Some p /\ decode_plan (JObj (o ++ [("$schema", url)])) = Some p
  | _ => False
  end.
Proof. exact decode_encode_plan_with_schema. Qed.
Print Assumptions C12_decode_encode_plan_with_schema.
Check C12_decode_encode_plan_with_schema : forall p url, im_plan p = true ->
  match encode_plan p with
  | JObj o => decode_plan (JObj (("$schema", url) :: o)) = Some p /\ decode_plan (JObj (o ++ [("$schema", url)])) = Some p
  | _ => False
  end.

(* ---- the image excludes exactly these spots; each is a real loss (replayed on serde_json) ---- *)
Theorem C12_enum_empty_refuted :
  exists t, im_table t = false /\ exists t', decode_table (encode_table t) = Some t' /\ t' <> t.
Proof. exact enum_empty_refuted. Qed.
Print Assumptions C12_enum_empty_refuted.
Check C12_enum_empty_refuted :
  exists t, im_table t = false /\ exists t', decode_table (encode_table t) = Some t' /\ t' <> t.

Theorem C12_float_nonfinite_refuted :
  exists t, im_table t = false /\ exists t', decode_table (encode_table t) = Some t' /\ t' <> t.
Proof. exact float_nonfinite_refuted. Qed.
Print Assumptions C12_float_nonfinite_refuted.
Check C12_float_nonfinite_refuted :
  exists t, im_table t = false /\ exists t', decode_table (encode_table t) = Some t' /\ t' <> t.

Theorem C12_out_of_range_refuted : exists p, im_plan p = false /\ decode_plan (encode_plan p) = None.
Proof. exact out_of_range_refuted. Qed.
Print Assumptions C12_out_of_range_refuted.
Check C12_out_of_range_refuted : exists p, im_plan p = false /\ decode_plan (encode_plan p) = None.

(* ---- writer / reader agreement (after the repair of D6, /repo 446c8b4) ---- *)
(* for every plan handed to `revision` (so for every plan produced by plan_next), with whatever fill
   values it already carries, the loader never lacks a fill value in what revision wrote *)
Theorem C12_revision_no_missing_fill : forall np baseline w,
  written_of np baseline = Some w ->
  forall t c, validate_migration_plan w <> Err (VMissingFillWith t c).
Proof. exact revision_no_missing_fill. Qed.
Print Assumptions C12_revision_no_missing_fill.
Check C12_revision_no_missing_fill : forall np baseline w,
  written_of np baseline = Some w ->
  forall t c, validate_migration_plan w <> Err (VMissingFillWith t c).

(* exactly what can still happen: accepted, or rejected because an enum column's default / fill value
   is not one of its labels *)
Theorem C12_revision_output_loadable : forall np baseline w,
  written_of np baseline = Some w ->
  validate_migration_plan w = Ok tt \/ exists t c v, validate_migration_plan w = Err (VInvalidEnumDefault t c v).
Proof. exact revision_output_loadable. Qed.
Print Assumptions C12_revision_output_loadable.
Check C12_revision_output_loadable : forall np baseline w,
  written_of np baseline = Some w ->
  validate_migration_plan w = Ok tt \/ exists t c v, validate_migration_plan w = Err (VInvalidEnumDefault t c v).

(* the former D6 witness now loads: the column default is written as the fill value *)
Theorem C12_d6_witness_now_loads :
  exists p1 np baseline w,
    plan_next d6_t1 [] = Ok p1 /\ plan_next d6_t2 [p1] = Ok np /\ replay [p1] = Ok baseline /\
    written_of np baseline = Some w /\
    p_actions w = [ModifyColumnNullable "user" "name" false (Some "'x'")] /\
    validate_migration_plan w = Ok tt.
Proof. exact d6_witness_now_loads. Qed.
Print Assumptions C12_d6_witness_now_loads.
Check C12_d6_witness_now_loads :
  exists p1 np baseline w,
    plan_next d6_t1 [] = Ok p1 /\ plan_next d6_t2 [p1] = Ok np /\ replay [p1] = Ok baseline /\
    written_of np baseline = Some w /\
    p_actions w = [ModifyColumnNullable "user" "name" false (Some "'x'")] /\
    validate_migration_plan w = Ok tt.

(* "always accepted" is false: a user-chosen fill value for an enum column is written unchecked *)
Theorem C12_revision_enum_fill_refuted :
  exists np baseline w,
    written_of np baseline = Some w /\
    validate_migration_plan w = Err (VInvalidEnumDefault "t" "status" "bogus").
Proof. exact revision_enum_fill_refuted. Qed.
Print Assumptions C12_revision_enum_fill_refuted.
Check C12_revision_enum_fill_refuted :
  exists np baseline w,
    written_of np baseline = Some w /\
    validate_migration_plan w = Err (VInvalidEnumDefault "t" "status" "bogus").

(* ---- the comparison K-serde uses (json_eqb (encode v) <what serde_json wrote>) decides equality ---- *)
Theorem C12_json_eqb_sound : forall a b, json_eqb a b = true -> a = b.
Proof. exact json_eqb_eq. Qed.
Print Assumptions C12_json_eqb_sound.
Check C12_json_eqb_sound : forall a b, json_eqb a b = true -> a = b.

(* ---- non-vacuity ---- *)
Example C12_nonvacuous_plan :
  let c := mkCol "st" (TEnum "status" (EVInteger [mkNum "a" 1])) false (Some (DFloat "1.5")) (Some "활성")
                 (Some (PKObj true)) (Some (SArr ["a"])) (Some (SBool true)) (Some (FKRef "u.id" (Some Cascade) None)) in
  let p := mkPlan "id" None (Some "2026-01-01T00:00:00Z") 4294967295
             [CreateTable "t" [c] [CForeignKey None ["a"] "u" ["id"] None (Some SetNull)];
              ModifyColumnType "t" "c" (TVarchar 5) (Some [("a", "b"); ("c", "d")]);
              AddColumn "t" c (Some "true"); RawSql "~"] in
  im_plan p = true /\ decode_plan (encode_plan p) = Some p.
Proof. split; vm_compute; reflexivity. Qed.

Example C12_nonvacuous_revision :
  exists np baseline w, written_of np baseline = Some w
                        /\ List.length (p_actions w) = 2%nat /\ validate_migration_plan w = Ok tt.
Proof.
  exists (mkPlan "" None None 2
            [AddColumn "user" (mkCol "age" (TSimple Integer) false None None None None None None) None;
             ModifyColumnNullable "user" "name" false None]).
  exists [mkTable "user" None [mkCol "name" (TSimple Text) true None None None None None None] []].
  eexists. split; [vm_compute; reflexivity|]. split; vm_compute; reflexivity.
Qed.
