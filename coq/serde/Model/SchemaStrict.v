(* M5: the *strict* reading of a schemars schema, i.e. the complement of the recorded class
   C15-integer-width-not-in-schema made decidable on the document:
     - `format` (uint32 / int32 / int64 / double), which JSON Schema treats as an annotation, is
       asserted as the Rust width of the field it annotates,
     - "integer" does not accept a float-typed number (1.0), which serde rejects at integer fields.
   Everything else is [valid_f] verbatim (Model/SchemaOf.v).  [nodup_doc]: no object repeats a
   member (a validator sees the parsed map, the parser sees the text).  No proofs here.
   (`double` on an integer literal: serde_json only produces integer literals in [-2^63, 2^64), and all
   of them decode at a number position - Integer if it fits i64, else Float.) *)
From VV.SERDE Require Export Serde SchemaOf.

Definition has_type_s (t : jtype) (j : json) : bool :=
  match t, j with
  | TyInteger, JFloat _ => false
  | _, _ => has_type t j
  end.

Definition fmt_ok (fm : option string) (j : json) : bool :=
  match fm, j with
  | Some f, JInt z =>
      if String.eqb f "uint32" then in_range 0 u32_maxZ z
      else if String.eqb f "int32" then in_range i32_min i32_max z
      else if String.eqb f "int64" then in_range i64_min i64_max z
      else if String.eqb f "double" then in_range i64_min (two64 - 1)%Z z
      else true
  | _, _ => true
  end.

Fixpoint svalid_f (fuel : nat) (ds : defs) (s : jschema) (j : json) {struct fuel} : option bool :=
  match fuel with
  | O => None
  | S f =>
      match s with
      | STrue => Some true
      | SFalse => Some false
      | Sch ty props required items addl anyof oneof enum const ref minimum format _ =>
          and_o (Some (match ty with None => true | Some ts => existsb (fun t => has_type_s t j) ts end))
         (and_o (match j with
                 | JObj o =>
                     and_o (Some (forallb (fun r => match last_j r o with Some _ => true | None => false end) required))
                    (and_o (all_o (fun ps => match last_j (fst ps) o with
                                             | Some v => svalid_f f ds (snd ps) v
                                             | None => Some true
                                             end) props)
                           (match addl with
                            | None => Some true
                            | Some a => all_o (fun kv => if existsb (fun ps => String.eqb (fst ps) (fst kv)) props
                                                         then Some true
                                                         else match last_j (fst kv) o with
                                                              | Some v => svalid_f f ds a v
                                                              | None => Some true
                                                              end) o
                            end))
                 | JArr l => match items with None => Some true | Some it => all_o (svalid_f f ds it) l end
                 | _ => Some true
                 end)
         (and_o (match anyof with
                 | None => Some true
                 | Some l => any_o (fun a => svalid_f f ds a j) l
                 end)
         (and_o (match oneof with
                 | None => Some true
                 | Some l => match count_o (fun a => svalid_f f ds a j) l with
                             | Some n => Some (Nat.eqb n 1) | None => None end
                 end)
         (and_o (Some (match enum with None => true | Some vs => existsb (json_eqb j) vs end))
         (and_o (Some (match const with None => true | Some v => json_eqb j v end))
         (and_o (match ref with
                 | None => Some true
                 | Some name => match find (fun kv => String.eqb (fst kv) name) ds with
                                | Some (_, t) => svalid_f f ds t j
                                | None => Some false
                                end
                 end)
         (and_o (Some (match minimum with None => true | Some m => ge_min m j end))
                (Some (fmt_ok format j)))))))))
      end
  end.

Definition svalid (d : schema_doc) (j : json) : option bool := svalid_f VALID_FUEL (sd_defs d) (sd_root d) j.

Fixpoint nodup_doc (j : json) : bool :=
  match j with
  | JArr l => (fix go (l : list json) : bool := match l with [] => true | x :: r => nodup_doc x && go r end) l
  | JObj o =>
      nodupb (map fst o)
      && (fix go (o : list (string * json)) : bool :=
            match o with [] => true | (_, v) :: r => nodup_doc v && go r end) o
  | _ => true
  end.

(* the hypothesis of decode_of_valid as one boolean (for coverage statistics) *)
Definition strictly_valid (d : schema_doc) (j : json) : bool :=
  (nodup_doc j && match svalid d j with Some true => true | _ => false end)%bool.
