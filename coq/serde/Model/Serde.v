(* M5: what serde's derives do for the concrete types of vespertide-core
   (action.rs:7-90, schema/column.rs:11-36,250-328, schema/constraint.rs:9-40, schema/table.rs:49-58,
   schema/foreign_key.rs, primary_key.rs, reference.rs, str_or_bool.rs:4-20), serde 1.0.228 /
   serde_json 1.0.149.  encode_* : value -> json is Serialize; decode_* : json -> option value is
   Deserialize (accept / reject; error messages are not modelled).  No proofs here.

   Deserialisation facts mirrored (serde_derive de.rs, serde private/de.rs, serde_json de.rs):
   * no type carries deny_unknown_fields: unknown members are ignored; a *repeated known* member is
     an error ("duplicate field"); repeated unknown members are fine;
   * a struct is read from a JSON object (by name) or from a JSON array (by position, visit_seq):
     in array form a missing trailing element is an error unless the field has #[serde(default)]
     (Option<T> without `default` is an error there), extra elements are an error;
   * in object form a missing Option<T> field is None, a missing #[serde(default)] field takes its
     default, any other missing field is an error;
   * Option<T>: null => None, anything else => T;
   * integers: u32/i32/i64 accept only integer literals in range (floats such as 1.0 are rejected);
   * unit-variant enums: a string, or a one-member object {"variant": null};
   * internally tagged enums: object with exactly one tag member (or array whose head is the tag);
     the remaining members are buffered (serde Content) and read as the variant's struct;
     when the enum itself is read out of buffered Content (i.e. below another tagged / untagged
     enum) the tag may also be the variant *index* as an integer (ContentRefDeserializer::
     deserialize_identifier -> visit_u64); from JSON text it must be a string;
   * untagged enums: alternatives tried in declaration order, first success wins.
   (an integer literal in [2^63, 2^64) at a DefaultValue position is Float(z as f64): modelled, see d_f64.)
   (the difference between the owned ContentDeserializer, which reads an *empty object* as unit, and
   ContentRefDeserializer / JSON text, which do not, is modelled: [d_unit_enum true] is used exactly
   where a unit-variant enum is a direct field of an internally tagged variant, i.e. for
   ReferenceAction inside TableConstraint::ForeignKey.) *)
From VV.SERDE Require Export Json.

Inductive ctx := FromText | FromContent.
Definition dec (A : Type) := json -> option A.

Notation "x <- e ;; f" := (match e with Some x => f | None => None end)
  (at level 61, e at next level, right associativity).

(* ---------- scalars ---------- *)
Definition d_string : dec string := fun j => match j with JStr s => Some s | _ => None end.
Definition d_bool : dec bool := fun j => match j with JBool b => Some b | _ => None end.
Definition in_range (lo hi z : Z) : bool := (Z.leb lo z && Z.leb z hi)%bool.
Definition u32_maxZ : Z := 4294967295.
Definition i32_min : Z := -2147483648.
Definition i32_max : Z := 2147483647.
Definition i64_min : Z := -9223372036854775808.
Definition i64_max : Z := 9223372036854775807.
Definition d_u32 : dec N := fun j =>
  match j with JInt z => if in_range 0 u32_maxZ z then Some (Z.to_N z) else None | _ => None end.
Definition d_i32 : dec Z := fun j =>
  match j with JInt z => if in_range i32_min i32_max z then Some z else None | _ => None end.
Definition d_i64 : dec Z := fun j =>
  match j with JInt z => if in_range i64_min i64_max z then Some z else None | _ => None end.
(* f64 as its rendering.  A JSON number that serde_json hands over as an *integer* (visit_u64 / visit_i64)
   is accepted by the f64 visitor as `z as f64`.  At the only use site (DefaultValue, after the Integer(i64)
   alternative) this is reached exactly for 2^63 <= z < 2^64, so that is the range modelled:
   [u64_as_f64] = round to nearest, ties to even, 53-bit mantissa (multiples of 2048 in this binade);
   [f64_int_render] = Rust's Display of that f64: the shortest decimal digits that read back as the same f64,
   the closest such if several (core::fmt::float -> flt2dec shortest), printed positionally.
   Integers inside i64 never arrive here (taken by the earlier alternative): None is returned for them. *)
Definition two63 : Z := 9223372036854775808.
Definition two64 : Z := 18446744073709551616.
Definition u64_as_f64 (z : Z) : Z :=
  let q := Z.div z 2048 in
  let r := Z.modulo z 2048 in
  let m := if Z.ltb r 1024 then q else if Z.ltb 1024 r then (q + 1)%Z else if Z.even q then q else (q + 1)%Z in
  (m * 2048)%Z.
Fixpoint shortest_from (p : nat) (zf lo hi : Z) (incl : bool) : Z :=
  let P := Z.pow 10 (Z.of_nat p) in
  let clo := if incl then (- (Z.div (- lo) P))%Z else (Z.div lo P + 1)%Z in
  let chi := if incl then Z.div hi P else (- (Z.div (- hi) P) - 1)%Z in
  if Z.leb clo chi then (Z.max clo (Z.min chi (Z.div (zf + Z.div P 2) P)) * P)%Z
  else match p with O => zf | S p' => shortest_from p' zf lo hi incl end.
Definition f64_int_render (zf : Z) : string :=
  let lo := (zf - (if Z.eqb zf two63 then 512 else 1024))%Z in      (* half the gap to the neighbouring doubles *)
  let hi := (zf + (if Z.eqb zf two64 then 2048 else 1024))%Z in
  Z_to_string (shortest_from 19 zf lo hi (Z.even (Z.div zf 2048))).
Definition d_f64 : dec string := fun j =>
  match j with
  | JFloat r => Some r
  | JInt z => if in_range two63 (two64 - 1)%Z z then Some (f64_int_render (u64_as_f64 z)) else None
  | _ => None
  end.

Definition d_option {A} (d : dec A) : dec (option A) := fun j =>
  match j with JNull => Some None | _ => option_map Some (d j) end.
Definition d_vec {A} (d : dec A) : dec (list A) := fun j =>
  match j with JArr l => map_opt d l | _ => None end.
(* BTreeMap<String,String>: object only, later duplicate wins, iteration order sorted *)
Definition d_map : dec (list (string * string)) := fun j =>
  match j with
  | JObj o => l <- map_opt (fun kv => v <- d_string (snd kv) ;; Some (fst kv, v)) o ;; Some (bt_of_list l)
  | _ => None
  end.

Definition e_option {A} (e : A -> json) (v : option A) : json :=
  match v with Some x => e x | None => JNull end.
Definition e_strs (l : list string) : json := JArr (map JStr l).
Definition e_map (m : list (string * string)) : json := JObj (map (fun kv => (fst kv, JStr (snd kv))) m).

Fixpoint first_some {A} (alts : list (dec A)) (j : json) : option A :=
  match alts with
  | [] => None
  | d :: r => match d j with Some v => Some v | None => first_some r j end
  end.

(* ---------- unit-variant enums ---------- *)
Fixpoint lookup_name {A} (s : string) (tbl : list (string * A)) : option A :=
  match tbl with
  | [] => None
  | (n, v) :: r => if String.eqb s n then Some v else lookup_name s r
  end.
(* [owned] = read from an owned ContentDeserializer (serde private/de.rs:1301-1319: an empty map is
   accepted as unit), as opposed to JSON text or ContentRefDeserializer (de.rs:2266-2274) *)
Definition d_unit_enum {A} (owned : bool) (tbl : list (string * A)) : dec A := fun j =>
  match j with
  | JStr s => lookup_name s tbl
  | JObj [(s, JNull)] => lookup_name s tbl
  | JObj [(s, JObj [])] => if owned then lookup_name s tbl else None
  | _ => None
  end.

(* ---------- structs ---------- *)
Inductive fkind := Req | Opt | Dflt.
Definition fields := list (string * fkind).
Definition row := list (option json).

Definition dup_known (fs : list string) (o : obj) : bool :=
  existsb (fun f => Nat.ltb 1 (count_key f o)) fs.
Definition row_of_obj (fs : fields) (o : obj) : option row :=
  if dup_known (map fst fs) o then None else Some (map (fun f => assoc_j (fst f) o) fs).
Fixpoint row_of_seq (fs : fields) (l : list json) : option row :=
  match fs, l with
  | [], [] => Some []
  | [], _ :: _ => None
  | (_, k) :: fs', [] =>
      match k with
      | Dflt => option_map (cons None) (row_of_seq fs' [])
      | _ => None
      end
  | _ :: fs', j :: l' => option_map (cons (Some j)) (row_of_seq fs' l')
  end.
Definition d_struct {A} (fs : fields) (build : row -> option A) : dec A := fun j =>
  match j with
  | JObj o => r <- row_of_obj fs o ;; build r
  | JArr l => r <- row_of_seq fs l ;; build r
  | _ => None
  end.

Definition req {A} (d : dec A) (x : option json) : option A :=
  match x with Some j => d j | None => None end.
Definition opt {A} (d : dec A) (x : option json) : option (option A) :=
  match x with Some j => d_option d j | None => Some None end.
Definition dflt {A} (a : A) (d : dec A) (x : option json) : option A :=
  match x with Some j => d j | None => Some a end.

(* ---------- internally tagged enums ---------- *)
Definition variant (A : Type) : Type := (string * (fields * (row -> option A)))%type.
Definition d_tag (c : ctx) (names : list string) (j : json) : option nat :=
  match j with
  | JStr s => find_index (String.eqb s) names
  | JInt z =>
      match c with
      | FromContent => if in_range 0 (Z.of_nat (List.length names) - 1) z then Some (Z.to_nat z) else None
      | FromText => None
      end
  | _ => None
  end.
Definition d_tagged {A} (c : ctx) (tag : string) (vs : list (variant A)) : dec A := fun j =>
  match j with
  | JObj o =>
      if Nat.eqb (count_key tag o) 1 then
        t <- assoc_j tag o ;;
        i <- d_tag c (map fst vs) t ;;
        v <- nth_error vs i ;;
        r <- row_of_obj (fst (snd v)) (remove_key tag o) ;;
        snd (snd v) r
      else None
  | JArr (t :: rest) =>
      i <- d_tag c (map fst vs) t ;;
      v <- nth_error vs i ;;
      r <- row_of_seq (fst (snd v)) rest ;;
      snd (snd v) r
  | _ => None
  end.

(* ================= vespertide-core types ================= *)

(* SimpleColumnType, rename_all = "snake_case" (column.rs:149-188) *)
Definition simple_name (s : simple_type) : string :=
  match s with
  | SmallInt => "small_int" | Integer => "integer" | BigInt => "big_int" | Real => "real"
  | DoublePrecision => "double_precision" | Text => "text" | Boolean => "boolean" | Date => "date"
  | Time => "time" | Timestamp => "timestamp" | Timestamptz => "timestamptz"
  | Interval => "interval" | Bytea => "bytea" | Uuid => "uuid" | Json => "json" | Inet => "inet"
  | Cidr => "cidr" | Macaddr => "macaddr" | Xml => "xml"
  end.
Definition all_simple : list simple_type :=
  [SmallInt; Integer; BigInt; Real; DoublePrecision; Text; Boolean; Date; Time; Timestamp;
   Timestamptz; Interval; Bytea; Uuid; Json; Inet; Cidr; Macaddr; Xml].
Definition simple_table := map (fun s => (simple_name s, s)) all_simple.
Definition e_simple (s : simple_type) : json := JStr (simple_name s).
Definition d_simple : dec simple_type := d_unit_enum false simple_table.

(* ReferenceAction (reference.rs) *)
Definition ref_action_name (a : ref_action) : string :=
  match a with
  | Cascade => "cascade" | Restrict => "restrict" | SetNull => "set_null"
  | SetDefault => "set_default" | NoAction => "no_action"
  end.
Definition ref_action_table :=
  map (fun a => (ref_action_name a, a)) [Cascade; Restrict; SetNull; SetDefault; NoAction].
Definition e_ref_action (a : ref_action) : json := JStr (ref_action_name a).
Definition d_ref_action : dec ref_action := d_unit_enum false ref_action_table.
Definition d_ref_action_owned : dec ref_action := d_unit_enum true ref_action_table.

(* NumValue, EnumValues (untagged: String(Vec<String>) then Integer(Vec<NumValue>)) *)
Definition num_fields : fields := [("name", Req); ("value", Req)].
Definition b_num (r : row) : option num_value :=
  match r with
  | [n; v] => n <- req d_string n ;; v <- req d_i32 v ;; Some (mkNum n v)
  | _ => None
  end.
Definition d_num : dec num_value := d_struct num_fields b_num.
Definition e_num (n : num_value) : json :=
  JObj (mk_obj [("name", Some (JStr (nv_name n))); ("value", Some (JInt (nv_value n)))]).
Definition e_ev (v : enum_values) : json :=
  match v with EVString l => e_strs l | EVInteger l => JArr (map e_num l) end.
Definition d_ev : dec enum_values :=
  first_some [fun j => option_map EVString (d_vec d_string j);
              fun j => option_map EVInteger (d_vec d_num j)].

(* ComplexColumnType: tag = "kind" (column.rs:317-325); always reached through the untagged
   ColumnType, hence out of buffered Content *)
Definition complex_variants : list (variant column_type) :=
  [("varchar", ([("length", Req)],
      fun r => match r with [l] => l <- req d_u32 l ;; Some (TVarchar l) | _ => None end));
   ("numeric", ([("precision", Req); ("scale", Req)],
      fun r => match r with
               | [p; s] => p <- req d_u32 p ;; s <- req d_u32 s ;; Some (TNumeric p s)
               | _ => None end));
   ("char", ([("length", Req)],
      fun r => match r with [l] => l <- req d_u32 l ;; Some (TChar l) | _ => None end));
   ("custom", ([("custom_type", Req)],
      fun r => match r with [c] => c <- req d_string c ;; Some (TCustom c) | _ => None end));
   ("enum", ([("name", Req); ("values", Req)],
      fun r => match r with
               | [n; v] => n <- req d_string n ;; v <- req d_ev v ;; Some (TEnum n v)
               | _ => None end))].
Definition d_complex : dec column_type := d_tagged FromContent "kind" complex_variants.
(* ColumnType untagged: Simple then Complex (column.rs:31-36) *)
Definition d_ctype : dec column_type :=
  first_some [fun j => option_map TSimple (d_simple j); d_complex].
Definition e_u32 (n : N) : json := JInt (Z.of_N n).
Definition e_ctype (t : column_type) : json :=
  match t with
  | TSimple s => e_simple s
  | TVarchar n => JObj (("kind", JStr "varchar") :: mk_obj [("length", Some (e_u32 n))])
  | TNumeric p s =>
      JObj (("kind", JStr "numeric") :: mk_obj [("precision", Some (e_u32 p)); ("scale", Some (e_u32 s))])
  | TChar n => JObj (("kind", JStr "char") :: mk_obj [("length", Some (e_u32 n))])
  | TCustom c => JObj (("kind", JStr "custom") :: mk_obj [("custom_type", Some (JStr c))])
  | TEnum n v => JObj (("kind", JStr "enum") :: mk_obj [("name", Some (JStr n)); ("values", Some (e_ev v))])
  end.

(* DefaultValue untagged: Bool, Integer(i64), Float(f64), String (str_or_bool.rs:14-20).
   serde_json prints a non-finite f64 as null (ser.rs serialize_f64). *)
Definition e_default (d : default_value) : json :=
  match d with
  | DBool b => JBool b
  | DInt z => JInt z
  | DFloat r => if float_nonfinite r then JNull else JFloat r
  | DStr s => JStr s
  end.
Definition d_default : dec default_value :=
  first_some [fun j => option_map DBool (d_bool j);
              fun j => option_map DInt (d_i64 j);
              fun j => option_map DFloat (d_f64 j);
              fun j => option_map DStr (d_string j)].

(* PrimaryKeySyntax untagged: Bool, Object(PrimaryKeyDef{#[serde(default)] auto_increment}) *)
Definition pk_fields : fields := [("auto_increment", Dflt)].
Definition b_pk (r : row) : option bool :=
  match r with [a] => dflt false d_bool a | _ => None end.
Definition e_pk (p : pk_syntax) : json :=
  match p with
  | PKBool b => JBool b
  | PKObj a => JObj (mk_obj [("auto_increment", Some (JBool a))])
  end.
Definition d_pk : dec pk_syntax :=
  first_some [fun j => option_map PKBool (d_bool j);
              fun j => option_map PKObj (d_struct pk_fields b_pk j)].

(* StrOrBoolOrArray untagged: Str, Array, Bool (str_or_bool.rs:4-10) *)
Definition e_sba (s : str_or_bool_or_array) : json :=
  match s with SStr s => JStr s | SArr l => e_strs l | SBool b => JBool b end.
Definition d_sba : dec str_or_bool_or_array :=
  first_some [fun j => option_map SStr (d_string j);
              fun j => option_map SArr (d_vec d_string j);
              fun j => option_map SBool (d_bool j)].

(* ForeignKeySyntax untagged: String, Reference(ReferenceSyntaxDef), Object(ForeignKeyDef) *)
Definition fkref_fields : fields := [("references", Req); ("on_delete", Opt); ("on_update", Opt)].
Definition b_fkref (r : row) : option fk_syntax :=
  match r with
  | [a; d; u] =>
      a <- req d_string a ;; d <- opt d_ref_action d ;; u <- opt d_ref_action u ;; Some (FKRef a d u)
  | _ => None
  end.
Definition fkobj_fields : fields :=
  [("ref_table", Req); ("ref_columns", Req); ("on_delete", Opt); ("on_update", Opt)].
Definition b_fkobj (r : row) : option fk_syntax :=
  match r with
  | [t; c; d; u] =>
      t <- req d_string t ;; c <- req (d_vec d_string) c ;;
      d <- opt d_ref_action d ;; u <- opt d_ref_action u ;; Some (FKObj t c d u)
  | _ => None
  end.
Definition e_fk (f : fk_syntax) : json :=
  match f with
  | FKStr s => JStr s
  | FKRef a d u =>
      JObj (mk_obj [("references", Some (JStr a)); ("on_delete", option_map e_ref_action d);
                    ("on_update", option_map e_ref_action u)])
  | FKObj t c d u =>
      JObj (mk_obj [("ref_table", Some (JStr t)); ("ref_columns", Some (e_strs c));
                    ("on_delete", Some (e_option e_ref_action d));
                    ("on_update", Some (e_option e_ref_action u))])
  end.
Definition d_fk : dec fk_syntax :=
  first_some [fun j => option_map FKStr (d_string j); d_struct fkref_fields b_fkref;
              d_struct fkobj_fields b_fkobj].

(* ColumnDef (column.rs:11-29) *)
Definition column_fields : fields :=
  [("name", Req); ("type", Req); ("nullable", Req); ("default", Opt); ("comment", Opt);
   ("primary_key", Opt); ("unique", Opt); ("index", Opt); ("foreign_key", Opt)].
Definition b_column (r : row) : option column_def :=
  match r with
  | [n; t; nl; d; c; pk; u; i; fk] =>
      n <- req d_string n ;; t <- req d_ctype t ;; nl <- req d_bool nl ;;
      d <- opt d_default d ;; c <- opt d_string c ;; pk <- opt d_pk pk ;;
      u <- opt d_sba u ;; i <- opt d_sba i ;; fk <- opt d_fk fk ;;
      Some (mkCol n t nl d c pk u i fk)
  | _ => None
  end.
Definition d_column : dec column_def := d_struct column_fields b_column.
Definition e_column (c : column_def) : json :=
  JObj (mk_obj [("name", Some (JStr (c_name c))); ("type", Some (e_ctype (c_type c)));
                ("nullable", Some (JBool (c_nullable c)));
                ("default", option_map e_default (c_default c));
                ("comment", option_map JStr (c_comment c));
                ("primary_key", option_map e_pk (c_primary_key c));
                ("unique", option_map e_sba (c_unique c));
                ("index", option_map e_sba (c_index c));
                ("foreign_key", option_map e_fk (c_foreign_key c))]).

(* TableConstraint: tag = "type" (constraint.rs:9-40) *)
Definition constraint_variants : list (variant table_constraint) :=
  [("primary_key", ([("auto_increment", Dflt); ("columns", Req)],
      fun r => match r with
               | [a; c] => a <- dflt false d_bool a ;; c <- req (d_vec d_string) c ;; Some (CPrimaryKey a c)
               | _ => None end));
   ("unique", ([("name", Opt); ("columns", Req)],
      fun r => match r with
               | [n; c] => n <- opt d_string n ;; c <- req (d_vec d_string) c ;; Some (CUnique n c)
               | _ => None end));
   ("foreign_key", ([("name", Opt); ("columns", Req); ("ref_table", Req); ("ref_columns", Req);
                     ("on_delete", Opt); ("on_update", Opt)],
      fun r => match r with
               | [n; c; t; rc; d; u] =>
                   n <- opt d_string n ;; c <- req (d_vec d_string) c ;; t <- req d_string t ;;
                   rc <- req (d_vec d_string) rc ;; d <- opt d_ref_action_owned d ;;
                   u <- opt d_ref_action_owned u ;; Some (CForeignKey n c t rc d u)
               | _ => None end));
   ("check", ([("name", Req); ("expr", Req)],
      fun r => match r with
               | [n; e] => n <- req d_string n ;; e <- req d_string e ;; Some (CCheck n e)
               | _ => None end));
   ("index", ([("name", Opt); ("columns", Req)],
      fun r => match r with
               | [n; c] => n <- opt d_string n ;; c <- req (d_vec d_string) c ;; Some (CIndex n c)
               | _ => None end))].
Definition d_constraint (c : ctx) : dec table_constraint := d_tagged c "type" constraint_variants.
Definition e_constraint (k : table_constraint) : json :=
  match k with
  | CPrimaryKey a c =>
      JObj (("type", JStr "primary_key") :: mk_obj [("auto_increment", Some (JBool a)); ("columns", Some (e_strs c))])
  | CUnique n c =>
      JObj (("type", JStr "unique") :: mk_obj [("name", option_map JStr n); ("columns", Some (e_strs c))])
  | CForeignKey n c t rc d u =>
      JObj (("type", JStr "foreign_key")
            :: mk_obj [("name", option_map JStr n); ("columns", Some (e_strs c));
                       ("ref_table", Some (JStr t)); ("ref_columns", Some (e_strs rc));
                       ("on_delete", Some (e_option e_ref_action d));
                       ("on_update", Some (e_option e_ref_action u))])
  | CCheck n e => JObj (("type", JStr "check") :: mk_obj [("name", Some (JStr n)); ("expr", Some (JStr e))])
  | CIndex n c =>
      JObj (("type", JStr "index") :: mk_obj [("name", option_map JStr n); ("columns", Some (e_strs c))])
  end.

(* TableDef (table.rs:49-58): constraints has default + skip_serializing_if = Vec::is_empty *)
Definition table_fields : fields :=
  [("name", Req); ("description", Opt); ("columns", Req); ("constraints", Dflt)].
Definition b_table (r : row) : option table_def :=
  match r with
  | [n; d; c; k] =>
      n <- req d_string n ;; d <- opt d_string d ;; c <- req (d_vec d_column) c ;;
      k <- dflt [] (d_vec (d_constraint FromText)) k ;; Some (mkTable n d c k)
  | _ => None
  end.
Definition decode_table : dec table_def := d_struct table_fields b_table.
Definition encode_table (t : table_def) : json :=
  JObj (mk_obj [("name", Some (JStr (t_name t))); ("description", option_map JStr (t_description t));
                ("columns", Some (JArr (map e_column (t_columns t))));
                ("constraints", match t_constraints t with
                                | [] => None
                                | l => Some (JArr (map e_constraint l))
                                end)]).

(* MigrationAction: tag = "type" (action.rs:21-90).  Its members are read out of buffered Content,
   so nested constraints use ctx Content. *)
Definition s2 (f : string -> string -> action) (a b : string) : fields * (row -> option action) :=
  ([(a, Req); (b, Req)],
   fun r => match r with [x; y] => x <- req d_string x ;; y <- req d_string y ;; Some (f x y) | _ => None end).
Definition action_variants : list (variant action) :=
  [("create_table", ([("table", Req); ("columns", Req); ("constraints", Req)],
      fun r => match r with
               | [t; c; k] => t <- req d_string t ;; c <- req (d_vec d_column) c ;;
                              k <- req (d_vec (d_constraint FromContent)) k ;; Some (CreateTable t c k)
               | _ => None end));
   ("delete_table", ([("table", Req)],
      fun r => match r with [t] => t <- req d_string t ;; Some (DeleteTable t) | _ => None end));
   ("add_column", ([("table", Req); ("column", Req); ("fill_with", Opt)],
      fun r => match r with
               | [t; c; f] => t <- req d_string t ;; c <- req d_column c ;; f <- opt d_string f ;;
                              Some (AddColumn t c f)
               | _ => None end));
   ("rename_column", ([("table", Req); ("from", Req); ("to", Req)],
      fun r => match r with
               | [t; a; b] => t <- req d_string t ;; a <- req d_string a ;; b <- req d_string b ;;
                              Some (RenameColumn t a b)
               | _ => None end));
   ("delete_column", s2 DeleteColumn "table" "column");
   ("modify_column_type", ([("table", Req); ("column", Req); ("new_type", Req); ("fill_with", Dflt)],
      fun r => match r with
               | [t; c; ty; f] => t <- req d_string t ;; c <- req d_string c ;; ty <- req d_ctype ty ;;
                                  f <- dflt None (d_option d_map) f ;; Some (ModifyColumnType t c ty f)
               | _ => None end));
   ("modify_column_nullable", ([("table", Req); ("column", Req); ("nullable", Req); ("fill_with", Opt)],
      fun r => match r with
               | [t; c; n; f] => t <- req d_string t ;; c <- req d_string c ;; n <- req d_bool n ;;
                                 f <- opt d_string f ;; Some (ModifyColumnNullable t c n f)
               | _ => None end));
   ("modify_column_default", ([("table", Req); ("column", Req); ("new_default", Opt)],
      fun r => match r with
               | [t; c; d] => t <- req d_string t ;; c <- req d_string c ;; d <- opt d_string d ;;
                              Some (ModifyColumnDefault t c d)
               | _ => None end));
   ("modify_column_comment", ([("table", Req); ("column", Req); ("new_comment", Opt)],
      fun r => match r with
               | [t; c; d] => t <- req d_string t ;; c <- req d_string c ;; d <- opt d_string d ;;
                              Some (ModifyColumnComment t c d)
               | _ => None end));
   ("add_constraint", ([("table", Req); ("constraint", Req)],
      fun r => match r with
               | [t; k] => t <- req d_string t ;; k <- req (d_constraint FromContent) k ;; Some (AddConstraint t k)
               | _ => None end));
   ("remove_constraint", ([("table", Req); ("constraint", Req)],
      fun r => match r with
               | [t; k] => t <- req d_string t ;; k <- req (d_constraint FromContent) k ;; Some (RemoveConstraint t k)
               | _ => None end));
   ("rename_table", s2 RenameTable "from" "to");
   ("raw_sql", ([("sql", Req)],
      fun r => match r with [s] => s <- req d_string s ;; Some (RawSql s) | _ => None end))].
Definition d_action (c : ctx) : dec action := d_tagged c "type" action_variants.
Definition tagged (tag name : string) (l : list (string * option json)) : json :=
  JObj ((tag, JStr name) :: mk_obj l).
Definition e_action (a : action) : json :=
  match a with
  | CreateTable t c k =>
      tagged "type" "create_table" [("table", Some (JStr t)); ("columns", Some (JArr (map e_column c)));
                                    ("constraints", Some (JArr (map e_constraint k)))]
  | DeleteTable t => tagged "type" "delete_table" [("table", Some (JStr t))]
  | AddColumn t c f =>
      tagged "type" "add_column" [("table", Some (JStr t)); ("column", Some (e_column c));
                                  ("fill_with", Some (e_option JStr f))]
  | RenameColumn t a b =>
      tagged "type" "rename_column" [("table", Some (JStr t)); ("from", Some (JStr a)); ("to", Some (JStr b))]
  | DeleteColumn t c => tagged "type" "delete_column" [("table", Some (JStr t)); ("column", Some (JStr c))]
  | ModifyColumnType t c ty f =>
      tagged "type" "modify_column_type" [("table", Some (JStr t)); ("column", Some (JStr c));
                                          ("new_type", Some (e_ctype ty)); ("fill_with", option_map e_map f)]
  | ModifyColumnNullable t c n f =>
      tagged "type" "modify_column_nullable" [("table", Some (JStr t)); ("column", Some (JStr c));
                                              ("nullable", Some (JBool n)); ("fill_with", Some (e_option JStr f))]
  | ModifyColumnDefault t c d =>
      tagged "type" "modify_column_default" [("table", Some (JStr t)); ("column", Some (JStr c));
                                             ("new_default", Some (e_option JStr d))]
  | ModifyColumnComment t c d =>
      tagged "type" "modify_column_comment" [("table", Some (JStr t)); ("column", Some (JStr c));
                                             ("new_comment", Some (e_option JStr d))]
  | AddConstraint t k => tagged "type" "add_constraint" [("table", Some (JStr t)); ("constraint", Some (e_constraint k))]
  | RemoveConstraint t k =>
      tagged "type" "remove_constraint" [("table", Some (JStr t)); ("constraint", Some (e_constraint k))]
  | RenameTable a b => tagged "type" "rename_table" [("from", Some (JStr a)); ("to", Some (JStr b))]
  | RawSql s => tagged "type" "raw_sql" [("sql", Some (JStr s))]
  end.

(* MigrationPlan (action.rs:7-19): id #[serde(default)], comment Option, created_at default Option *)
Definition plan_fields : fields :=
  [("id", Dflt); ("comment", Opt); ("created_at", Dflt); ("version", Req); ("actions", Req)].
Definition b_plan (r : row) : option plan :=
  match r with
  | [i; c; t; v; a] =>
      i <- dflt "" d_string i ;; c <- opt d_string c ;; t <- dflt None (d_option d_string) t ;;
      v <- req d_u32 v ;; a <- req (d_vec (d_action FromText)) a ;; Some (mkPlan i c t v a)
  | _ => None
  end.
Definition decode_plan : dec plan := d_struct plan_fields b_plan.
Definition encode_plan (p : plan) : json :=
  JObj (mk_obj [("id", Some (JStr (p_id p))); ("comment", Some (e_option JStr (p_comment p)));
                ("created_at", Some (e_option JStr (p_created_at p)));
                ("version", Some (e_u32 (p_version p)));
                ("actions", Some (JArr (map e_action (p_actions p))))]).

(* ================= which Gallina terms denote Rust values that round-trip ================= *)
(* repr_*: the term denotes a Rust value at all (integer widths; a BTreeMap is in key order);
   the remaining conjuncts exclude exactly the non-injective spots of the encoders:
   EnumValues::Integer(vec![]) and non-finite DefaultValue::Float. *)
Definition repr_u32 (n : N) : bool := N.leb n 4294967295.
Definition im_num (n : num_value) : bool := in_range i32_min i32_max (nv_value n).
Definition im_ev (v : enum_values) : bool :=
  match v with
  | EVString _ => true
  | EVInteger [] => false                       (* encodes as [] = String(vec![]) *)
  | EVInteger l => forallb im_num l
  end.
Definition im_ctype (t : column_type) : bool :=
  match t with
  | TSimple _ | TCustom _ => true
  | TVarchar n | TChar n => repr_u32 n
  | TNumeric p s => (repr_u32 p && repr_u32 s)%bool
  | TEnum _ v => im_ev v
  end.
Definition im_default (d : default_value) : bool :=
  match d with
  | DInt z => in_range i64_min i64_max z
  | DFloat r => negb (float_nonfinite r)        (* NaN / inf encode as null *)
  | _ => true
  end.
Definition im_opt {A} (f : A -> bool) (o : option A) : bool := match o with Some x => f x | None => true end.
Definition im_column (c : column_def) : bool := (im_ctype (c_type c) && im_opt im_default (c_default c))%bool.
Definition im_table (t : table_def) : bool := forallb im_column (t_columns t).
Definition im_map (m : list (string * string)) : bool :=
  dec_b (list_eq_dec (pair_eq_dec string_dec string_dec)) (bt_of_list m) m.
Definition im_action (a : action) : bool :=
  match a with
  | CreateTable _ c _ => forallb im_column c
  | AddColumn _ c _ => im_column c
  | ModifyColumnType _ _ ty f => (im_ctype ty && im_opt im_map f)%bool
  | _ => true
  end.
Definition im_plan (p : plan) : bool := (repr_u32 (p_version p) && forallb im_action (p_actions p))%bool.
