(* M5: JSON values as serde_json sees them.  No proofs here.
   Numbers: serde_json parses an integer literal that fits u64 / i64 into PosInt / NegInt and
   everything else (fraction, exponent, out of range) into f64 (serde_json-1.0.149 de.rs
   parse_integer / parse_number).  [JInt z] stands for the former (so -2^63 <= z < 2^64 in every
   term the harness prints); [JFloat r] for the latter, carried as Rust's f64::to_string()
   rendering r (DESIGN 3.1: float printing is glue).  Objects keep the document's key order and
   may repeat a key (serde sees repeated keys in text). *)
From VV.M1 Require Export Schema.

Inductive json :=
| JNull
| JBool (b : bool)
| JInt (z : Z)
| JFloat (rendered : string)
| JStr (s : string)
| JArr (l : list json)
| JObj (o : list (string * json)).

Definition obj := list (string * json).

Fixpoint json_eqb (a b : json) {struct a} : bool :=
  match a, b with
  | JNull, JNull => true
  | JBool x, JBool y => Bool.eqb x y
  | JInt x, JInt y => Z.eqb x y
  | JFloat x, JFloat y => String.eqb x y
  | JStr x, JStr y => String.eqb x y
  | JArr x, JArr y =>
      (fix go (x y : list json) {struct x} : bool :=
         match x, y with
         | [], [] => true
         | a :: x', b :: y' => json_eqb a b && go x' y'
         | _, _ => false
         end) x y
  | JObj x, JObj y =>
      (fix go (x y : list (string * json)) {struct x} : bool :=
         match x, y with
         | [], [] => true
         | (k, a) :: x', (k', b) :: y' => String.eqb k k' && json_eqb a b && go x' y'
         | _, _ => false
         end) x y
  | _, _ => false
  end.

(* first value stored under a key / number of occurrences / all other members *)
Fixpoint assoc_j (k : string) (o : obj) : option json :=
  match o with
  | [] => None
  | (k', v) :: r => if String.eqb k k' then Some v else assoc_j k r
  end.
Fixpoint count_key (k : string) (o : obj) : nat :=
  match o with
  | [] => O
  | (k', _) :: r => if String.eqb k k' then S (count_key k r) else count_key k r
  end.
Fixpoint remove_key (k : string) (o : obj) : obj :=
  match o with
  | [] => []
  | (k', v) :: r => if String.eqb k k' then remove_key k r else (k', v) :: remove_key k r
  end.

Fixpoint map_opt {A B} (f : A -> option B) (l : list A) : option (list B) :=
  match l with
  | [] => Some []
  | x :: r => match f x with
              | None => None
              | Some y => match map_opt f r with None => None | Some ys => Some (y :: ys) end
              end
  end.

(* what a serializer emits for a struct: fields in declaration order, [None] = skipped by
   skip_serializing_if *)
Fixpoint mk_obj (l : list (string * option json)) : obj :=
  match l with
  | [] => []
  | (k, Some j) :: r => (k, j) :: mk_obj r
  | (_, None) :: r => mk_obj r
  end.

Fixpoint nodupb (l : list string) : bool :=
  match l with
  | [] => true
  | x :: r => negb (mem_str x r) && nodupb r
  end.

(* an f64 rendering (Rust Display never uses an exponent) denotes an integral number iff it is
   an optional '-' followed by digits only *)
Definition is_digit (a : ascii) : bool := let n := N_of_ascii a in (N.leb 48 n && N.leb n 57)%bool.
Fixpoint all_digits (s : string) : bool :=
  match s with EmptyString => true | String a r => is_digit a && all_digits r end.
Definition float_is_integral (r : string) : bool :=
  match r with
  | EmptyString => false
  | String "-"%char (String a t) => all_digits (String a t)
  | String a t => all_digits (String a t)
  end.
Definition float_nonfinite (r : string) : bool :=
  (String.eqb r "NaN" || String.eqb r "inf" || String.eqb r "-inf")%bool.
