(* M5: the JSON Schema (draft 2020-12) subset that schemars 1.2 emits for the vespertide types, and
   its validation relation.  No proofs here.
   Keywords: type, properties, required, items, additionalProperties, anyOf, oneOf, enum, const,
   $ref (into $defs), minimum; format and default are annotations (carried, compared by
   jschema_eqb, ignored by validation); title / description / $schema are dropped by the translator
   (tools/schema2coq.py).
   Validation follows the specification on *parsed* documents: for an object with a repeated key the
   last occurrence counts (what every validator working on a parsed map sees); "integer" accepts an
   integral float (1.0), as the specification says.
   $ref makes the recursion non-structural: explicit fuel, [None] = out of fuel; conjunctions and
   anyOf are three-valued (strong Kleene): a definite verdict of one operand decides. *)
From VV.SERDE Require Export Json.

Inductive jtype := TyNull | TyBoolean | TyInteger | TyNumber | TyString | TyArray | TyObject.

Inductive jschema :=
| STrue                                     (* the schema `true` / {} *)
| SFalse
| Sch (ty : option (list jtype))
      (props : list (string * jschema))
      (required : list string)
      (items : option jschema)
      (addl : option jschema)               (* additionalProperties *)
      (anyof : option (list jschema))
      (oneof : option (list jschema))
      (enum : option (list json))
      (const : option json)
      (ref : option string)                 (* "#/$defs/<name>" carried as <name> *)
      (minimum : option Z)
      (format : option string)              (* annotation *)
      (default : option json).              (* annotation *)

Definition defs := list (string * jschema).
Record schema_doc := mkDoc { sd_root : jschema; sd_defs : defs }.

Definition jtype_eqb (a b : jtype) : bool :=
  match a, b with
  | TyNull, TyNull | TyBoolean, TyBoolean | TyInteger, TyInteger | TyNumber, TyNumber
  | TyString, TyString | TyArray, TyArray | TyObject, TyObject => true
  | _, _ => false
  end.

Definition opt_eqb_with {A} (f : A -> A -> bool) (a b : option A) : bool :=
  match a, b with
  | None, None => true
  | Some x, Some y => f x y
  | _, _ => false
  end.

(* structural equality, annotations included *)
Fixpoint jschema_eqb (a b : jschema) {struct a} : bool :=
  match a, b with
  | STrue, STrue => true
  | SFalse, SFalse => true
  | Sch ty1 p1 r1 i1 ad1 an1 on1 en1 c1 rf1 m1 f1 d1, Sch ty2 p2 r2 i2 ad2 an2 on2 en2 c2 rf2 m2 f2 d2 =>
      opt_eqb_with (list_eqb jtype_eqb) ty1 ty2
      && (fix go (x y : list (string * jschema)) {struct x} : bool :=
            match x, y with
            | [], [] => true
            | (k, s) :: x', (k', s') :: y' => String.eqb k k' && jschema_eqb s s' && go x' y'
            | _, _ => false
            end) p1 p2
      && list_eqb String.eqb r1 r2
      && match i1, i2 with None, None => true | Some x, Some y => jschema_eqb x y | _, _ => false end
      && match ad1, ad2 with None, None => true | Some x, Some y => jschema_eqb x y | _, _ => false end
      && match an1, an2 with
         | None, None => true
         | Some x, Some y =>
             (fix go (x y : list jschema) {struct x} : bool :=
                match x, y with
                | [], [] => true
                | s :: x', s' :: y' => jschema_eqb s s' && go x' y'
                | _, _ => false
                end) x y
         | _, _ => false
         end
      && match on1, on2 with
         | None, None => true
         | Some x, Some y =>
             (fix go (x y : list jschema) {struct x} : bool :=
                match x, y with
                | [], [] => true
                | s :: x', s' :: y' => jschema_eqb s s' && go x' y'
                | _, _ => false
                end) x y
         | _, _ => false
         end
      && opt_eqb_with (list_eqb json_eqb) en1 en2
      && opt_eqb_with json_eqb c1 c2
      && opt_eqb_with String.eqb rf1 rf2
      && opt_eqb_with Z.eqb m1 m2
      && opt_eqb_with String.eqb f1 f2
      && opt_eqb_with json_eqb d1 d2
  | _, _ => false
  end.

Fixpoint defs_eqb (a b : defs) : bool :=
  match a, b with
  | [], [] => true
  | (k, s) :: a', (k', s') :: b' => String.eqb k k' && jschema_eqb s s' && defs_eqb a' b'
  | _, _ => false
  end.
Definition doc_eqb (a b : schema_doc) : bool :=
  (jschema_eqb (sd_root a) (sd_root b) && defs_eqb (sd_defs a) (sd_defs b))%bool.

(* where two documents differ (for the finding report): added (+) / removed (-) / changed (~) members of
   `properties` and `$defs`; a changed definition that is a oneOf on both sides is opened one level:
   the differing alternatives by position, and inside them the added / removed / changed properties *)
Fixpoint defs_diff (a b : defs) : list string :=
  match a with
  | [] => map (fun kv => "+" +++ fst kv) b
  | (k, s) :: a' =>
      match find (fun kv => String.eqb (fst kv) k) b with
      | Some (_, s') =>
          (if jschema_eqb s s' then [] else ["~" +++ k])
          ++ defs_diff a' (filter (fun kv => negb (String.eqb (fst kv) k)) b)
      | None => ("-" +++ k) :: defs_diff a' b
      end
  end.
Definition props_of (s : jschema) : defs :=
  match s with Sch _ p _ _ _ _ _ _ _ _ _ _ _ => p | _ => [] end.
Definition oneof_of (s : jschema) : option (list jschema) :=
  match s with Sch _ _ _ _ _ _ o _ _ _ _ _ _ => o | _ => None end.
Fixpoint alts_diff (i : nat) (a b : list jschema) : list string :=
  match a, b with
  | [], [] => []
  | x :: a', y :: b' =>
      (if jschema_eqb x y then []
       else map (fun d => "oneOf/" +++ N_to_string (N.of_nat i) +++ "/properties:" +++ d) (defs_diff (props_of x) (props_of y)))
      ++ alts_diff (S i) a' b'
  | _, _ => ["oneOf:length"]
  end.
Definition open_def (a b : defs) (k : string) : list string :=
  match find (fun kv => String.eqb (fst kv) k) a, find (fun kv => String.eqb (fst kv) k) b with
  | Some (_, x), Some (_, y) =>
      match oneof_of x, oneof_of y with
      | Some ax, Some ay => map (fun d => k +++ "/" +++ d) (alts_diff 0 ax ay)
      | _, _ => []
      end
  | _, _ => []
  end.
Definition doc_diff (shipped generated : schema_doc) : list string :=
  map (fun x => "properties:" +++ x) (defs_diff (props_of (sd_root shipped)) (props_of (sd_root generated)))
  ++ (if list_eqb String.eqb (match sd_root shipped with Sch _ _ r _ _ _ _ _ _ _ _ _ _ => r | _ => [] end)
                             (match sd_root generated with Sch _ _ r _ _ _ _ _ _ _ _ _ _ => r | _ => [] end)
      then [] else ["required"])
  ++ flat_map (fun d => ("$defs:" +++ d)
                        :: match d with
                           | String "~"%char k => map (fun x => "$defs:" +++ x) (open_def (sd_defs shipped) (sd_defs generated) k)
                           | _ => []
                           end)
              (defs_diff (sd_defs shipped) (sd_defs generated)).

(* ---------- validation ---------- *)
Definition has_type (t : jtype) (j : json) : bool :=
  match t, j with
  | TyNull, JNull => true
  | TyBoolean, JBool _ => true
  | TyInteger, JInt _ => true
  | TyInteger, JFloat r => float_is_integral r
  | TyNumber, JInt _ => true
  | TyNumber, JFloat _ => true
  | TyString, JStr _ => true
  | TyArray, JArr _ => true
  | TyObject, JObj _ => true
  | _, _ => false
  end.

(* last occurrence of a key (parsed-map view) *)
Definition last_j (k : string) (o : obj) : option json := assoc_j k (rev o).

Fixpoint digits_to_N (s : string) (acc : N) : N :=
  match s with
  | EmptyString => acc
  | String a r => digits_to_N r (acc * 10 + (N_of_ascii a - 48))
  end.
(* numeric lower bound; for a non-integral float only the sign is looked at, which is exact for the
   only bound schemars emits here (minimum: 0) *)
Definition ge_min (m : Z) (j : json) : bool :=
  match j with
  | JInt z => Z.leb m z
  | JFloat r =>
      match r with
      | String "-"%char t =>
          if float_is_integral r then Z.leb m (- Z.of_N (digits_to_N t 0)) else Z.leb m (-1)
      | _ => if float_is_integral r then Z.leb m (Z.of_N (digits_to_N r 0)) else Z.leb m 0
      end
  | _ => true
  end.

(* three-valued (strong Kleene) connectives: a definite `false` conjunct / `true` disjunct decides,
   whatever the other operand is (None = out of fuel).  The second operand is inspected first so that a
   verdict found late in a list does not depend on the evaluation of earlier elements. *)
Definition and_o (a b : option bool) : option bool :=
  match b with
  | Some false => Some false
  | _ => match a with
         | Some false => Some false
         | Some true => b
         | None => None
         end
  end.
Definition or_o (a b : option bool) : option bool :=
  match b with
  | Some true => Some true
  | _ => match a with
         | Some true => Some true
         | Some false => b
         | None => None
         end
  end.
Fixpoint all_o {A} (f : A -> option bool) (l : list A) : option bool :=
  match l with [] => Some true | x :: r => and_o (f x) (all_o f r) end.
Fixpoint any_o {A} (f : A -> option bool) (l : list A) : option bool :=
  match l with [] => Some false | x :: r => or_o (f x) (any_o f r) end.
(* oneOf needs every alternative's verdict *)
Fixpoint count_o {A} (f : A -> option bool) (l : list A) : option nat :=
  match l with
  | [] => Some O
  | x :: r => match f x, count_o f r with
              | Some true, Some n => Some (S n)
              | Some false, Some n => Some n
              | _, _ => None
              end
  end.

Fixpoint valid_f (fuel : nat) (ds : defs) (s : jschema) (j : json) {struct fuel} : option bool :=
  match fuel with
  | O => None
  | S f =>
      match s with
      | STrue => Some true
      | SFalse => Some false
      | Sch ty props required items addl anyof oneof enum const ref minimum _ _ =>
          and_o (Some (match ty with None => true | Some ts => existsb (fun t => has_type t j) ts end))
         (and_o (match j with
                 | JObj o =>
                     and_o (Some (forallb (fun r => match last_j r o with Some _ => true | None => false end) required))
                    (and_o (all_o (fun ps => match last_j (fst ps) o with
                                             | Some v => valid_f f ds (snd ps) v
                                             | None => Some true
                                             end) props)
                           (match addl with
                            | None => Some true
                            | Some a => all_o (fun kv => if existsb (fun ps => String.eqb (fst ps) (fst kv)) props
                                                         then Some true
                                                         else match last_j (fst kv) o with
                                                              | Some v => valid_f f ds a v
                                                              | None => Some true
                                                              end) o
                            end))
                 | JArr l => match items with None => Some true | Some it => all_o (valid_f f ds it) l end
                 | _ => Some true
                 end)
         (and_o (match anyof with
                 | None => Some true
                 | Some l => any_o (fun a => valid_f f ds a j) l
                 end)
         (and_o (match oneof with
                 | None => Some true
                 | Some l => match count_o (fun a => valid_f f ds a j) l with
                             | Some n => Some (Nat.eqb n 1) | None => None end
                 end)
         (and_o (Some (match enum with None => true | Some vs => existsb (json_eqb j) vs end))
         (and_o (Some (match const with None => true | Some v => json_eqb j v end))
         (and_o (match ref with
                 | None => Some true
                 | Some name => match find (fun kv => String.eqb (fst kv) name) ds with
                                | Some (_, t) => valid_f f ds t j
                                | None => Some false          (* dangling $ref *)
                                end
                 end)
                (Some (match minimum with None => true | Some m => ge_min m j end))))))))
      end
  end.

(* enough for every document the generators produce; out of fuel is reported, never hidden *)
Definition VALID_FUEL : nat := 64.
Definition valid (d : schema_doc) (j : json) : option bool := valid_f VALID_FUEL (sd_defs d) (sd_root d) j.
