(* M5: VespertideConfig / SeaOrmConfig (vespertide-config/src/config.rs:14-114), rename_all =
   "camelCase"; FileFormat rename_all = "lowercase"; NameCase rename_all = "snake_case".
   PathBuf is serialised as a string (serde impls for Path; the generators only build UTF-8 paths).
   No proofs here. *)
From VV.SERDE Require Export Serde.

Inductive name_case := NCSnake | NCCamel | NCPascal.
Inductive file_format := FFJson | FFYaml | FFYml.
Record seaorm_config := mkSeaOrm {
  so_extra_enum_derives : list string;
  so_extra_model_derives : list string;
  so_enum_naming_case : name_case;
  so_vespera_schema_type : bool }.
Record vconfig := mkConfig {
  cf_models_dir : string;
  cf_migrations_dir : string;
  cf_table_naming_case : name_case;
  cf_column_naming_case : name_case;
  cf_model_format : file_format;
  cf_migration_format : file_format;
  cf_migration_filename_pattern : string;
  cf_model_export_dir : string;
  cf_seaorm : seaorm_config;
  cf_prefix : string }.

Definition name_case_eq_dec (x y : name_case) : {x = y} + {x <> y}. Proof. decide equality. Defined.
Definition file_format_eq_dec (x y : file_format) : {x = y} + {x <> y}. Proof. decide equality. Defined.
Definition seaorm_eq_dec (x y : seaorm_config) : {x = y} + {x <> y}.
Proof. decide equality; auto using bool_dec, name_case_eq_dec; apply list_eq_dec, string_dec. Defined.
Definition vconfig_eq_dec (x y : vconfig) : {x = y} + {x <> y}.
Proof. decide equality; auto using string_dec, name_case_eq_dec, file_format_eq_dec, seaorm_eq_dec. Defined.

Definition name_case_name (n : name_case) : string :=
  match n with NCSnake => "snake" | NCCamel => "camel" | NCPascal => "pascal" end.
Definition name_case_table := map (fun n => (name_case_name n, n)) [NCSnake; NCCamel; NCPascal].
Definition e_name_case (n : name_case) : json := JStr (name_case_name n).
Definition d_name_case : dec name_case := d_unit_enum false name_case_table.
Definition file_format_name (f : file_format) : string :=
  match f with FFJson => "json" | FFYaml => "yaml" | FFYml => "yml" end.
Definition file_format_table := map (fun f => (file_format_name f, f)) [FFJson; FFYaml; FFYml].
Definition e_file_format (f : file_format) : json := JStr (file_format_name f).
Definition d_file_format : dec file_format := d_unit_enum false file_format_table.

(* defaults (config.rs:36-57, 116-135) *)
Definition default_seaorm : seaorm_config := mkSeaOrm ["vespera::Schema"] [] NCCamel true.
Definition default_config : vconfig :=
  mkConfig "models" "migrations" NCSnake NCSnake FFJson FFJson "%04v_%m" "src/models" default_seaorm "".

Definition seaorm_fields : fields :=
  [("extraEnumDerives", Dflt); ("extraModelDerives", Dflt); ("enumNamingCase", Dflt); ("vesperaSchemaType", Dflt)].
Definition b_seaorm (r : row) : option seaorm_config :=
  match r with
  | [a; b; c; d] =>
      a <- dflt ["vespera::Schema"] (d_vec d_string) a ;; b <- dflt [] (d_vec d_string) b ;;
      c <- dflt NCCamel d_name_case c ;; d <- dflt true d_bool d ;; Some (mkSeaOrm a b c d)
  | _ => None
  end.
Definition d_seaorm : dec seaorm_config := d_struct seaorm_fields b_seaorm.
Definition e_seaorm (s : seaorm_config) : json :=
  JObj (mk_obj [("extraEnumDerives", Some (e_strs (so_extra_enum_derives s)));
                ("extraModelDerives", Some (e_strs (so_extra_model_derives s)));
                ("enumNamingCase", Some (e_name_case (so_enum_naming_case s)));
                ("vesperaSchemaType", Some (JBool (so_vespera_schema_type s)))]).

Definition config_fields : fields :=
  [("modelsDir", Req); ("migrationsDir", Req); ("tableNamingCase", Req); ("columnNamingCase", Req);
   ("modelFormat", Dflt); ("migrationFormat", Dflt); ("migrationFilenamePattern", Dflt);
   ("modelExportDir", Dflt); ("seaorm", Dflt); ("prefix", Dflt)].
Definition b_config (r : row) : option vconfig :=
  match r with
  | [a; b; c; d; e; f; g; h; i; k] =>
      a <- req d_string a ;; b <- req d_string b ;; c <- req d_name_case c ;; d <- req d_name_case d ;;
      e <- dflt FFJson d_file_format e ;; f <- dflt FFJson d_file_format f ;;
      g <- dflt "%04v_%m" d_string g ;; h <- dflt "src/models" d_string h ;;
      i <- dflt default_seaorm d_seaorm i ;; k <- dflt "" d_string k ;;
      Some (mkConfig a b c d e f g h i k)
  | _ => None
  end.
Definition decode_config : dec vconfig := d_struct config_fields b_config.
Definition encode_config (c : vconfig) : json :=
  JObj (mk_obj [("modelsDir", Some (JStr (cf_models_dir c))); ("migrationsDir", Some (JStr (cf_migrations_dir c)));
                ("tableNamingCase", Some (e_name_case (cf_table_naming_case c)));
                ("columnNamingCase", Some (e_name_case (cf_column_naming_case c)));
                ("modelFormat", Some (e_file_format (cf_model_format c)));
                ("migrationFormat", Some (e_file_format (cf_migration_format c)));
                ("migrationFilenamePattern", Some (JStr (cf_migration_filename_pattern c)));
                ("modelExportDir", Some (JStr (cf_model_export_dir c)));
                ("seaorm", Some (e_seaorm (cf_seaorm c))); ("prefix", Some (JStr (cf_prefix c)))]).
