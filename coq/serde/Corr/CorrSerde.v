(* K-serde: the harness (harness_serde/hserde) prints values, the JSON serde_json produced for them,
   what serde_json parsed back, mutated documents with serde's verdict, and revision write/validate
   outcomes; [check_case] recomputes each with the model and returns the ids of differing sub-checks.
   No proofs here. *)
From VV.M1 Require Export Validate Revision.
From VV.SERDE Require Export Serde Config.

(* serde_json::to_value builds a BTreeMap-backed Map (no preserve_order): keys sorted bytewise,
   later duplicate wins; the CLI writers then insert "$schema" (revision.rs:478-488) *)
Fixpoint canon (j : json) : json :=
  match j with
  | JArr l => JArr (map canon l)
  | JObj o => JObj (bt_of_list ((fix go (o : list (string * json)) : list (string * json) :=
                                   match o with [] => [] | (k, v) :: r => (k, canon v) :: go r end) o))
  | other => other
  end.
Definition file_form (url : string) (j : json) : json :=
  match canon j with
  | JObj o => JObj (bt_insert "$schema" (JStr url) o)
  | other => other
  end.
Definition schema_url : string :=
  "https://raw.githubusercontent.com/dev-five-git/vespertide/refs/heads/main/schemas/migration.schema.json".

Inductive scase :=
| RtTable (v : table_def) (j1 : json) (b1 : option table_def) (j2 : json) (b2 : option table_def)
| RtPlan (v : plan) (j1 : json) (b1 : option plan) (j2 : json) (b2 : option plan)
| RtConfig (v : vconfig) (j1 : json) (b1 : option vconfig) (j2 : json) (b2 : option vconfig)
| MutTable (j : json) (r : option table_def)
| MutPlan (j : json) (r : option plan)
| MutConfig (j : json) (r : option vconfig)
| Rev (np : plan) (baseline : schema) (filled : fill_outcome) (valid : result unit validate_error)
| ValPlan (p : plan) (valid : result unit validate_error).     (* the loader's validate_migration_plan on any plan *)

Definition opt_eqb {A} (d : forall x y : A, {x = y} + {x <> y}) (a b : option A) : bool :=
  dec_b (option_eq_dec d) a b.
Definition validate_error_eq_dec (x y : validate_error) : {x = y} + {x <> y}.
Proof. decide equality; auto using string_dec, Z.eq_dec. Defined.
Definition fill_outcome_eq_dec (x y : fill_outcome) : {x = y} + {x <> y}.
Proof. decide equality; apply list_eq_dec, action_eq_dec. Defined.
Definition vres_eqb (a b : result unit validate_error) : bool :=
  match a, b with
  | Ok _, Ok _ => true
  | Err x, Err y => dec_b validate_error_eq_dec x y
  | _, _ => false
  end.

Definition rt_checks {A} (d : forall x y : A, {x = y} + {x <> y}) (enc : A -> json) (dc : dec A)
  (v : A) (j1 : json) (b1 : option A) (j2 : json) (b2 : option A) : list nat :=
  (if json_eqb (enc v) j1 then [] else [1%nat])
  ++ (if opt_eqb d (dc j1) b1 then [] else [2%nat])
  ++ (if json_eqb (file_form schema_url (enc v)) j2 then [] else [3%nat])
  ++ (if opt_eqb d (dc j2) b2 then [] else [4%nat]).

(* the plan `revision` writes: filled actions (id / comment / created_at do not matter to validation) *)
Definition written_of (np : plan) (baseline : schema) : option plan :=
  match revision_fill np baseline with
  | Filled acts => Some (mkPlan "" None None (p_version np) acts)
  | Refused => None
  end.

Definition check_case (c : scase) : list nat :=
  match c with
  | RtTable v j1 b1 j2 b2 => rt_checks table_def_eq_dec encode_table decode_table v j1 b1 j2 b2
  | RtPlan v j1 b1 j2 b2 => rt_checks plan_eq_dec encode_plan decode_plan v j1 b1 j2 b2
  | RtConfig v j1 b1 j2 b2 => rt_checks vconfig_eq_dec encode_config decode_config v j1 b1 j2 b2
  | MutTable j r => if opt_eqb table_def_eq_dec (decode_table j) r then [] else [5%nat]
  | MutPlan j r => if opt_eqb plan_eq_dec (decode_plan j) r then [] else [5%nat]
  | MutConfig j r => if opt_eqb vconfig_eq_dec (decode_config j) r then [] else [5%nat]
  | Rev np baseline filled valid =>
      (if dec_b fill_outcome_eq_dec (revision_fill np baseline) filled then [] else [6%nat])
      ++ (match written_of np baseline with
          | Some w => if vres_eqb (validate_migration_plan w) valid then [] else [7%nat]
          | None => []
          end)
  | ValPlan p valid => if vres_eqb (validate_migration_plan p) valid then [] else [8%nat]
  end.

Fixpoint mismatches_from (i : nat) (cs : list scase) : list (nat * list nat) :=
  match cs with
  | [] => []
  | c :: r => match check_case c with
              | [] => mismatches_from (S i) r
              | l => (i, l) :: mismatches_from (S i) r
              end
  end.

(* ---------- classifiers of the known classes (the negated hypotheses of the C12 theorems) ---------- *)
(* the shape of the former finding D6 (repaired by /repo 446c8b4, kept for coverage statistics):
   a ModifyColumnNullable{nullable:false, fill_with:None} whose column has a default in the
   baseline: before the repair the writer left fill_with empty (validate.rs:513-516) and the reader
   rejected it (validate.rs:420-423); now revision_fill's default_as_fill supplies the default *)
Definition known_C12_nullable_default (np : plan) (baseline : schema) : bool :=
  existsb (fun a => match a with
                    | ModifyColumnNullable t c false None =>
                        match lookup_col baseline t c with
                        | Some col => match c_default col with Some _ => true | None => false end
                        | None => false
                        end
                    | _ => false
                    end) (p_actions np).

Definition ev_empty_int (v : enum_values) : bool := match v with EVInteger [] => true | _ => false end.
Definition ctype_empty_int (t : column_type) : bool := match t with TEnum _ v => ev_empty_int v | _ => false end.
Definition default_nonfinite (d : option default_value) : bool :=
  match d with Some (DFloat r) => float_nonfinite r | _ => false end.
Definition col_any (f : column_def -> bool) (a : action) : bool :=
  match a with
  | CreateTable _ cs _ => existsb f cs
  | AddColumn _ c _ => f c
  | _ => false
  end.
Definition known_C12_empty_int_enum_table (t : table_def) : bool :=
  existsb (fun c => ctype_empty_int (c_type c)) (t_columns t).
Definition known_C12_nonfinite_default_table (t : table_def) : bool :=
  existsb (fun c => default_nonfinite (c_default c)) (t_columns t).
Definition known_C12_empty_int_enum_plan (p : plan) : bool :=
  existsb (fun a => (col_any (fun c => ctype_empty_int (c_type c)) a
                     || match a with ModifyColumnType _ _ ty _ => ctype_empty_int ty | _ => false end)%bool)
          (p_actions p).
Definition known_C12_nonfinite_default_plan (p : plan) : bool :=
  existsb (col_any (fun c => default_nonfinite (c_default c))) (p_actions p).

(* class bits of a case: [D6; empty integer enum; non-finite float default; in_image] *)
Definition classes (c : scase) : list bool :=
  match c with
  | RtTable v _ _ _ _ => [false; known_C12_empty_int_enum_table v; known_C12_nonfinite_default_table v; im_table v]
  | RtPlan v _ _ _ _ => [false; known_C12_empty_int_enum_plan v; known_C12_nonfinite_default_plan v; im_plan v]
  | RtConfig _ _ _ _ _ => [false; false; false; true]
  | Rev np b _ _ => [known_C12_nullable_default np b; false; false; true]
  | _ => [false; false; false; false]
  end.
Fixpoint classes_from (i : nat) (cs : list scase) : list (nat * list bool) :=
  match cs with
  | [] => []
  | c :: r => (i, classes c) :: classes_from (S i) r
  end.
