(* K-schema / O-C15 support: the documents of a K-serde case, the model's schema verdicts on them
   (compared inside Coq with python-jsonschema's verdicts), and the classifier of the known class
   "fails to parse only because of integer widths / integral floats / repeated members".
   No proofs here. *)
From VV.SERDE Require Export CorrSerde SchemaOf SchemaStrict.

Inductive dkind := DTable | DPlan | DConfig.

Definition case_docs (c : scase) : list (dkind * json) :=
  match c with
  | RtTable _ j1 _ j2 _ => [(DTable, j1); (DTable, j2)]
  | RtPlan _ j1 _ j2 _ => [(DPlan, j1); (DPlan, j2)]
  | RtConfig _ j1 _ j2 _ => [(DConfig, j1); (DConfig, j2)]
  | MutTable j _ => [(DTable, j)]
  | MutPlan j _ => [(DPlan, j)]
  | MutConfig j _ => [(DConfig, j)]
  | Rev _ _ _ _ => []
  | ValPlan _ _ => []
  end.

Definition is_some {A} (o : option A) : bool := match o with Some _ => true | None => false end.
Definition decodes (k : dkind) (j : json) : bool :=
  match k with
  | DTable => is_some (decode_table j)
  | DPlan => is_some (decode_plan j)
  | DConfig => is_some (decode_config j)
  end.

(* numbers tamed to what every Rust integer width holds, repeated members dropped (first kept) *)
Fixpoint tame (j : json) : json :=
  match j with
  | JInt z => if in_range i32_min i32_max z then JInt z else JInt 0
  | JFloat r => if float_is_integral r then JInt 0 else JFloat r
  | JArr l => JArr (map tame l)
  | JObj o =>
      JObj ((fix go (o : list (string * json)) (seen : list string) : list (string * json) :=
               match o with
               | [] => []
               | (k, v) :: r => if mem_str k seen then go r seen else (k, tame v) :: go r (k :: seen)
               end) o [])
  | other => other
  end.
(* `bounded` of DESIGN C15 is the complement: the document parses as soon as its numbers fit *)
Definition known_C15_unbounded (k : dkind) (j : json) : bool :=
  (negb (decodes k j) && decodes k (tame j))%bool.

Definition ob_eqb (a : option bool) (b : bool) : bool :=
  match a with Some x => Bool.eqb x b | None => false end.

Fixpoint forall2b {A B} (f : A -> B -> bool) (a : list A) (b : list B) : bool :=
  match a, b with
  | [], [] => true
  | x :: a', y :: b' => f x y && forall2b f a' b'
  | _, _ => false
  end.

Section WithSchemas.
  Variable shipped generated : dkind -> schema_doc.
  (* expectation per document: (python-jsonschema verdict under the shipped schema, under the generated one) *)
  Definition check_docs (c : scase) (e : list (bool * bool)) : bool :=
    forall2b (fun d x => (ob_eqb (valid (shipped (fst d)) (snd d)) (fst x)
                          && ob_eqb (valid (generated (fst d)) (snd d)) (snd x))%bool)
             (case_docs c) e.
  Fixpoint schema_mismatches (i : nat) (cs : list scase) (es : list (list (bool * bool))) : list nat :=
    match cs, es with
    | c :: cr, e :: er => (if check_docs c e then [] else [i]) ++ schema_mismatches (S i) cr er
    | [], [] => []
    | _, _ => [i]           (* length mismatch is reported, not ignored *)
    end.
End WithSchemas.

Definition unbounded_bits (cs : list scase) : list (list bool) :=
  map (fun c => map (fun d => known_C15_unbounded (fst d) (snd d)) (case_docs c)) cs.

(* free-standing documents (python-made schema-valid mutants): model verdicts *)
Definition doc_bits (shipped : dkind -> schema_doc) (d : dkind * json) : list bool :=
  [decodes (fst d) (snd d); known_C15_unbounded (fst d) (snd d); ob_eqb (valid (shipped (fst d)) (snd d)) true].

(* theorem coverage of a document: [schema-valid; under the hypotheses of decode_of_valid (no repeated member,
   strictly valid); accepted by the parser model] *)
Definition cov_bits (shipped : dkind -> schema_doc) (d : dkind * json) : list bool :=
  [ob_eqb (valid (shipped (fst d)) (snd d)) true; strictly_valid (shipped (fst d)) (snd d); decodes (fst d) (snd d)].
Definition cov_cases (shipped : dkind -> schema_doc) (cs : list scase) : list (list (list bool)) :=
  map (fun c => map (cov_bits shipped) (case_docs c)) cs.
