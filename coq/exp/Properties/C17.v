(* C17 — exported ORM code is well-formed and mirrors the model.
   Pinned statements only: each theorem is closed by [exact] of a lemma proved in Proofs/.
   The theorems speak about the SeaORM *declarations* [members] (tied to the real exporter by K-exp on every
   run).  The Python half of the property ("syntactically valid, imports cover every name") is decided by the
   ast-based oracle only: C17 is partial there. *)
From VV.EXP Require Import Imports Names PyClass ImportsP NamesP UniqueP PyClassP.

Theorem C17_unique_name_fresh : forall base used n, unique_name base used = Some n -> mem_str n used = false.
Proof. exact unique_name_fresh. Qed.
Print Assumptions C17_unique_name_fresh.
Check C17_unique_name_fresh : forall base used n, unique_name base used = Some n -> mem_str n used = false.

(* the `while used.contains(&name)` loop always ends: handing out names never diverges *)
Theorem C17_unique_name_total : forall base used, exists n, unique_name base used = Some n.
Proof. exact unique_name_total. Qed.
Print Assumptions C17_unique_name_total.
Check C17_unique_name_total : forall base used, exists n, unique_name base used = Some n.

Theorem C17_relation_fields_distinct : forall fuel s t rels,
  relation_members fuel s t = Ok rels -> NoDup (map member_name rels).
Proof. exact relation_fields_distinct. Qed.
Print Assumptions C17_relation_fields_distinct.
Check C17_relation_fields_distinct : forall fuel s t rels,
  relation_members fuel s t = Ok rels -> NoDup (map member_name rels).

Theorem C17_columns_once : forall fuel s t d,
  members_fuel fuel s t = Ok d ->
  filter is_col_member (d_members d)
  = map (fun c => MCol (sanitize_field_name (c_name c)) (rust_base_type (c_type c)) (c_nullable c)
                       (mem_str (c_name c) (primary_key_columns t))) (t_columns t).
Proof. exact columns_once. Qed.
Print Assumptions C17_columns_once.
Check C17_columns_once : forall fuel s t d,
  members_fuel fuel s t = Ok d ->
  filter is_col_member (d_members d)
  = map (fun c => MCol (sanitize_field_name (c_name c)) (rust_base_type (c_type c)) (c_nullable c)
                       (mem_str (c_name c) (primary_key_columns t))) (t_columns t).

(* D14: `used` starts empty, so a column and a relation field can share a name *)
Theorem C17_members_clash_refuted :
  exists s t d, members s t = Ok d /\ ~ NoDup (map member_name (d_members d)).
Proof. exact members_clash_refuted. Qed.
Print Assumptions C17_members_clash_refuted.
Check C17_members_clash_refuted :
  exists s t d, members s t = Ok d /\ ~ NoDup (map member_name (d_members d)).

Theorem C17_members_distinct_outside_known : forall s t d,
  known_C17_clash s t = false -> members s t = Ok d ->
  NoDup (map member_name (d_members d))
  /\ NoDup (flat_map member_relation_enum (d_members d))
  /\ NoDup (map fst (d_enums d))
  /\ (forall e, In e (d_enums d) -> NoDup (snd e)).
Proof. exact members_distinct_outside_known. Qed.
Print Assumptions C17_members_distinct_outside_known.
Check C17_members_distinct_outside_known : forall s t d,
  known_C17_clash s t = false -> members s t = Ok d ->
  NoDup (map member_name (d_members d))
  /\ NoDup (flat_map member_relation_enum (d_members d))
  /\ NoDup (map fst (d_enums d))
  /\ (forall e, In e (d_enums d) -> NoDup (snd e)).

Theorem C17_refs_exist : forall s t d,
  fk_closed s = true -> In t s -> members s t = Ok d ->
  forall m e, In m (d_members d) -> In e (member_entity m) -> table_exists s e = true.
Proof. exact refs_exist. Qed.
Print Assumptions C17_refs_exist.
Check C17_refs_exist : forall s t d,
  fk_closed s = true -> In t s -> members s t = Ok d ->
  forall m e, In m (d_members d) -> In e (member_entity m) -> table_exists s e = true.

(* SQLModel (fix e0ae11e): the module imports `text` iff some column renders text("...") — for ALL defaults: the
   helper deciding the import and the if-chain of render_column agree on every string (K-exp ties both to the code:
   sub-check 3 the import block, sub-check 5 the columns that use text) *)
Theorem C17_default_uses_text_spec : forall s, default_uses_text s = kind_is_text (sqlmodel_default_kind s).
Proof. exact default_uses_text_spec. Qed.
Print Assumptions C17_default_uses_text_spec.
Check C17_default_uses_text_spec : forall s, default_uses_text s = kind_is_text (sqlmodel_default_kind s).

Theorem C17_sqlmodel_text_import_iff : forall t,
  sqlmodel_needs_text t = true <-> exists c, In c (t_columns t) /\ sqlmodel_column_uses_text c = true.
Proof. exact sqlmodel_text_import_iff. Qed.
Print Assumptions C17_sqlmodel_text_import_iff.
Check C17_sqlmodel_text_import_iff : forall t,
  sqlmodel_needs_text t = true <-> exists c, In c (t_columns t) /\ sqlmodel_column_uses_text c = true.

Theorem C17_sqlmodel_sa_line_text : forall t,
  sqlmodel_needs_text t = true <-> exists l, sqlmodel_sa_line t = [l] /\ ends_with "text" l = true.
Proof. exact sqlmodel_sa_line_text. Qed.
Print Assumptions C17_sqlmodel_sa_line_text.
Check C17_sqlmodel_sa_line_text : forall t,
  sqlmodel_needs_text t = true <-> exists l, sqlmodel_sa_line t = [l] /\ ends_with "text" l = true.

(* Python ORMs: the annotation of a column is Optional[...] iff the column is nullable, whatever its default or key
   status (K-exp sub-checks 7 / 8 compare the annotation text of every SQLModel / SQLAlchemy field with
   [py_annotation]; the other mirror clauses — keys, foreign keys, unique, index, defaults — are tested by the
   ast-based oracle only) *)
Theorem C17_sqlmodel_optional_iff_nullable : forall c,
  (py_field_optional c = true <-> c_nullable c = true)
  /\ (c_nullable c = true -> starts_with "Optional[" (py_annotation c) = true)
  /\ (is_enum_type (c_type c) = false -> c_nullable c = false -> starts_with "Optional[" (py_annotation c) = false).
Proof. exact sqlmodel_optional_iff_nullable. Qed.
Print Assumptions C17_sqlmodel_optional_iff_nullable.
Check C17_sqlmodel_optional_iff_nullable : forall c,
  (py_field_optional c = true <-> c_nullable c = true)
  /\ (c_nullable c = true -> starts_with "Optional[" (py_annotation c) = true)
  /\ (is_enum_type (c_type c) = false -> c_nullable c = false -> starts_with "Optional[" (py_annotation c) = false).

(* the full-strength statement for the SeaORM declarations (a definition, not a claim): FALSE, see D14 *)
Definition C17_full_statement : Prop :=
  forall s t d, fk_closed s = true -> In t s -> members s t = Ok d ->
    NoDup (map member_name (d_members d))
    /\ NoDup (flat_map member_relation_enum (d_members d))
    /\ NoDup (map fst (d_enums d)) /\ (forall e, In e (d_enums d) -> NoDup (snd e))
    /\ (forall m e, In m (d_members d) -> In e (member_entity m) -> table_exists s e = true).

(* non-vacuity: the hypotheses hold of a slice with a forward and a reverse relation, and the known class is
   inhabited (D14) as well as its complement *)
Example C17_nonvacuous :
  fk_closed [so_user; so_post; so_comment] = true
  /\ known_C17_clash [so_user; so_post; so_comment] so_user = false
  /\ (exists d, members [so_user; so_post; so_comment] so_user = Ok d /\ List.length (d_members d) = 3%nat)
  /\ known_C17_clash [d14_user; d14_post] d14_post = true
  /\ unique_name "user" ["user"; "user_1"] = Some "user_2".
Proof.
  split; [vm_compute; reflexivity|]. split; [vm_compute; reflexivity|].
  split; [eexists; split; vm_compute; reflexivity|]. split; vm_compute; reflexivity.
Qed.
