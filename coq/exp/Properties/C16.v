(* C16 — no loadable project makes any stage panic, overflow the stack or hang.
   Pinned statements only: each theorem is closed by [exact] of a lemma proved in Proofs/.
   What is proved here: the human-readable action descriptions (Display, format_action) and the recursive
   FK-chain resolution of the SeaORM exporter.  Planning, SQL generation and the text rendering of the exporters
   are covered by the PanicSites discharge table and by the oracle O-C16 only (C16 is partial there). *)
From VV.EXP Require Import Display Names SiteTables DisplayP NamesP.

(* D3: Display is NOT total *)
Theorem C16_display_total_refuted : exists a, display a = Panic.
Proof. exact display_total_refuted. Qed.
Print Assumptions C16_display_total_refuted.
Check C16_display_total_refuted : exists a, display a = Panic.

(* exact characterisation of the panicking inputs: a RawSql longer than 50 bytes whose byte 47 is a
   continuation byte *)
Theorem C16_display_panic_iff : forall a, display a = Panic <-> rawsql_ok a = false.
Proof. exact display_panic_iff. Qed.
Print Assumptions C16_display_panic_iff.
Check C16_display_panic_iff : forall a, display a = Panic <-> rawsql_ok a = false.

Theorem C16_display_total : forall a, rawsql_ok a = true -> exists s, display a = Txt s.
Proof. exact display_total. Qed.
Print Assumptions C16_display_total.
Check C16_display_total : forall a, rawsql_ok a = true -> exists s, display a = Txt s.

(* the CLI's own renderer truncates by characters and has no panicking arm *)
Theorem C16_format_action_total : forall a, exists s, format_action a = Txt s.
Proof. exact format_action_total. Qed.
Print Assumptions C16_format_action_total.
Check C16_format_action_total : forall a, exists s, format_action a = Txt s.

(* D15: FK cycles between single columns (accepted by the loader) exhaust every amount of fuel *)
Theorem C16_resolve_fk_terminates_refuted :
  (forall fuel, resolve_fk_target fuel [cyc_a; cyc_b] "b" ["y"] = None)
  /\ (forall fuel, resolve_fk_target fuel [cyc_self] "a" ["x"] = None)
  /\ members [cyc_a; cyc_b] cyc_a = Err XDiverge.
Proof. exact resolve_fk_terminates_refuted. Qed.
Print Assumptions C16_resolve_fk_terminates_refuted.
Check C16_resolve_fk_terminates_refuted :
  (forall fuel, resolve_fk_target fuel [cyc_a; cyc_b] "b" ["y"] = None)
  /\ (forall fuel, resolve_fk_target fuel [cyc_self] "a" ["x"] = None)
  /\ members [cyc_a; cyc_b] cyc_a = Err XDiverge.

(* wherever the walk ends, it ends with the same answer for every larger fuel: the fuelled model and the
   unbounded recursion agree on all terminating inputs.  (partial: that exhausting [resolve_fuel s] implies a
   real cycle — the pigeonhole argument on single-column FK nodes — is argued in Model/Names.v, not proved) *)
Theorem C16_resolve_fk_fuel_mono_partial : forall s fuel rt rcs r,
  resolve_fk_target fuel s rt rcs = Some r -> forall fuel', (fuel <= fuel')%nat -> resolve_fk_target fuel' s rt rcs = Some r.
Proof. exact resolve_fk_fuel_mono. Qed.
Print Assumptions C16_resolve_fk_fuel_mono_partial.
Check C16_resolve_fk_fuel_mono_partial : forall s fuel rt rcs r,
  resolve_fk_target fuel s rt rcs = Some r -> forall fuel', (fuel <= fuel')%nat -> resolve_fk_target fuel' s rt rcs = Some r.

(* the discharge table names exactly these reachable panics *)
Theorem C16_known_panic_sites : known_panic_ids = ["C16-display-rawsql-slice"; "C16-seaorm-fk-cycle"].
Proof. vm_compute. reflexivity. Qed.
Print Assumptions C16_known_panic_sites.
Check C16_known_panic_sites : known_panic_ids = ["C16-display-rawsql-slice"; "C16-seaorm-fk-cycle"].

(* the full-strength statement for the modelled stages (a definition, not a claim): FALSE, see the refutations *)
Definition C16_full_statement : Prop :=
  (forall a, exists s, display a = Txt s)
  /\ (forall s t, exists d, members s t = Ok d).

(* non-vacuity *)
Example C16_nonvacuous :
  rawsql_ok (RawSql "SELECT 1") = true /\ rawsql_ok d3_witness = false
  /\ display (ModifyColumnComment "t" "c" (Some "0123456789012345678901234567890")) = Txt "ModifyColumnComment: t.c -> '012345678901234567890123456...'"
  /\ resolve_fk_target 3 [d14_user; d14_post] "user" ["id"] = Some ("user", ["id"]).
Proof. repeat split; vm_compute; reflexivity. Qed.
