(* C16 — no loadable project makes any stage panic, overflow the stack or hang.
   Pinned statements only: each theorem is closed by [exact] of a lemma proved in Proofs/.
   What is proved here: the human-readable action descriptions (Display, format_action) and the recursive
   FK-chain resolution of the SeaORM exporter.  Planning, SQL generation and the text rendering of the exporters
   are covered by the PanicSites discharge table and by the oracle O-C16 only (C16 is partial there). *)
From VV.EXP Require Import Display Names SiteTables DisplayP NamesP.

(* Display is total (after fix b4532c3 the RawSql arm cuts at the largest char boundary <= 47): for ALL actions *)
Theorem C16_display_total : forall a, exists s, display a = Txt s.
Proof. exact display_total. Qed.
Print Assumptions C16_display_total.
Check C16_display_total : forall a, exists s, display a = Txt s.

(* ... and the text is the one the old byte slice produced wherever that did not panic, in particular for ASCII *)
Theorem C16_display_rawsql_unchanged : forall sql,
  (Nat.leb (String.length sql) 50 || is_char_boundary sql 47)%bool = true ->
  display (RawSql sql) = display_rawsql_before_fix sql.
Proof. exact display_rawsql_unchanged. Qed.
Print Assumptions C16_display_rawsql_unchanged.
Check C16_display_rawsql_unchanged : forall sql,
  (Nat.leb (String.length sql) 50 || is_char_boundary sql 47)%bool = true ->
  display (RawSql sql) = display_rawsql_before_fix sql.

Theorem C16_display_rawsql_ascii : forall sql, all_ascii sql = true -> display (RawSql sql) = display_rawsql_before_fix sql.
Proof. exact display_rawsql_ascii. Qed.
Print Assumptions C16_display_rawsql_ascii.
Check C16_display_rawsql_ascii : forall sql, all_ascii sql = true -> display (RawSql sql) = display_rawsql_before_fix sql.

(* the CLI's own renderer truncates by characters and has no panicking arm *)
Theorem C16_format_action_total : forall a, exists s, format_action a = Txt s.
Proof. exact format_action_total. Qed.
Print Assumptions C16_format_action_total.
Check C16_format_action_total : forall a, exists s, format_action a = Txt s.

(* D15: FK cycles between single columns (accepted by the loader) exhaust every amount of fuel *)
Theorem C16_resolve_fk_terminates_refuted :
  (forall fuel, resolve_fk_target fuel [cyc_a; cyc_b] "b" ["y"] = None)
  /\ (forall fuel, resolve_fk_target fuel [cyc_self] "a" ["x"] = None)
  /\ members [cyc_a; cyc_b] cyc_a = Err XDiverge.
Proof. exact resolve_fk_terminates_refuted. Qed.
Print Assumptions C16_resolve_fk_terminates_refuted.
Check C16_resolve_fk_terminates_refuted :
  (forall fuel, resolve_fk_target fuel [cyc_a; cyc_b] "b" ["y"] = None)
  /\ (forall fuel, resolve_fk_target fuel [cyc_self] "a" ["x"] = None)
  /\ members [cyc_a; cyc_b] cyc_a = Err XDiverge.

(* wherever the walk ends, it ends with the same answer for every larger fuel: the fuelled model and the
   unbounded recursion agree on all terminating inputs.  (partial: that exhausting [resolve_fuel s] implies a
   real cycle — the pigeonhole argument on single-column FK nodes — is argued in Model/Names.v, not proved) *)
Theorem C16_resolve_fk_fuel_mono_partial : forall s fuel rt rcs r,
  resolve_fk_target fuel s rt rcs = Some r -> forall fuel', (fuel <= fuel')%nat -> resolve_fk_target fuel' s rt rcs = Some r.
Proof. exact resolve_fk_fuel_mono. Qed.
Print Assumptions C16_resolve_fk_fuel_mono_partial.
Check C16_resolve_fk_fuel_mono_partial : forall s fuel rt rcs r,
  resolve_fk_target fuel s rt rcs = Some r -> forall fuel', (fuel <= fuel')%nat -> resolve_fk_target fuel' s rt rcs = Some r.

(* the discharge table names exactly this reachable panic (the Display slice is guarded since b4532c3) *)
Theorem C16_known_panic_sites : known_panic_ids = ["C16-seaorm-fk-cycle"].
Proof. vm_compute. reflexivity. Qed.
Print Assumptions C16_known_panic_sites.
Check C16_known_panic_sites : known_panic_ids = ["C16-seaorm-fk-cycle"].

(* the full-strength statement for the modelled stages (a definition, not a claim): its first half is now
   C16_display_total, its second half is FALSE (FK cycles) *)
Definition C16_full_statement : Prop :=
  (forall a, exists s, display a = Txt s)
  /\ (forall s t, exists d, members s t = Ok d).

(* non-vacuity: the former D3 witness now renders, cut in front of the 2-byte character *)
Example C16_nonvacuous :
  display d3_witness = Txt ("RawSql: " +++ string_of_list_ascii (repeat "x"%char 46) +++ "...")
  /\ all_ascii "SELECT 1" = true
  /\ display (ModifyColumnComment "t" "c" (Some "0123456789012345678901234567890")) = Txt "ModifyColumnComment: t.c -> '012345678901234567890123456...'"
  /\ resolve_fk_target 3 [d14_user; d14_post] "user" ["id"] = Some ("user", ["id"]).
Proof. repeat split; vm_compute; reflexivity. Qed.
