(* C16 — no loadable project makes any stage panic, overflow the stack or hang.
   Pinned statements only: each theorem is closed by [exact] of a lemma proved in Proofs/.
   What is proved here: the human-readable action descriptions (Display, format_action) and the recursive
   FK-chain resolution of the SeaORM exporter.  Planning, SQL generation and the text rendering of the exporters
   are covered by the PanicSites discharge table and by the oracle O-C16 only (C16 is partial there). *)
From VV.EXP Require Import Display Names SiteTables DisplayP NamesP UniqueP.

(* Display is total (after fix b4532c3 the RawSql arm cuts at the largest char boundary <= 47): for ALL actions *)
Theorem C16_display_total : forall a, exists s, display a = Txt s.
Proof. exact display_total. Qed.
Print Assumptions C16_display_total.
Check C16_display_total : forall a, exists s, display a = Txt s.

(* ... and the text is the one the old byte slice produced wherever that did not panic, in particular for ASCII *)
Theorem C16_display_rawsql_unchanged : forall sql,
  (Nat.leb (String.length sql) 50 || is_char_boundary sql 47)%bool = true ->
  display (RawSql sql) = display_rawsql_before_fix sql.
Proof. exact display_rawsql_unchanged. Qed.
Print Assumptions C16_display_rawsql_unchanged.
Check C16_display_rawsql_unchanged : forall sql,
  (Nat.leb (String.length sql) 50 || is_char_boundary sql 47)%bool = true ->
  display (RawSql sql) = display_rawsql_before_fix sql.

Theorem C16_display_rawsql_ascii : forall sql, all_ascii sql = true -> display (RawSql sql) = display_rawsql_before_fix sql.
Proof. exact display_rawsql_ascii. Qed.
Print Assumptions C16_display_rawsql_ascii.
Check C16_display_rawsql_ascii : forall sql, all_ascii sql = true -> display (RawSql sql) = display_rawsql_before_fix sql.

(* the CLI's own renderer truncates by characters and has no panicking arm *)
Theorem C16_format_action_total : forall a, exists s, format_action a = Txt s.
Proof. exact format_action_total. Qed.
Print Assumptions C16_format_action_total.
Check C16_format_action_total : forall a, exists s, format_action a = Txt s.

(* D15 repaired (fix c0929b8): the FK-chain walk keeps the list of ALL visited nodes and ends on EVERY slice and from
   EVERY start — arbitrary FK graphs: acyclic chains, cycles, tails leading into a cycle (rho shapes) *)
Theorem C16_resolve_fk_terminates : forall s rt rcs, exists r, resolve_fk_target (resolve_fuel s) s rt rcs = Some r.
Proof. exact resolve_fk_terminates. Qed.
Print Assumptions C16_resolve_fk_terminates.
Check C16_resolve_fk_terminates : forall s rt rcs, exists r, resolve_fk_target (resolve_fuel s) s rt rcs = Some r.

(* more fuel never changes the answer: the fuelled model is the unbounded recursion *)
Theorem C16_resolve_fk_fuel_mono : forall s fuel rt rcs visited r,
  resolve_fk_chain fuel s rt rcs visited = Some r ->
  forall fuel', (fuel <= fuel')%nat -> resolve_fk_chain fuel' s rt rcs visited = Some r.
Proof. exact resolve_fk_fuel_mono. Qed.
Print Assumptions C16_resolve_fk_fuel_mono.
Check C16_resolve_fk_fuel_mono : forall s fuel rt rcs visited r,
  resolve_fk_chain fuel s rt rcs visited = Some r ->
  forall fuel', (fuel <= fuel')%nat -> resolve_fk_chain fuel' s rt rcs visited = Some r.

(* computing the declarations of a table never exhausts any fuel (FK walk, unique_name loop); the relation-enum
   disambiguation appends the table name once and has no loop at all (UniqueP.separator_table_renders: a table named
   `_` renders, with a duplicate relation enum) — K-exp holds the real exporter to this on tables whose names consist
   of separators only, rendered under a wall-clock cap *)
Theorem C16_members_never_diverge : forall s t, members s t <> Err XDiverge.
Proof. exact members_never_diverge. Qed.
Print Assumptions C16_members_never_diverge.
Check C16_members_never_diverge : forall s t, members s t <> Err XDiverge.

(* the discharge table names no reachable panic any more (Display slice guarded since b4532c3, FK walk bounded since c0929b8) *)
Theorem C16_known_panic_sites : known_panic_ids = [].
Proof. vm_compute. reflexivity. Qed.
Print Assumptions C16_known_panic_sites.
Check C16_known_panic_sites : known_panic_ids = [].

(* the full-strength statement for the modelled stages (a definition, not a claim): the first half is
   C16_display_total; the second half holds up to the index panic on an FK without columns (rejected by the loader) *)
Definition C16_full_statement : Prop :=
  (forall a, exists s, display a = Txt s)
  /\ (forall s t, exists d, members s t = Ok d).

(* non-vacuity: the former D3 and D15 witnesses now render; a rho shape (tail into a cycle) resolves to the cycle's node *)
Example C16_nonvacuous :
  display d3_witness = Txt ("RawSql: " +++ string_of_list_ascii (repeat "x"%char 46) +++ "...")
  /\ all_ascii "SELECT 1" = true
  /\ resolve_fk_target (resolve_fuel [cyc_a; cyc_b]) [cyc_a; cyc_b] "b" ["y"] = Some ("b", ["y"])
  /\ resolve_fk_target (resolve_fuel [cyc_self]) [cyc_self] "a" ["x"] = Some ("a", ["x"])
  /\ resolve_fk_target (resolve_fuel [rho_c; rho_d; cyc_self]) [rho_c; rho_d; cyc_self] "d" ["z"] = Some ("a", ["x"])
  /\ resolve_fk_target 3 [d14_user; d14_post] "user" ["id"] = Some ("user", ["id"])
  /\ (exists d, members [sep_user; sep_table] sep_table = Ok d).
Proof. repeat split; try (vm_compute; reflexivity). eexists. vm_compute. reflexivity. Qed.
