(* C18 — ORM export is reproducible.
   Pinned statements only: each theorem is closed by [exact] of a lemma proved in Proofs/. *)
From VV.EXP Require Import Imports Names SiteTables SeaConfig ImportsP NamesP SeaConfigP.
From Coq Require Import Permutation Sorted.

(* both import blocks are functions of the table alone: every collected HashSet is sorted before use (the datetime
   names too since fix 44cb6cb), so no iteration order (= oracle) can be observed — for ALL tables *)
Theorem C18_imports_oracle_free : forall pa pa' pd pd' t,
  admissible pa -> admissible pa' -> admissible pd -> admissible pd' ->
  sqlalchemy_imports pa pd t = sqlalchemy_imports pa' pd' t /\ sqlmodel_imports pd t = sqlmodel_imports pd' t.
Proof. exact imports_oracle_free. Qed.
Print Assumptions C18_imports_oracle_free.
Check C18_imports_oracle_free : forall pa pa' pd pd' t,
  admissible pa -> admissible pa' -> admissible pd -> admissible pd' ->
  sqlalchemy_imports pa pd t = sqlalchemy_imports pa' pd' t /\ sqlmodel_imports pd t = sqlmodel_imports pd' t.

(* what the sorted lines show is THE byte-wise order of the inserted names (String.compare on the UTF-8 bytes =
   Rust's Ord for str, upper case before lower case): K-exp compares this text, order included, with every
   variant of the line the real exporter produced, so another sort key is a correspondence mismatch *)
Theorem C18_sa_line_bytewise_sorted : forall pi t, admissible pi ->
  exists l, Permutation l (hs_of_inserts (sa_inserts t) []) /\ StronglySorted (fun a b => String.compare a b <> Gt) l
            /\ sa_line pi t = match l with [] => [] | _ => ["from sqlalchemy import " +++ join ", " l] end.
Proof. exact sa_line_bytewise_sorted. Qed.
Print Assumptions C18_sa_line_bytewise_sorted.
Check C18_sa_line_bytewise_sorted : forall pi t, admissible pi ->
  exists l, Permutation l (hs_of_inserts (sa_inserts t) []) /\ StronglySorted (fun a b => String.compare a b <> Gt) l
            /\ sa_line pi t = match l with [] => [] | _ => ["from sqlalchemy import " +++ join ", " l] end.

Theorem C18_datetime_line_bytewise_sorted : forall pi t, admissible pi ->
  exists l, Permutation l (hs_of_inserts (dt_inserts t) []) /\ StronglySorted (fun a b => String.compare a b <> Gt) l
            /\ datetime_line pi t = match l with [] => [] | _ => ["from datetime import " +++ join ", " l] end.
Proof. exact datetime_line_bytewise_sorted. Qed.
Print Assumptions C18_datetime_line_bytewise_sorted.
Check C18_datetime_line_bytewise_sorted : forall pi t, admissible pi ->
  exists l, Permutation l (hs_of_inserts (dt_inserts t) []) /\ StronglySorted (fun a b => String.compare a b <> Gt) l
            /\ datetime_line pi t = match l with [] => [] | _ => ["from datetime import " +++ join ", " l] end.

(* no hash iteration of the scanned crates reaches an output unsorted any more *)
Theorem C18_no_iterated_unsorted_site : iterated_unsorted_ids = [].
Proof. vm_compute. reflexivity. Qed.
Print Assumptions C18_no_iterated_unsorted_site.
Check C18_no_iterated_unsorted_site : iterated_unsorted_ids = [].

(* SeaORM: every observation its code makes on a hash container (contains, len, get by key) is oracle free;
   that it makes no other observation is the HashSites inventory (no iteration site in seaorm/mod.rs) *)
Theorem C18_seaorm_oracle_free :
  (forall pi pi' s x, admissible pi -> admissible pi' -> hs_contains pi s x = hs_contains pi' s x)
  /\ (forall pi pi' s, admissible pi -> admissible pi' -> hs_len pi s = hs_len pi' s)
  /\ (forall V (pi pi' : list (string * V) -> list (string * V)) m k,
        admissible pi -> admissible pi' -> NoDup (map fst m) -> hm_get pi m k = hm_get pi' m k).
Proof. exact seaorm_oracle_free. Qed.
Print Assumptions C18_seaorm_oracle_free.
Check C18_seaorm_oracle_free :
  (forall pi pi' s x, admissible pi -> admissible pi' -> hs_contains pi s x = hs_contains pi' s x)
  /\ (forall pi pi' s, admissible pi -> admissible pi' -> hs_len pi s = hs_len pi' s)
  /\ (forall V (pi pi' : list (string * V) -> list (string * V)) m k,
        admissible pi -> admissible pi' -> NoDup (map fst m) -> hm_get pi m k = hm_get pi' m k).

(* SeaORM export configuration (extraModelDerives / extraEnumDerives ...): the configured derives follow the built-in
   ones in CONFIGURATION order, duplicates kept — K-exp sub-check 6 compares the derive / serde / table_name / vespera
   lines of every table rendered under a drawn configuration with [config_lines], so a re-ordering (e.g. through a
   HashSet) is a correspondence mismatch as well as an oracle failure *)
Theorem C18_derive_line_order : forall cfg,
  model_derives cfg = builtin_model_derives ++ sc_extra_model_derives cfg
  /\ enum_derives cfg = builtin_enum_derives ++ sc_extra_enum_derives cfg
  /\ (forall i d, nth_error (sc_extra_model_derives cfg) i = Some d ->
        nth_error (model_derives cfg) (List.length builtin_model_derives + i) = Some d)
  /\ (forall i d, nth_error (sc_extra_enum_derives cfg) i = Some d ->
        nth_error (enum_derives cfg) (List.length builtin_enum_derives + i) = Some d).
Proof. exact derive_line_order. Qed.
Print Assumptions C18_derive_line_order.
Check C18_derive_line_order : forall cfg,
  model_derives cfg = builtin_model_derives ++ sc_extra_model_derives cfg
  /\ enum_derives cfg = builtin_enum_derives ++ sc_extra_enum_derives cfg
  /\ (forall i d, nth_error (sc_extra_model_derives cfg) i = Some d ->
        nth_error (model_derives cfg) (List.length builtin_model_derives + i) = Some d)
  /\ (forall i d, nth_error (sc_extra_enum_derives cfg) i = Some d ->
        nth_error (enum_derives cfg) (List.length builtin_enum_derives + i) = Some d).

(* the order of the schema slice (directory enumeration order in `vespertide export`) reaches the output *)
Theorem C18_slice_order_refuted : exists s s' t, Permutation s s' /\ members s t <> members s' t.
Proof. exact slice_order_refuted. Qed.
Print Assumptions C18_slice_order_refuted.
Check C18_slice_order_refuted : exists s s' t, Permutation s s' /\ members s t <> members s' t.

(* ... but only through the relation fields *)
Theorem C18_slice_order_columns_enums : forall s s' t d d',
  members s t = Ok d -> members s' t = Ok d' ->
  filter is_col_member (d_members d) = filter is_col_member (d_members d') /\ d_enums d = d_enums d'.
Proof. exact slice_order_columns_enums. Qed.
Print Assumptions C18_slice_order_columns_enums.
Check C18_slice_order_columns_enums : forall s s' t d d',
  members s t = Ok d -> members s' t = Ok d' ->
  filter is_col_member (d_members d) = filter is_col_member (d_members d') /\ d_enums d = d_enums d'.

(* the full-strength statement (a definition, not a claim): its first half is C18_imports_oracle_free, its
   second half is FALSE, see C18_slice_order_refuted *)
Definition C18_full_statement : Prop :=
  (forall pa pa' pd pd' t, admissible pa -> admissible pa' -> admissible pd -> admissible pd' ->
     sqlalchemy_imports pa pd t = sqlalchemy_imports pa' pd' t /\ sqlmodel_imports pd t = sqlmodel_imports pd' t)
  /\ (forall s s' t, Permutation s s' -> members s t = members s' t).

(* non-vacuity: two different admissible oracles exist, and on the former D5 witness both give one sorted line *)
Example C18_nonvacuous :
  admissible id_oracle /\ admissible rev_oracle /\ rev_oracle ["a"; "b"] <> id_oracle ["a"; "b"]
  /\ datetime_line id_oracle d5_table = ["from datetime import date, datetime, time"]
  /\ datetime_line rev_oracle d5_table = ["from datetime import date, datetime, time"].
Proof.
  split; [apply id_admissible|]. split; [apply rev_admissible|]. split; [discriminate|]. split; vm_compute; reflexivity.
Qed.
