(* C18 — ORM export is reproducible.
   Pinned statements only: each theorem is closed by [exact] of a lemma proved in Proofs/. *)
From VV.EXP Require Import Imports Names ImportsP NamesP.
From Coq Require Import Permutation Sorted.

(* where the code sorts after collecting, the oracle (= hash iteration order) cannot be observed *)
Theorem C18_sorted_imports_oracle_free : forall pi pi' t, admissible pi -> admissible pi' ->
  sqlalchemy_imports_sorted_part pi t = sqlalchemy_imports_sorted_part pi' t.
Proof. exact sorted_imports_oracle_free. Qed.
Print Assumptions C18_sorted_imports_oracle_free.
Check C18_sorted_imports_oracle_free : forall pi pi' t, admissible pi -> admissible pi' ->
  sqlalchemy_imports_sorted_part pi t = sqlalchemy_imports_sorted_part pi' t.

(* ... and what it shows instead is THE byte-wise order of the inserted names (String.compare on the UTF-8 bytes =
   Rust's Ord for str, upper case before lower case): K-exp compares this text, order included, with every
   variant of the line the real exporter produced, so another sort key is a correspondence mismatch *)
Theorem C18_sa_line_bytewise_sorted : forall pi t, admissible pi ->
  exists l, sa_line pi t = "from sqlalchemy import " +++ join ", " l
            /\ Permutation l (hs_of_inserts (sa_inserts t) [])
            /\ StronglySorted (fun a b => String.compare a b <> Gt) l.
Proof. exact sa_line_bytewise_sorted. Qed.
Print Assumptions C18_sa_line_bytewise_sorted.
Check C18_sa_line_bytewise_sorted : forall pi t, admissible pi ->
  exists l, sa_line pi t = "from sqlalchemy import " +++ join ", " l
            /\ Permutation l (hs_of_inserts (sa_inserts t) [])
            /\ StronglySorted (fun a b => String.compare a b <> Gt) l.

(* D5: the `from datetime import ...` line is an unsorted iteration *)
Theorem C18_datetime_imports_refuted :
  exists t pi pi', admissible pi /\ admissible pi' /\ datetime_line pi t <> datetime_line pi' t.
Proof. exact datetime_imports_refuted. Qed.
Print Assumptions C18_datetime_imports_refuted.
Check C18_datetime_imports_refuted :
  exists t pi pi', admissible pi /\ admissible pi' /\ datetime_line pi t <> datetime_line pi' t.

Theorem C18_sqlalchemy_imports_refuted :
  exists t pi pi', admissible pi /\ admissible pi' /\
    sqlalchemy_imports id_oracle pi t <> sqlalchemy_imports id_oracle pi' t.
Proof. exact sqlalchemy_imports_refuted. Qed.
Print Assumptions C18_sqlalchemy_imports_refuted.
Check C18_sqlalchemy_imports_refuted :
  exists t pi pi', admissible pi /\ admissible pi' /\
    sqlalchemy_imports id_oracle pi t <> sqlalchemy_imports id_oracle pi' t.

Theorem C18_sqlmodel_imports_refuted :
  exists t pi pi', admissible pi /\ admissible pi' /\ sqlmodel_imports pi t <> sqlmodel_imports pi' t.
Proof. exact sqlmodel_imports_refuted. Qed.
Print Assumptions C18_sqlmodel_imports_refuted.
Check C18_sqlmodel_imports_refuted :
  exists t pi pi', admissible pi /\ admissible pi' /\ sqlmodel_imports pi t <> sqlmodel_imports pi' t.

(* outside the known class (at most one date/time kind) both import blocks are oracle free *)
Theorem C18_imports_oracle_free_outside_known : forall pa pa' pd pd' t,
  admissible pa -> admissible pa' -> admissible pd -> admissible pd' -> known_C18_datetime t = false ->
  sqlalchemy_imports pa pd t = sqlalchemy_imports pa' pd' t /\ sqlmodel_imports pd t = sqlmodel_imports pd' t.
Proof. exact imports_oracle_free_outside_known. Qed.
Print Assumptions C18_imports_oracle_free_outside_known.
Check C18_imports_oracle_free_outside_known : forall pa pa' pd pd' t,
  admissible pa -> admissible pa' -> admissible pd -> admissible pd' -> known_C18_datetime t = false ->
  sqlalchemy_imports pa pd t = sqlalchemy_imports pa' pd' t /\ sqlmodel_imports pd t = sqlmodel_imports pd' t.

(* SeaORM: every observation its code makes on a hash container (contains, len, get by key) is oracle free;
   that it makes no other observation is the HashSites inventory (no iteration site in seaorm/mod.rs) *)
Theorem C18_seaorm_oracle_free :
  (forall pi pi' s x, admissible pi -> admissible pi' -> hs_contains pi s x = hs_contains pi' s x)
  /\ (forall pi pi' s, admissible pi -> admissible pi' -> hs_len pi s = hs_len pi' s)
  /\ (forall V (pi pi' : list (string * V) -> list (string * V)) m k,
        admissible pi -> admissible pi' -> NoDup (map fst m) -> hm_get pi m k = hm_get pi' m k).
Proof. exact seaorm_oracle_free. Qed.
Print Assumptions C18_seaorm_oracle_free.
Check C18_seaorm_oracle_free :
  (forall pi pi' s x, admissible pi -> admissible pi' -> hs_contains pi s x = hs_contains pi' s x)
  /\ (forall pi pi' s, admissible pi -> admissible pi' -> hs_len pi s = hs_len pi' s)
  /\ (forall V (pi pi' : list (string * V) -> list (string * V)) m k,
        admissible pi -> admissible pi' -> NoDup (map fst m) -> hm_get pi m k = hm_get pi' m k).

(* the order of the schema slice (directory enumeration order in `vespertide export`) reaches the output *)
Theorem C18_slice_order_refuted : exists s s' t, Permutation s s' /\ members s t <> members s' t.
Proof. exact slice_order_refuted. Qed.
Print Assumptions C18_slice_order_refuted.
Check C18_slice_order_refuted : exists s s' t, Permutation s s' /\ members s t <> members s' t.

(* ... but only through the relation fields *)
Theorem C18_slice_order_columns_enums : forall s s' t d d',
  members s t = Ok d -> members s' t = Ok d' ->
  filter is_col_member (d_members d) = filter is_col_member (d_members d') /\ d_enums d = d_enums d'.
Proof. exact slice_order_columns_enums. Qed.
Print Assumptions C18_slice_order_columns_enums.
Check C18_slice_order_columns_enums : forall s s' t d d',
  members s t = Ok d -> members s' t = Ok d' ->
  filter is_col_member (d_members d) = filter is_col_member (d_members d') /\ d_enums d = d_enums d'.

(* the full-strength statement (a definition, not a claim): it is FALSE of the model, see the refutations *)
Definition C18_full_statement : Prop :=
  (forall pa pa' pd pd' t, admissible pa -> admissible pa' -> admissible pd -> admissible pd' ->
     sqlalchemy_imports pa pd t = sqlalchemy_imports pa' pd' t /\ sqlmodel_imports pd t = sqlmodel_imports pd' t)
  /\ (forall s s' t, Permutation s s' -> members s t = members s' t).

(* non-vacuity: both oracles used in the refutations are admissible and differ; the known class is inhabited *)
Example C18_nonvacuous :
  admissible id_oracle /\ admissible rev_oracle /\ rev_oracle ["a"; "b"] <> id_oracle ["a"; "b"]
  /\ known_C18_datetime d5_table = true /\ known_C18_datetime d14_user = false.
Proof.
  split; [apply id_admissible|]. split; [apply rev_admissible|]. split; [discriminate|]. split; reflexivity.
Qed.
