(* M7 / C18: the lines of the SeaORM entity that depend on the export configuration
   (vespertide-config SeaOrmConfig + the table prefix): derive lists, serde rename, table_name, vespera line
   (seaorm/mod.rs:74-173 render_entity_with_config, 1110-1182 render_enum).  No hash container is involved:
   the configured derives are appended to the built-in ones in configuration order, duplicates kept.
   No proofs here. *)
From VV.EXP Require Export Names.

Inductive name_case := CaseSnake | CaseCamel | CasePascal.
Record sea_config := mkSeaCfg {
  sc_extra_enum_derives : list string;       (* default ["vespera::Schema"] *)
  sc_extra_model_derives : list string;      (* default [] *)
  sc_enum_naming_case : name_case;           (* default Camel *)
  sc_vespera_schema_type : bool;             (* default true *)
  sc_prefix : string }.                      (* `prefix` of vespertide.json, "" in render_entity_with_schema *)

Definition default_sea_config : sea_config := mkSeaCfg ["vespera::Schema"] [] CaseCamel true "".

(* NameCase::serde_rename_all (name_case.rs:30-36) *)
Definition serde_rename_all (c : name_case) : string :=
  match c with CaseSnake => "snake_case" | CaseCamel => "camelCase" | CasePascal => "PascalCase" end.

(* 116-122 *)
Definition builtin_model_derives : list string := ["Clone"; "Debug"; "PartialEq"; "Eq"; "DeriveEntityModel"].
Definition model_derives (cfg : sea_config) : list string := builtin_model_derives ++ sc_extra_model_derives cfg.
(* 1122-1137 *)
Definition builtin_enum_derives : list string :=
  ["Debug"; "Clone"; "PartialEq"; "Eq"; "EnumIter"; "DeriveActiveEnum"; "Serialize"; "Deserialize"].
Definition enum_derives (cfg : sea_config) : list string := builtin_enum_derives ++ sc_extra_enum_derives cfg.

Definition derive_line (l : list string) : string := "#[derive(" +++ join ", " l +++ ")]".

(* the configuration-dependent lines of one entity, in output order: per rendered enum its derive line and its serde
   line; then the model's derive line, the table_name line, and the vespera line when enabled *)
Definition config_lines (cfg : sea_config) (t : table_def) : list string :=
  flat_map (fun _ => [derive_line (enum_derives cfg);
                      "#[serde(rename_all = """ +++ serde_rename_all (sc_enum_naming_case cfg) +++ """)]"]) (enum_decls t)
  ++ [derive_line (model_derives cfg);
      "#[sea_orm(table_name = """ +++ sc_prefix cfg +++ t_name t +++ """)]"]
  ++ (if sc_vespera_schema_type cfg
      then ["vespera::schema_type!(Schema from Model, name = """ +++ to_pascal_case (t_name t) +++ "Schema"");"]
      else []).
