(* Committed discharge tables for the two source inventories that tools/panicsites.py and tools/hashsites.py
   regenerate from /repo on every run (DESIGN.md §5.4).  A generated site that has no entry here — same file,
   same enclosing fn, same kind, same count — is an undischarged obligation of C16 (panic sites) / C18 (hash
   iteration sites).  Entries were written by reading the code at the named place.  No proofs here. *)
From VV.M1 Require Export Str.

Inductive ptag :=
| GuardedByCheck (why : string)             (* an explicit test a few lines above excludes the failing case *)
| InfallibleByConstruction (why : string)   (* the value indexed / unwrapped was produced from the same data *)
| KnownPanic (finding : string)             (* reachable from loader-accepted input: a recorded finding *)
| ModelledIn (lemma : string)               (* the behaviour is part of a Gallina model with a theorem about it *)
| NotRecursive (why : string)               (* the tool's name-based recursion test hit a different function of the same name *)
| BoundedRecursion (why : string)           (* recursion on a structurally smaller argument *)
| Unreviewed (why : string).                (* listed, not yet argued: exercised only by O-C16 *)

Definition psite := (string * string * string * nat)%type.        (* file, fn, kind, count *)

Definition core := "crates/vespertide-core/src/".
Definition planner := "crates/vespertide-planner/src/".
Definition query := "crates/vespertide-query/src/".
Definition loader := "crates/vespertide-loader/src/".
Definition exporter := "crates/vespertide-exporter/src/".
Definition cli := "crates/vespertide-cli/src/".

Definition delegation := NotRecursive "calls the method of the same name on a different type (ColumnType -> Simple/ComplexColumnType, plan -> action -> constraint, trait method -> free fn)".
Definition len1 := GuardedByCheck "x[0] directly behind a `x.len() == 1` test in the same condition / match arm".
Definition quoted := GuardedByCheck "s[1..len-1] behind starts_with('\'') && ends_with('\'') && len >= 2: both ends are 1-byte characters".
Definition suffix := GuardedByCheck "s[..len-k] behind ends_with(<k-byte ASCII suffix>)".
Definition dirs := BoundedRecursion "one level of the directory tree per call (a symlink loop is the file system's to refuse)".
Definition qb := Unreviewed "unreviewed-query-builder: sea-query select_from(..).unwrap() — arity of column list and select list; exercised by O-C16 on every generated plan".

Definition site_discharge : list (psite * ptag) := [
  (* ---- vespertide-cli ---- *)
  ((cli +++ "commands/export.rs", "build_output_path", "strop", 1),
     GuardedByCheck "split_at(dot_idx) with dot_idx = rfind('.'): an ASCII byte, hence a char boundary <= len");
  ((cli +++ "commands/export.rs", "clean_dir_recursive", "recursion", 1), dirs);
  ((cli +++ "commands/export.rs", "walk_models", "recursion", 1), dirs);
  ((cli +++ "commands/revision.rs", "prompt_enum_value", "index", 1),
     InfallibleByConstruction "selection is the index dialoguer::Select returns for the very list that is indexed");
  ((cli +++ "commands/status.rs", "cmd_status", "unwrap", 1), GuardedByCheck "last().unwrap() inside `if !applied_plans.is_empty()`");
  ((cli +++ "utils.rs", "render_migration_name", "index", 6),
     GuardedByCheck "chars[i], chars[i+1], chars[j] each behind `i < chars.len()` / `i + 1 < chars.len()` / `j < chars.len()`");
  (* ---- vespertide-core ---- *)
  ((core +++ "action.rs", "fmt", "slice", 1),
     GuardedByCheck "&sql[..end] behind `while !sql.is_char_boundary(end) { end -= 1 }` starting at 47 with sql.len() > 50 (fix b4532c3): end is a char boundary <= len, index 0 always is one; modelled: Display.floor_char_boundary, theorem display_total");
  ((core +++ "action.rs", "with_prefix", "recursion", 4), delegation);
  ((core +++ "schema/column.rs", "default_fill_value", "recursion", 2), delegation);
  ((core +++ "schema/column.rs", "len", "recursion", 2), delegation);
  ((core +++ "schema/column.rs", "supports_auto_increment", "recursion", 1), delegation);
  ((core +++ "schema/column.rs", "to_display_string", "recursion", 2), delegation);
  ((core +++ "schema/table.rs", "normalize", "index", 9),
     GuardedByCheck "parts[0], parts[1] behind `parts.len() != 2 ||` (short circuit, error return); columns[0] behind columns.len() == 1; modelled in VV.M1 Normalize (K-norm)");
  ((core +++ "schema/table.rs", "normalize", "unwrap", 2),
     InfallibleByConstruction "get(name).unwrap() for names taken from the first-occurrence vector that is pushed exactly when the key is inserted");
  (* ---- vespertide-exporter ---- *)
  ((exporter +++ "orm.rs", "render_entity", "recursion", 3), delegation);
  ((exporter +++ "orm.rs", "render_entity_with_schema", "recursion", 3), delegation);
  ((exporter +++ "seaorm/mod.rs", "fk_attr_value", "index", 1), len1);
  ((exporter +++ "seaorm/mod.rs", "format_default_value", "slice", 1), quoted);
  ((exporter +++ "seaorm/mod.rs", "generate_relation_enum_name", "index", 1),
     GuardedByCheck "columns[0] of a foreign key: validate_schema rejects empty column lists (EmptyConstraintColumns); the model keeps the panic (Names.generate_relation_enum_name = None -> XPanic)");
  ((exporter +++ "seaorm/mod.rs", "generate_relation_enum_name", "slice", 1), suffix);
  ((exporter +++ "seaorm/mod.rs", "infer_field_name_from_fk_column", "slice", 1), suffix);
  ((exporter +++ "seaorm/mod.rs", "pluralize", "slice", 1), suffix);
  ((exporter +++ "seaorm/mod.rs", "relation_field_defs_with_schema", "index", 1), len1);
  ((exporter +++ "seaorm/mod.rs", "render_entity", "recursion", 1), delegation);
  ((exporter +++ "seaorm/mod.rs", "render_entity_with_schema", "recursion", 1), delegation);
  ((exporter +++ "seaorm/mod.rs", "resolve_fk_chain", "index", 2),
     GuardedByCheck "ref_columns[0] behind the early return on ref_columns.len() != 1; cols[0] behind cols.len() == 1");
  ((exporter +++ "seaorm/mod.rs", "resolve_fk_chain", "recursion", 1),
     BoundedRecursion "every call pushes a (table, column) node that was not in `visited` and that carries a single-column FK (fix c0929b8): at most one call per such node; modelled: Names.resolve_fk_chain, theorem resolve_fk_terminates");
  ((exporter +++ "seaorm/mod.rs", "reverse_relation_field_defs", "index", 1), len1);
  ((exporter +++ "seaorm/mod.rs", "single_column_index_set", "index", 1), len1);
  ((exporter +++ "seaorm/mod.rs", "single_column_unique_set", "index", 1), len1);
  ((exporter +++ "sqlalchemy/mod.rs", "render_entity", "index", 3), len1);
  ((exporter +++ "sqlalchemy/mod.rs", "render_entity", "recursion", 1), delegation);
  ((exporter +++ "sqlmodel/mod.rs", "render_entity", "index", 4), len1);
  ((exporter +++ "sqlmodel/mod.rs", "render_entity", "recursion", 1), delegation);
  (* ---- vespertide-loader ---- *)
  ((loader +++ "models.rs", "load_models_recursive", "recursion", 1), dirs);
  ((loader +++ "models.rs", "load_models_recursive_internal", "recursion", 1), dirs);
  (* ---- vespertide-planner ---- *)
  ((planner +++ "apply.rs", "apply_action", "index", 2), len1);
  ((planner +++ "diff.rs", "diff_schemas", "unwrap", 1),
     InfallibleByConstruction "to_original_map is keyed by the names of the same `to` tables whose normalised copies are iterated");
  ((planner +++ "diff.rs", "extract_delete_table_name", "panic", 1),
     GuardedByCheck "only called on indices that sort_delete_tables filtered with matches!(DeleteTable); modelled in VV.M1 Diff (DiffPanic unreachable, K-diff)");
  ((planner +++ "diff.rs", "extract_unquoted_default", "slice", 1), quoted);
  ((planner +++ "diff.rs", "sort_delete_tables", "index", 4),
     InfallibleByConstruction "indices come from enumerate() over the same vector; delete_actions has one entry per index");
  ((planner +++ "validate.rs", "extract_enum_value", "slice", 1), quoted);
  (* ---- vespertide-query ---- *)
  ((query +++ "builder.rs", "build_plan_queries", "slice", 1), InfallibleByConstruction "actions[i + 1..] with i from enumerate(): i + 1 <= len");
  ((query +++ "sql/add_column.rs", "build_add_column", "unwrap", 1), qb);
  ((query +++ "sql/add_constraint.rs", "build_add_constraint", "unwrap", 3), qb);
  ((query +++ "sql/create_table.rs", "build_create_table", "strop", 1),
     GuardedByCheck "insert_str(pos) with pos = rfind(')'): an ASCII byte, hence a char boundary");
  ((query +++ "sql/delete_column.rs", "build_delete_column_sqlite_temp_table", "unwrap", 1), qb);
  ((query +++ "sql/helpers.rs", "build_create_with_checks", "strop", 1),
     GuardedByCheck "insert_str(pos) with pos = rfind(')'): an ASCII byte, hence a char boundary");
  ((query +++ "sql/helpers.rs", "parse_pg_type_cast", "index", 2), GuardedByCheck "bytes[i] inside `while i < bytes.len()`; bytes[i + 1] behind `i + 1 < bytes.len()`");
  ((query +++ "sql/helpers.rs", "parse_pg_type_cast", "slice", 4),
     GuardedByCheck "every offset is that of an ASCII quote found by the byte scan, or the result of find(""::""): char boundaries within the string");
  ((query +++ "sql/modify_column_default.rs", "build_modify_column_default", "unwrap", 1), qb);
  ((query +++ "sql/modify_column_nullable.rs", "build_modify_column_nullable", "unwrap", 1), qb);
  ((query +++ "sql/modify_column_type.rs", "build_modify_column_type", "index", 1), InfallibleByConstruction "col_index = position(..) of the same vector, `?` on None");
  ((query +++ "sql/modify_column_type.rs", "build_modify_column_type", "unwrap", 1), qb);
  ((query +++ "sql/remove_constraint.rs", "build_remove_constraint", "unwrap", 4), qb)
].

Definition psite_eqb (a b : psite) : bool :=
  let '(f1, n1, k1, c1) := a in
  let '(f2, n2, k2, c2) := b in
  (String.eqb f1 f2 && String.eqb n1 n2 && String.eqb k1 k2 && Nat.eqb c1 c2)%bool.

(* generated sites without a discharge entry (must be []) and entries whose site no longer exists (informational) *)
Definition undischarged_panic (gen : list psite) : list psite :=
  filter (fun s => negb (existsb (fun e => psite_eqb s (fst e)) site_discharge)) gen.
Definition stale_panic (gen : list psite) : list psite :=
  filter (fun s => negb (existsb (psite_eqb s) gen)) (map fst site_discharge).

Definition is_known (t : ptag) : bool := match t with KnownPanic _ => true | _ => false end.
Definition is_unreviewed (t : ptag) : bool := match t with Unreviewed _ => true | _ => false end.
Definition known_panic_ids : list string :=
  flat_map (fun e => match snd e with KnownPanic id => [id] | _ => [] end) site_discharge.
Definition unreviewed_sites : list psite := map fst (filter (fun e => is_unreviewed (snd e)) site_discharge).

(* ---------- hash iteration sites (C18, also C08) ---------- *)
Inductive htag :=
| SortedAfter (lemma : string)          (* collected into a Vec that is sorted before use *)
| MembershipOnly (why : string)         (* the iteration only feeds an order-free fold *)
| IteratedUnsorted (finding : string).  (* iteration order reaches the output: a recorded finding *)

Definition hsite := (string * string * string * string * nat)%type.     (* file, fn, container, kind, count *)

Definition hash_allow : list (hsite * htag) := [
  ((exporter +++ "sqlalchemy/mod.rs", "render_entity", "datetime_types", "iter", 1), SortedAfter "imports_oracle_free (datetime_imports.sort(), fix 44cb6cb)");
  ((exporter +++ "sqlalchemy/mod.rs", "render_entity", "sa_types", "iter", 1), SortedAfter "imports_oracle_free");
  ((exporter +++ "sqlmodel/mod.rs", "render_entity", "datetime_types", "iter", 1), SortedAfter "imports_oracle_free (datetime_imports.sort(), fix 44cb6cb)")
].

Definition hsite_eqb (a b : hsite) : bool :=
  let '(f1, n1, x1, k1, c1) := a in
  let '(f2, n2, x2, k2, c2) := b in
  (String.eqb f1 f2 && String.eqb n1 n2 && String.eqb x1 x2 && String.eqb k1 k2 && Nat.eqb c1 c2)%bool.
Definition undischarged_hash (gen : list hsite) : list hsite :=
  filter (fun s => negb (existsb (fun e => hsite_eqb s (fst e)) hash_allow)) gen.
Definition stale_hash (gen : list hsite) : list hsite :=
  filter (fun s => negb (existsb (hsite_eqb s) gen)) (map fst hash_allow).
(* no iteration site at all in the SeaORM exporter: its containers are observed by contains / len / get only *)
Definition seaorm_sites (gen : list hsite) : list hsite :=
  filter (fun s => let '(f, _, _, _, _) := s in String.eqb f (exporter +++ "seaorm/mod.rs")) gen.

Definition iterated_unsorted_ids : list string :=
  flat_map (fun e => match snd e with IteratedUnsorted id => [id] | _ => [] end) hash_allow.
