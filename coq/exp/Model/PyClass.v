(* C17, Python half: classifiers of the known ways in which the SQLAlchemy / SQLModel exporters emit text
   that Python rejects or that re-defines a name.  The Python output itself is *not* modelled (C17 is partial
   there, decided by the ast-based oracle); these booleans only delimit the classes of inputs on which the
   oracle is already known to fail, so that anything else is reported as a violation.
   Non-ASCII bytes are treated as identifier characters (true for letters; symbols are not modelled).
   No proofs here. *)
From VV.EXP Require Export Names.

Definition py_keywords : list string :=
  ["False"; "None"; "True"; "and"; "as"; "assert"; "async"; "await"; "break"; "class"; "continue"; "def";
   "del"; "elif"; "else"; "except"; "finally"; "for"; "from"; "global"; "if"; "import"; "in"; "is";
   "lambda"; "nonlocal"; "not"; "or"; "pass"; "raise"; "return"; "try"; "while"; "with"; "yield"].

Definition non_ascii (a : ascii) : bool := N.leb 128 (N_of_ascii a).
Definition py_start (a : ascii) : bool := (is_ascii_alpha a || Ascii.eqb a "_" || non_ascii a)%bool.
Definition py_cont (a : ascii) : bool := (py_start a || is_ascii_digit a)%bool.
Fixpoint all_chars (p : ascii -> bool) (s : string) : bool :=
  match s with EmptyString => true | String a r => (p a && all_chars p r)%bool end.
Definition py_ident_ok (s : string) : bool :=
  match s with
  | EmptyString => false
  | String a r => (py_start a && all_chars py_cont r && negb (mem_str s py_keywords))%bool
  end.

(* to_screaming_snake_case (sqlalchemy 554-573 = sqlmodel 493-512), ASCII model *)
Fixpoint screaming_aux (first : bool) (s : string) : string :=
  match s with
  | EmptyString => EmptyString
  | String a r =>
      let u := to_upper_ascii_char a in
      let c := if (is_ascii_alnum u || Ascii.eqb u "_" || non_ascii u)%bool then u else "_"%char in
      let rest := String c (screaming_aux false r) in
      if (negb first && is_ascii_upper a)%bool then String "_" rest else rest
  end.
Definition py_screaming (s : string) : string := screaming_aux true s.

Definition enum_cols (t : table_def) : list (string * enum_values) :=
  flat_map (fun c => match c_type c with TEnum n v => [(n, v)] | _ => [] end) (t_columns t).
Definition py_variants (v : enum_values) : list string :=
  match v with EVString l => map py_screaming l | EVInteger l => map nv_name l end.

(* some emitted identifier is not one: a column name, the class name of the table or of an enum, a variant *)
Definition known_C17_py_ident (t : table_def) : bool :=
  (existsb (fun c => negb (py_ident_ok (c_name c))) (t_columns t)
   || negb (py_ident_ok (py_pascal_case (t_name t)))
   || existsb (fun e => (negb (py_ident_ok (py_pascal_case (fst e)))
                         || existsb (fun x => negb (py_ident_ok x)) (py_variants (snd e)))%bool) (enum_cols t))%bool.

(* a name is defined twice: two variants of one enum, two enum classes (the Python exporters do not
   de-duplicate enums used by several columns), an enum class named like the table class, two columns *)
Definition known_C17_py_dup (t : table_def) : bool :=
  (existsb (fun e => has_dup (py_variants (snd e))) (enum_cols t)
   || has_dup (py_pascal_case (t_name t) :: map (fun e => py_pascal_case (fst e)) (enum_cols t))
   || has_dup (map c_name (t_columns t)))%bool.

(* `from sqlalchemy import ` with nothing after it: no column type, FK, index ... contributes a name *)
Definition known_C17_py_empty_import (t : table_def) : bool :=
  match sa_inserts t with [] => true | _ => false end.

(* free text spliced into Python source without (complete) escaping: defaults, descriptions, comments,
   names inside string literals *)
Definition has_any (cs : list ascii) (s : string) : bool := existsb (fun c => contains_char c s) cs.
Definition bs : ascii := ascii_of_N 92.
Definition cr : ascii := ascii_of_N 13.
Definition lf : ascii := ascii_of_N 10.
Definition dq : ascii := ascii_of_N 34.
Definition sq : ascii := ascii_of_N 39.
Definition last_char (s : string) : option ascii :=
  match rev_string s with EmptyString => None | String a _ => Some a end.
Definition simple_literal (s : string) : bool :=
  match s with
  | String q r =>
      match rev_string r with
      | String q' mid => (Ascii.eqb q q' && negb (has_any [q; bs; cr; lf] mid))%bool
      | EmptyString => false
      end
  | EmptyString => false
  end.
Definition py_default_bad (d : default_value) : bool :=
  let s := default_to_sql d in
  if contains_char "("%char s then has_any [bs; cr; lf] s
  else match s with
       | String q _ => if (Ascii.eqb q sq || Ascii.eqb q dq)%bool then negb (simple_literal s) else has_any [bs; cr; lf] s
       | EmptyString => false
       end.
Definition known_C17_py_text (t : table_def) : bool :=
  (existsb (fun c => match c_default c with Some d => py_default_bad d | None => false end) (t_columns t)
   || match t_description t with Some d => (has_any [bs; cr] d || Str.starts_with """" (rev_string d)
                                            || existsb (fun p => Str.starts_with """""""" p) (map (fun i => substring i 3 d) (seq 0 (String.length d))))%bool
      | None => false end
   || existsb (fun c => match c_comment c with Some m => contains_char cr m | None => false end) (t_columns t)
   || has_any [dq; bs; cr; lf] (t_name t)
   || existsb (fun c => match c_type c with
                        | TCustom x => has_any [dq; bs; cr; lf] x
                        | TEnum _ (EVString l) => existsb (has_any [dq; bs; cr; lf]) l
                        | _ => false end) (t_columns t)
   || existsb (fun k => match k with
                        | CIndex n cols | CUnique n cols =>
                            (existsb (has_any [dq; bs; cr; lf]) cols
                             || match n with Some x => has_any [dq; bs; cr; lf] x | None => false end)%bool
                        | CForeignKey _ _ rt rcs _ _ => existsb (has_any [dq; bs; cr; lf]) (rt :: rcs)
                        | _ => false end) (t_constraints t))%bool.

(* SQLModel uses text("...") for a default that is not a call, a boolean, a quoted literal or a number
   (sqlmodel/mod.rs:396-401) but imports `text` only when some default contains '(' (103-109, 150-152) *)
Fixpoint all_digits (s : string) : bool :=
  match s with EmptyString => true | String a r => (is_ascii_digit a && all_digits r)%bool end.
Definition nonempty_digits (s : string) : bool := (negb (String.eqb s "") && all_digits s)%bool.
Definition strip_sign (s : string) : string :=
  match s with String a r => if (Ascii.eqb a "+" || Ascii.eqb a "-")%bool then r else s | _ => s end.
(* str::parse::<f64>: [sign] (inf | infinity | nan | digits [. digits] [e [sign] digits] | . digits ...) *)
Definition looks_f64 (s : string) : bool :=
  let u := strip_sign s in
  let l := lower u in
  if (String.eqb l "inf" || String.eqb l "infinity" || String.eqb l "nan")%bool then true
  else
    let (mant, expo) := match split_on "e"%char l with
                        | [m] => (m, None)
                        | [m; e] => (m, Some e)
                        | _ => ("", Some "x")
                        end in
    let mant_ok := match split_on "."%char mant with
                   | [i] => nonempty_digits i
                   | [i; f] => (all_digits i && all_digits f && negb (String.eqb i "" && String.eqb f ""))%bool
                   | _ => false
                   end in
    let exp_ok := match expo with None => true | Some e => nonempty_digits (strip_sign e) end in
    (mant_ok && exp_ok)%bool.
Definition sqlmodel_uses_text_fallback (d : default_value) : bool :=
  let s := default_to_sql d in
  (negb (contains_char "("%char s) && negb (String.eqb s "true") && negb (String.eqb s "false")
   && negb (starts_with "'" s) && negb (starts_with """" s) && negb (looks_f64 s))%bool.
Definition known_C17_py_sqlmodel_text (t : table_def) : bool :=
  (negb (has_server_default t)
   && existsb (fun c => match c_default c with Some d => sqlmodel_uses_text_fallback d | None => false end) (t_columns t))%bool.
