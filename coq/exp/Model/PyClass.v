(* C17, Python half: classifiers of the known ways in which the SQLAlchemy / SQLModel exporters emit text
   that Python rejects or that re-defines a name.  The Python output itself is *not* modelled (C17 is partial
   there, decided by the ast-based oracle); these booleans only delimit the classes of inputs on which the
   oracle is already known to fail, so that anything else is reported as a violation.
   Non-ASCII bytes are treated as identifier characters (true for letters; symbols are not modelled).
   No proofs here. *)
From VV.EXP Require Export Names.

Definition py_keywords : list string :=
  ["False"; "None"; "True"; "and"; "as"; "assert"; "async"; "await"; "break"; "class"; "continue"; "def";
   "del"; "elif"; "else"; "except"; "finally"; "for"; "from"; "global"; "if"; "import"; "in"; "is";
   "lambda"; "nonlocal"; "not"; "or"; "pass"; "raise"; "return"; "try"; "while"; "with"; "yield"].

Definition non_ascii (a : ascii) : bool := N.leb 128 (N_of_ascii a).
Definition py_start (a : ascii) : bool := (is_ascii_alpha a || Ascii.eqb a "_" || non_ascii a)%bool.
Definition py_cont (a : ascii) : bool := (py_start a || is_ascii_digit a)%bool.
Fixpoint all_chars (p : ascii -> bool) (s : string) : bool :=
  match s with EmptyString => true | String a r => (p a && all_chars p r)%bool end.
Definition py_ident_ok (s : string) : bool :=
  match s with
  | EmptyString => false
  | String a r => (py_start a && all_chars py_cont r && negb (mem_str s py_keywords))%bool
  end.

(* to_screaming_snake_case (sqlalchemy 554-573 = sqlmodel 493-512), ASCII model *)
Fixpoint screaming_aux (first : bool) (s : string) : string :=
  match s with
  | EmptyString => EmptyString
  | String a r =>
      let u := to_upper_ascii_char a in
      let c := if (is_ascii_alnum u || Ascii.eqb u "_" || non_ascii u)%bool then u else "_"%char in
      let rest := String c (screaming_aux false r) in
      if (negb first && is_ascii_upper a)%bool then String "_" rest else rest
  end.
Definition py_screaming (s : string) : string := screaming_aux true s.

Definition enum_cols (t : table_def) : list (string * enum_values) :=
  flat_map (fun c => match c_type c with TEnum n v => [(n, v)] | _ => [] end) (t_columns t).
Definition py_variants (v : enum_values) : list string :=
  match v with EVString l => map py_screaming l | EVInteger l => map nv_name l end.

(* some emitted identifier is not one: a column name, the class name of the table or of an enum, a variant *)
Definition known_C17_py_ident (t : table_def) : bool :=
  (existsb (fun c => negb (py_ident_ok (c_name c))) (t_columns t)
   || negb (py_ident_ok (py_pascal_case (t_name t)))
   || existsb (fun e => (negb (py_ident_ok (py_pascal_case (fst e)))
                         || existsb (fun x => negb (py_ident_ok x)) (py_variants (snd e)))%bool) (enum_cols t))%bool.

(* a name is defined twice: two variants of one enum, two enum classes (the Python exporters do not
   de-duplicate enums used by several columns), an enum class named like the table class, two columns *)
Definition known_C17_py_dup (t : table_def) : bool :=
  (existsb (fun e => has_dup (py_variants (snd e))) (enum_cols t)
   || has_dup (py_pascal_case (t_name t) :: map (fun e => py_pascal_case (fst e)) (enum_cols t))
   || has_dup (map c_name (t_columns t)))%bool.

(* former class of C17-py-empty-sqlalchemy-import (fixed by 661b98e; statistics only): nothing contributes a name *)
Definition known_C17_py_empty_import (t : table_def) : bool :=
  match sa_inserts t with [] => true | _ => false end.

(* free text spliced into Python source without (complete) escaping: defaults, descriptions, comments,
   names inside string literals *)
Definition has_any (cs : list ascii) (s : string) : bool := existsb (fun c => contains_char c s) cs.
Definition bs : ascii := ascii_of_N 92.
Definition cr : ascii := ascii_of_N 13.
Definition lf : ascii := ascii_of_N 10.
Definition dq : ascii := ascii_of_N 34.
Definition sq : ascii := ascii_of_N 39.
Definition last_char (s : string) : option ascii :=
  match rev_string s with EmptyString => None | String a _ => Some a end.
Definition simple_literal (s : string) : bool :=
  match s with
  | String q r =>
      match rev_string r with
      | String q' mid => (Ascii.eqb q q' && negb (has_any [q; bs; cr; lf] mid))%bool
      | EmptyString => false
      end
  | EmptyString => false
  end.
Definition py_default_bad (d : default_value) : bool :=
  let s := default_to_sql d in
  if contains_char "("%char s then has_any [bs; cr; lf] s
  else match s with
       | String q _ => if (Ascii.eqb q sq || Ascii.eqb q dq)%bool then negb (simple_literal s) else has_any [bs; cr; lf] s
       | EmptyString => false
       end.
Definition known_C17_py_text (t : table_def) : bool :=
  (existsb (fun c => match c_default c with Some d => py_default_bad d | None => false end) (t_columns t)
   || match t_description t with Some d => (has_any [bs; cr] d || Str.starts_with """" (rev_string d)
                                            || existsb (fun p => Str.starts_with """""""" p) (map (fun i => substring i 3 d) (seq 0 (String.length d))))%bool
      | None => false end
   || existsb (fun c => match c_comment c with Some m => contains_char cr m | None => false end) (t_columns t)
   || has_any [dq; bs; cr; lf] (t_name t)
   || existsb (fun c => match c_type c with
                        | TCustom x => has_any [dq; bs; cr; lf] x
                        | TEnum _ (EVString l) => existsb (has_any [dq; bs; cr; lf]) l
                        | _ => false end) (t_columns t)
   || existsb (fun k => match k with
                        | CIndex n cols | CUnique n cols =>
                            (existsb (has_any [dq; bs; cr; lf]) cols
                             || match n with Some x => has_any [dq; bs; cr; lf] x | None => false end)%bool
                        | CForeignKey _ _ rt rcs _ _ => existsb (has_any [dq; bs; cr; lf]) (rt :: rcs)
                        | _ => false end) (t_constraints t))%bool.

(* former class of C17-py-sqlmodel-text-import (fixed by e0ae11e; statistics only): no default contains '(' but some
   default is wrapped in text("...") — before the fix `text` was then used without being imported *)
Definition known_C17_py_sqlmodel_text (t : table_def) : bool :=
  (negb (has_server_default t) && sqlmodel_needs_text t)%bool.

(* class of the finding C17-py-sqlmodel-float-word: SQLModel's render_column pastes every default that
   str::parse::<f64> accepts as `default=<text>` (sqlmodel/mod.rs:407-408); Rust also accepts the words
   inf / infinity / nan (any case, optional sign), which are not Python literals but undefined NAMES *)
Definition py_float_word (s : string) : bool :=
  let l := map_string to_lower_ascii_char (strip_sign s) in
  (String.eqb l "inf" || String.eqb l "infinity" || String.eqb l "nan")%bool.
Definition known_C17_py_sqlmodel_float_word (t : table_def) : bool :=
  existsb (fun c => match c_default c with Some d => py_float_word (default_to_sql d) | None => false end) (t_columns t).

(* ---------- the annotation of a column in the two Python ORMs ----------
   column_type_to_python (sqlalchemy 457-499 = sqlmodel 437-479, called with col.nullable): base type, wrapped in
   Optional[...] iff the column is nullable.  Enum columns use the Python to_pascal_case of the enum name. *)
Definition py_base_type (t : column_type) : string :=
  match t with
  | TSimple SmallInt | TSimple Integer | TSimple BigInt => "int"
  | TSimple Real | TSimple DoublePrecision => "float"
  | TSimple Text | TSimple Interval | TSimple Inet | TSimple Cidr | TSimple Macaddr | TSimple Xml => "str"
  | TSimple Boolean => "bool"
  | TSimple Date => "date" | TSimple Time => "time" | TSimple Timestamp | TSimple Timestamptz => "datetime"
  | TSimple Bytea => "bytes" | TSimple Uuid => "UUID" | TSimple Json => "dict"
  | TVarchar _ | TChar _ | TCustom _ => "str"
  | TNumeric _ _ => "Decimal"
  | TEnum name _ => py_pascal_case name
  end.
Definition py_field_optional (c : column_def) : bool := c_nullable c.
Definition py_annotation (c : column_def) : string :=
  if py_field_optional c then "Optional[" +++ py_base_type (c_type c) +++ "]" else py_base_type (c_type c).
(* comparison used by K-exp: the whole annotation text; for enum columns with a non-ASCII name (char::to_uppercase is
   not modelled) only the Optional[...] wrapper *)
Definition annotation_check (c : column_def) (ann : string) : bool :=
  match c_type c with
  | TEnum name _ =>
      if all_chars (fun a => negb (non_ascii a)) name then String.eqb ann (py_annotation c)
      else Bool.eqb (starts_with "Optional[" ann) (py_field_optional c)
  | _ => String.eqb ann (py_annotation c)
  end.

(* class of the finding C17-seaorm-doc-comment-cr: the SeaORM exporter writes descriptions and comments line by line
   behind `///` using str::lines(), which splits at \n and \r\n only: a carriage return that is not followed by a line
   feed stays inside the doc-comment line, which rustc rejects ("bare CR not allowed in doc-comment") *)
Fixpoint has_bare_cr (s : string) : bool :=
  match s with
  | EmptyString => false
  | String a r =>
      if Ascii.eqb a cr then
        match r with
        | String b r' => if Ascii.eqb b lf then has_bare_cr r' else true
        | EmptyString => true
        end
      else has_bare_cr r
  end.
Definition known_C17_seaorm_doc_cr (t : table_def) : bool :=
  (match t_description t with Some d => has_bare_cr d | None => false end
   || existsb (fun c => match c_comment c with Some m => has_bare_cr m | None => false end) (t_columns t))%bool.
