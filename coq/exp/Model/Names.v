(* M7 / C17: the name machinery of the SeaORM exporter (vespertide-exporter/src/seaorm/mod.rs) and the
   *declarations* it generates for one table: fields of `pub struct Model` (columns, relations), relation
   enum names, enum types with their variants, referenced entities.  Not the text layout.
   Strings are UTF-8 byte strings; `chars()`-based Rust loops are modelled on bytes by skipping
   continuation bytes (they belong to the character whose first byte was already handled).
   Not modelled (named in the trusted base): Unicode case mapping of non-ASCII characters in
   str::to_lowercase / to_uppercase (table names, the "JSONB" test).  No proofs here. *)
From VV.M1 Require Export Schema.
From VV.EXP Require Export Display Imports.

Inductive xerr := XDiverge | XPanic.          (* fuel exhausted (shown unreachable, NamesP / UniqueP); index out of bounds *)

(* ---------- character classes ---------- *)
Definition byte_in (lo hi : N) (a : ascii) : bool := let n := N_of_ascii a in (N.leb lo n && N.leb n hi)%bool.
Definition is_ascii_digit (a : ascii) : bool := byte_in 48 57 a.
Definition is_ascii_upper (a : ascii) : bool := byte_in 65 90 a.
Definition is_ascii_alpha (a : ascii) : bool := (byte_in 65 90 a || byte_in 97 122 a)%bool.
Definition is_ascii_alnum (a : ascii) : bool := (is_ascii_alpha a || is_ascii_digit a)%bool.
Definition lower (s : string) : string := map_string to_lower_ascii_char s.
Definition upper (s : string) : string := map_string to_upper_ascii_char s.

Definition drop_last (n : nat) (s : string) : string := substring 0 (String.length s - n) s.

(* RUST_KEYWORDS (1066-1074) *)
Definition rust_keywords : list string :=
  ["as"; "async"; "await"; "break"; "const"; "continue"; "crate"; "dyn"; "else"; "enum"; "extern";
   "false"; "fn"; "for"; "if"; "impl"; "in"; "let"; "loop"; "match"; "mod"; "move"; "mut"; "pub";
   "ref"; "return"; "self"; "Self"; "static"; "struct"; "super"; "trait"; "true"; "type";
   "unsafe"; "use"; "where"; "while";
   "abstract"; "become"; "box"; "do"; "final"; "macro"; "override"; "priv"; "try"; "typeof";
   "unsized"; "virtual"; "yield"].

(* sanitize_field_name (1076-1097) *)
Fixpoint sanitize_aux (first : bool) (s : string) : string :=
  match s with
  | EmptyString => EmptyString
  | String a r =>
      if is_cont a then sanitize_aux first r
      else
        let rest := sanitize_aux false r in
        if ((is_ascii_alnum a && (negb first || is_ascii_alpha a)) || Ascii.eqb a "_")%bool then String a rest
        else if (first && is_ascii_digit a)%bool then String "_" (String a rest)
        else String "_" rest
  end.
Definition sanitize_field_name (name : string) : string :=
  let r := sanitize_aux true name in
  if String.eqb r "" then "_col"
  else if mem_str r rust_keywords then "r#" +++ r
  else r.

(* to_pascal_case of the SeaORM exporter (1207-1225): '_' and '-' separate, to_ascii_uppercase *)
Fixpoint pascal_aux (cap : bool) (s : string) : string :=
  match s with
  | EmptyString => EmptyString
  | String a r =>
      if (Ascii.eqb a "_" || Ascii.eqb a "-")%bool then pascal_aux true r
      else String (if cap then to_upper_ascii_char a else a) (pascal_aux false r)
  end.
Definition to_pascal_case (s : string) : string := pascal_aux true s.

(* to_pascal_case of the two Python exporters (sqlalchemy 542-552, sqlmodel 481-491): split('_'), upper-case
   the first character of every word — char::to_uppercase is Unicode aware, modelled for ASCII only *)
Definition cap_first (w : string) : string :=
  match w with EmptyString => EmptyString | String a r => String (to_upper_ascii_char a) r end.
Definition py_pascal_case (s : string) : string :=
  fold_right String.append "" (map cap_first (split_on "_"%char s)).

(* to_snake_case (1229-1238) *)
Fixpoint snake_aux (first : bool) (s : string) : string :=
  match s with
  | EmptyString => EmptyString
  | String a r =>
      let c := String (to_lower_ascii_char a) (snake_aux false r) in
      if (negb first && is_ascii_upper a)%bool then String "_" c else c
  end.
Definition to_snake_case (s : string) : string := snake_aux true s.

(* enum_variant_name (1186-1205) *)
Definition enum_variant_name (s : string) : string :=
  let p := to_pascal_case s in
  match p with
  | EmptyString => "Value"
  | String a _ => if is_ascii_digit a then "N" +++ p else p
  end.

(* pluralize (1016-1030) *)
Definition pluralize (name : string) : string :=
  if (ends_with "s" name || ends_with "es" name)%bool then name
  else if (ends_with "y" name && negb (ends_with "ay" name) && negb (ends_with "ey" name)
           && negb (ends_with "oy" name) && negb (ends_with "uy" name))%bool
  then drop_last 1 name +++ "ies"
  else name +++ "s".

(* fk_attr_value (1032-1038) *)
Definition fk_attr_value (cols : list string) : string :=
  match cols with
  | [c] => c
  | _ => "(" +++ join ", " cols +++ ")"
  end.

(* generate_relation_enum_name (575-585): columns[0] panics on an empty list *)
Definition generate_relation_enum_name (columns : list string) : option string :=
  match columns with
  | [] => None
  | first :: _ => Some (to_pascal_case (if ends_with "_id" first then drop_last 3 first else first))
  end.

(* infer_field_name_from_fk_column (597-624); both non-fallback branches return [sanitized] *)
Definition infer_field_name_from_fk_column (fk_column table_name to : string) : string :=
  let suffix := "_" +++ to in
  let without_suffix := if ends_with suffix fk_column then drop_last (String.length suffix) fk_column else fk_column in
  let sanitized := sanitize_field_name without_suffix in
  if String.eqb (lower sanitized) (lower table_name) then sanitize_field_name table_name else sanitized.

(* extract_relation_prefix / build_reverse_relation_field_name: the current source has no functions of
   these names; their role is played by generate_relation_enum_name + to_snake_case (810-826) *)
Definition reverse_field_base (has_multiple_fks one_to_one : bool) (base_relation_enum other_name : string) : string :=
  if has_multiple_fks then
    let l := to_snake_case base_relation_enum in
    if one_to_one then l else l +++ "_" +++ pluralize (sanitize_field_name other_name)
  else if one_to_one then sanitize_field_name other_name
  else pluralize (sanitize_field_name other_name).

(* unique_name (1099-1108): `while used.contains(&name)`; the loop gets |used|+1 rounds of fuel *)
Fixpoint unique_name_loop (fuel : nat) (base : string) (i : N) (name : string) (used : list string) : option string :=
  if mem_str name used then
    match fuel with
    | O => None
    | S f => unique_name_loop f base (i + 1) (base +++ "_" +++ N_to_string i) used
    end
  else Some name.
Definition unique_name (base : string) (used : list string) : option string :=
  unique_name_loop (S (List.length used)) base 1 base used.

(* names handed out one after the other from one `used` set (which starts EMPTY, 444) *)
Fixpoint alloc_names (bases : list string) (used : list string) : option (list string) :=
  match bases with
  | [] => Some []
  | b :: r =>
      match unique_name b used with
      | None => None
      | Some n => match alloc_names r (n :: used) with
                  | None => None
                  | Some ns => Some (n :: ns)
                  end
      end
  end.

(* ---------- table facts ---------- *)
Definition fk := (list string * string * list string)%type.     (* columns, ref_table, ref_columns *)
Definition fks_of (t : table_def) : list fk :=
  flat_map (fun c => match c with CForeignKey _ cols rt rcs _ _ => [(cols, rt, rcs)] | _ => [] end) (t_constraints t).

(* primary_key_columns (366-391): a set; only contains / len are observed *)
Definition primary_key_columns (t : table_def) : list string :=
  hs_of_inserts
    (flat_map (fun c => match c with CPrimaryKey _ cols => cols | _ => [] end) (t_constraints t)
     ++ flat_map (fun c => match c_primary_key c with
                           | Some (PKBool true) | Some (PKObj _) => [c_name c]
                           | _ => [] end) (t_columns t)) [].
(* single_column_unique_set (176-186) / single_column_index_set (189-199) *)
Definition single_column_unique_set (t : table_def) : list string :=
  flat_map (fun c => match c with CUnique _ [x] => [x] | _ => [] end) (t_constraints t).
Definition single_column_index_set (t : table_def) : list string :=
  flat_map (fun c => match c with CIndex _ [x] => [x] | _ => [] end) (t_constraints t).

Definition find_table (schema : list table_def) (name : string) : option table_def :=
  find (fun t => String.eqb (t_name t) name) schema.
Definition table_exists (schema : list table_def) (name : string) : bool :=
  existsb (fun t => String.eqb (t_name t) name) schema.

(* resolve_fk_target / resolve_fk_chain (412-456): recursion along single-column FK chains with a visited set *)
Definition next_fk (target : table_def) (ref_col : string) : option (string * list string) :=
  match find (fun f => match f with (([c], _), _) => String.eqb c ref_col | _ => false end) (fks_of target) with
  | Some ((_, nt), ncs) => Some (nt, ncs)
  | None => None
  end.
Definition node_eqb (a b : string * string) : bool := (String.eqb (fst a) (fst b) && String.eqb (snd a) (snd b))%bool.
(* resolve_fk_chain (421-456, fix c0929b8): [visited] = the (table, column) nodes already followed; a node seen
   before ends the walk and is returned.  The fuel stays (the recursion is not structural) and is shown sufficient. *)
Fixpoint resolve_fk_chain (fuel : nat) (schema : list table_def) (ref_table : string) (ref_columns : list string)
  (visited : list (string * string)) : option (string * list string) :=
  match fuel with
  | O => None
  | S f =>
      match schema, ref_columns with
      | [], _ => Some (ref_table, ref_columns)
      | _, [ref_col] =>
          if existsb (node_eqb (ref_table, ref_col)) visited then Some (ref_table, ref_columns)
          else
            match find_table schema ref_table with
            | None => Some (ref_table, ref_columns)
            | Some target =>
                match next_fk target ref_col with
                | Some (nt, ncs) => resolve_fk_chain f schema nt ncs ((ref_table, ref_col) :: visited)
                | None => Some (ref_table, ref_columns)
                end
            end
      | _, _ => Some (ref_table, ref_columns)
      end
  end.
(* resolve_fk_target (412-419) *)
Definition resolve_fk_target (fuel : nat) (schema : list table_def) (ref_table : string) (ref_columns : list string)
  : option (string * list string) := resolve_fk_chain fuel schema ref_table ref_columns [].

(* same walk; does it end because it came back to a node it had followed? (former class of C16-seaorm-fk-cycle) *)
Fixpoint chain_closes (fuel : nat) (schema : list table_def) (ref_table : string) (ref_columns : list string)
  (visited : list (string * string)) : bool :=
  match fuel with
  | O => false
  | S f =>
      match schema, ref_columns with
      | [], _ => false
      | _, [ref_col] =>
          if existsb (node_eqb (ref_table, ref_col)) visited then true
          else match find_table schema ref_table with
               | None => false
               | Some target => match next_fk target ref_col with
                                | Some (nt, ncs) => chain_closes f schema nt ncs ((ref_table, ref_col) :: visited)
                                | None => false
                                end
               end
      | _, _ => false
      end
  end.
(* every step adds a new (table, column) node that carries a single-column FK: more than their number cannot be taken *)
Definition resolve_fuel (schema : list table_def) : nat :=
  S (S (List.length (flat_map fks_of schema))).

(* ---------- declarations ---------- *)
Inductive rel_kind := BelongsTo | HasOne | HasMany.
Inductive member :=
| MCol (field ty : string) (optional pk : bool)
| MRel (field : string) (kind : rel_kind) (entity : string) (relation_enum from to via : option string).
Record decl := mkDecl {
  d_members : list member;
  d_enums : list (string * list string) }.

Definition member_name (m : member) : string :=
  match m with MCol f _ _ _ => f | MRel f _ _ _ _ _ _ => f end.
Definition is_col_member (m : member) : bool := match m with MCol _ _ _ _ => true | _ => false end.
Definition member_entity (m : member) : list string :=
  match m with MRel _ _ e _ _ _ _ => [e] | _ => [] end.
Definition member_relation_enum (m : member) : list string :=
  match m with MRel _ _ _ (Some e) _ _ _ => [e] | _ => [] end.

(* ColumnType::to_rust_type (column.rs:76-113) with the two overrides of render_column (260-280) *)
Definition rust_base_type (t : column_type) : string :=
  match t with
  | TSimple SmallInt => "i16" | TSimple Integer => "i32" | TSimple BigInt => "i64"
  | TSimple Real => "f32" | TSimple DoublePrecision => "f64"
  | TSimple Text => "String" | TSimple Boolean => "bool"
  | TSimple Date => "Date" | TSimple Time => "Time" | TSimple Timestamp => "DateTime"
  | TSimple Timestamptz => "DateTimeWithTimeZone" | TSimple Interval => "String"
  | TSimple Bytea => "Vec<u8>" | TSimple Uuid => "Uuid" | TSimple Json => "Json"
  | TSimple Inet | TSimple Cidr | TSimple Macaddr | TSimple Xml => "String"
  | TVarchar _ | TChar _ => "String"
  | TNumeric _ _ => "Decimal"
  | TCustom c => if String.eqb (upper c) "JSONB" then "Json" else "String"
  | TEnum name _ => to_pascal_case name
  end.

Definition column_member (pks : list string) (c : column_def) : member :=
  MCol (sanitize_field_name (c_name c)) (rust_base_type (c_type c)) (c_nullable c) (mem_str (c_name c) pks).
Definition column_members (t : table_def) : list member :=
  map (column_member (primary_key_columns t)) (t_columns t).

(* render_enum (1110-1182) for the first column of every distinct enum *name* (104-113) *)
Fixpoint enum_decls_aux (cols : list column_def) (processed : list string) : list (string * list string) :=
  match cols with
  | [] => []
  | c :: r =>
      match c_type c with
      | TEnum name values =>
          if mem_str name processed then enum_decls_aux r processed
          else (to_pascal_case name, map enum_variant_name (ev_variant_names values))
               :: enum_decls_aux r (name :: processed)
      | _ => enum_decls_aux r processed
      end
  end.
Definition enum_decls (t : table_def) : list (string * list string) := enum_decls_aux (t_columns t) [].

(* ---------- relations ---------- *)
Record rel_info := mkRel {
  ri_kind : rel_kind;
  ri_entity : string;
  ri_field_base : string;
  ri_needs_enum : bool;
  ri_enum_first : string;     (* relation_enum = if first is already used then alt else first *)
  ri_enum_alt : string;
  ri_from : option string;
  ri_to : option string;
  ri_via : option string }.

Definition count_str (x : string) (l : list string) : nat := List.length (filter (String.eqb x) l).

(* many-to-many detection shared by collect_many_to_many_targets (680-737) and
   collect_many_to_many_relations (912-1013) *)
Definition is_junction_for (current junction : table_def) : bool :=
  let pk := primary_key_columns junction in
  let fks := fks_of junction in
  (Nat.leb 2 (List.length pk) && Nat.leb 2 (List.length fks)
   && forallb (fun f => forallb (fun c => mem_str c pk) (fst (fst f))) fks
   && existsb (fun f => String.eqb (snd (fst f)) (t_name current)) fks)%bool.
Definition m2m_other_targets (current junction : table_def) (schema : list table_def) : list string :=
  flat_map (fun f => let rt := snd (fst f) in
                     if String.eqb rt (t_name current) then []
                     else if table_exists schema rt then [rt] else []) (fks_of junction).

(* collect_reverse_relation_targets (647-677) *)
Definition reverse_targets (t : table_def) (schema : list table_def) : list string :=
  flat_map (fun other =>
    if String.eqb (t_name other) (t_name t) then []
    else if is_junction_for t other then t_name other :: m2m_other_targets t other schema
    else flat_map (fun f => if String.eqb (snd (fst f)) (t_name t) then [t_name other] else []) (fks_of other))
    schema.

(* forward (belongs_to) relations (496-557); [all_targets] = forward targets ++ reverse targets *)
Definition forward_resolved (fuel : nat) (t : table_def) (schema : list table_def)
  : result (list (fk * (string * list string))) xerr :=
  map_result (fun f => match resolve_fk_target fuel schema (snd (fst f)) (snd f) with
                       | Some r => Ok (f, r)
                       | None => Err XDiverge
                       end) (fks_of t).

Definition forward_info (t : table_def) (fwd_targets all_targets : list string)
  (fr : fk * (string * list string)) : result rel_info xerr :=
  let '((columns, _, _), (resolved_table, resolved_columns)) := fr in
  let from := fk_attr_value columns in
  let to := fk_attr_value resolved_columns in
  let field_base := match columns with
                    | [c] => infer_field_name_from_fk_column c resolved_table to
                    | _ => sanitize_field_name resolved_table
                    end in
  let needs := (Nat.ltb 1 (count_str resolved_table fwd_targets) || Nat.ltb 1 (count_str resolved_table all_targets))%bool in
  if needs then
    match generate_relation_enum_name columns with
    | None => Err XPanic
    | Some base => Ok (mkRel BelongsTo resolved_table field_base true base (base +++ to_pascal_case (t_name t))
                             (Some from) (Some to) None)
    end
  else Ok (mkRel BelongsTo resolved_table field_base false "" "" (Some from) (Some to) None).

(* reverse (has_one / has_many) relations (740-907, 912-1013) *)
Definition fk_count_from (t : table_def) (schema : list table_def) (name : string) : nat :=
  List.length (flat_map (fun other =>
    if (negb (String.eqb (t_name other) (t_name t)) && String.eqb (t_name other) name)%bool
    then filter (fun f => String.eqb (snd (fst f)) (t_name t)) (fks_of other) else []) schema).

Definition m2m_infos (t junction : table_def) (schema : list table_def) (all_targets : list string) : list rel_info :=
  let jn := t_name junction in
  mkRel HasMany jn (pluralize (sanitize_field_name jn)) (Nat.ltb 1 (count_str jn all_targets))
        (to_pascal_case jn) (to_pascal_case jn) None None
        (if Nat.ltb 1 (count_str jn all_targets) then Some jn else None)
  :: map (fun rt =>
        let base_enum := to_pascal_case rt +++ "Via" +++ to_pascal_case jn in
        mkRel HasMany rt (pluralize (sanitize_field_name rt) +++ "_via_" +++ sanitize_field_name jn)
              (Nat.ltb 1 (count_str rt all_targets)) base_enum base_enum None None (Some jn))
       (m2m_other_targets t junction schema).

Definition direct_reverse_info (t other : table_def) (schema : list table_def) (all_targets : list string)
  (f : fk) : result rel_info xerr :=
  let columns := fst (fst f) in
  let other_pk := primary_key_columns other in
  let other_unique := single_column_unique_set other in
  let one := match columns with
             | [col] => ((Nat.eqb (List.length other_pk) 1 && mem_str col other_pk) || mem_str col other_unique)%bool
             | _ => (Nat.eqb (List.length columns) (List.length other_pk) && forallb (fun c => mem_str c other_pk) columns)%bool
             end in
  let multi := Nat.ltb 1 (fk_count_from t schema (t_name other)) in
  match generate_relation_enum_name columns with
  | None => Err XPanic
  | Some base_enum =>
      let needs := (multi || Nat.ltb 1 (count_str (t_name other) all_targets))%bool in
      Ok (mkRel (if one then HasOne else HasMany) (t_name other)
                (reverse_field_base multi one base_enum (t_name other))
                needs (to_pascal_case (t_name other)) base_enum None None
                (if needs then Some (t_name other) else None))
  end.

Fixpoint concat_results {A} (l : list (result (list A) xerr)) : result (list A) xerr :=
  match l with
  | [] => Ok []
  | Err e :: _ => Err e
  | Ok x :: r => match concat_results r with Ok y => Ok (x ++ y) | Err e => Err e end
  end.

Definition reverse_infos (t : table_def) (schema : list table_def) (all_targets : list string)
  : result (list rel_info) xerr :=
  concat_results (map (fun other =>
    if String.eqb (t_name other) (t_name t) then Ok []
    else if is_junction_for t other then Ok (m2m_infos t other schema all_targets)
    else map_result (direct_reverse_info t other schema all_targets)
           (filter (fun f => String.eqb (snd (fst f)) (t_name t)) (fks_of other))) schema).

(* relation_enum names: one `used_relation_enums` set through forward then reverse relations (493, 537-544, 868-887) *)
Fixpoint alloc_enums (infos : list rel_info) (used : list string) : list (option string) :=
  match infos with
  | [] => []
  | r :: rest =>
      if ri_needs_enum r then
        let n := if mem_str (ri_enum_first r) used then ri_enum_alt r else ri_enum_first r in
        Some n :: alloc_enums rest (n :: used)
      else None :: alloc_enums rest used
  end.

Fixpoint zip_members (infos : list rel_info) (names : list string) (enums : list (option string)) : list member :=
  match infos, names, enums with
  | r :: ri, n :: rn, e :: re =>
      MRel n (ri_kind r) (ri_entity r) e (ri_from r) (ri_to r) (ri_via r) :: zip_members ri rn re
  | _, _, _ => []
  end.

(* relation_field_defs_with_schema (442-570) *)
Definition relation_infos (fuel : nat) (schema : list table_def) (t : table_def) : result (list rel_info) xerr :=
  rbind (forward_resolved fuel t schema) (fun fwd =>
  let fwd_targets := map (fun x => fst (snd x)) fwd in
  let all_targets := fwd_targets ++ reverse_targets t schema in
  rbind (map_result (forward_info t fwd_targets all_targets) fwd) (fun fi =>
  rbind (reverse_infos t schema all_targets) (fun ri => Ok (fi ++ ri)))).

Definition relation_members (fuel : nat) (schema : list table_def) (t : table_def) : result (list member) xerr :=
  rbind (relation_infos fuel schema t) (fun infos =>
  match alloc_names (map ri_field_base infos) [] with
  | None => Err XDiverge
  | Some names => Ok (zip_members infos names (alloc_enums infos []))
  end).

Definition members_fuel (fuel : nat) (schema : list table_def) (t : table_def) : result decl xerr :=
  rbind (relation_members fuel schema t) (fun rels =>
  Ok (mkDecl (column_members t ++ rels) (enum_decls t))).

(* render_entity_with_schema (69-173) as declarations *)
Definition members (schema : list table_def) (t : table_def) : result decl xerr :=
  members_fuel (resolve_fuel schema) schema t.

(* ---------- decidable equality, duplicates ---------- *)
Definition rel_kind_eq_dec (x y : rel_kind) : {x = y} + {x <> y}. Proof. decide equality. Defined.
Definition member_eq_dec (x y : member) : {x = y} + {x <> y}.
Proof.
  decide equality; auto using string_dec, bool_dec, rel_kind_eq_dec; apply option_eq_dec, string_dec.
Defined.
Definition decl_eq_dec (x y : decl) : {x = y} + {x <> y}.
Proof.
  decide equality.
  - apply list_eq_dec, pair_eq_dec; [apply string_dec | apply list_eq_dec, string_dec].
  - apply list_eq_dec, member_eq_dec.
Defined.
Definition xerr_eq_dec (x y : xerr) : {x = y} + {x <> y}. Proof. decide equality. Defined.

Fixpoint has_dup (l : list string) : bool :=
  match l with
  | [] => false
  | x :: r => (mem_str x r || has_dup r)%bool
  end.

(* ---------- classifier of the known finding D14 (C17): some name of the generated type is not unique ----------
   evaluated on the *input* through the name functions above: two columns sanitising to one field; a relation
   field (handed out from a `used` set that starts empty) equal to a column field; two relation enums, two enum
   types or two variants of one enum with one name *)
Definition known_C17_clash (schema : list table_def) (t : table_def) : bool :=
  let cols := map member_name (column_members t) in
  match relation_members (resolve_fuel schema) schema t with
  | Err _ => false
  | Ok rels =>
      (has_dup cols
       || existsb (fun r => mem_str (member_name r) cols) rels
       || has_dup (flat_map member_relation_enum rels)
       || has_dup (map fst (enum_decls t))
       || existsb (fun e => has_dup (snd e)) (enum_decls t))%bool
  end.

(* hypothesis of refs_exist: every FK of every table of the slice names a table of the slice (validate_schema) *)
Definition fk_closed (schema : list table_def) : bool :=
  forallb (fun tb => forallb (fun f => table_exists schema (snd (fst f))) (fks_of tb)) schema.

(* former class of C16-seaorm-fk-cycle (D15, fixed by c0929b8; statistics only): some FK of the table starts a
   single-column chain that comes back to a node it has followed *)
Definition known_C16_fk_cycle (schema : list table_def) (t : table_def) : bool :=
  existsb (fun f => chain_closes (resolve_fuel schema) schema (snd (fst f)) (snd f) []) (fks_of t).

(* classifier of the slice-order finding (C18): at least two other tables contribute reverse relations *)
Definition known_C18_slice_order (schema : list table_def) (t : table_def) : bool :=
  Nat.ltb 1 (List.length (filter (fun other =>
     (negb (String.eqb (t_name other) (t_name t))
      && (is_junction_for t other || existsb (fun f => String.eqb (snd (fst f)) (t_name t)) (fks_of other)))%bool) schema)).
