(* M7 / C16: human-readable action descriptions.
   [display]       = impl fmt::Display for MigrationAction   (vespertide-core/src/action.rs:211-376)
   [format_action] = the CLI's own renderer used by `vespertide diff` (vespertide-cli/src/commands/diff.rs:42-225),
                     with colouring switched off (NO_COLOR): `colored` then emits the plain text.
   A Rust panic is the explicit outcome [Panic].  Strings are UTF-8 byte strings exactly as Rust holds
   them; a byte b is a continuation byte iff 128 <= b < 192.  No proofs here. *)
From VV.M1 Require Export Schema.

Inductive outcome := Txt (s : string) | Panic.

(* ---------- UTF-8 on byte strings ---------- *)
Definition is_cont (a : ascii) : bool :=
  let n := N_of_ascii a in (N.leb 128 n && N.ltb n 192)%bool.

(* str::chars().count() of a valid UTF-8 string = number of non-continuation bytes *)
Fixpoint char_count (s : string) : nat :=
  match s with
  | EmptyString => O
  | String a r => if is_cont a then char_count r else S (char_count r)
  end.

(* chars().take(n).collect::<String>(): the bytes of the first n characters *)
Fixpoint take_chars (n : nat) (s : string) : string :=
  match s with
  | EmptyString => EmptyString
  | String a r =>
      if is_cont a then String a (take_chars n r)
      else match n with
           | O => EmptyString
           | S n' => String a (take_chars n' r)
           end
  end.

(* str::is_char_boundary(i) (core::str): i = 0, i = len, or byte i is not a continuation byte *)
Definition is_char_boundary (s : string) (i : nat) : bool :=
  match i with
  | O => true
  | _ => match String.get i s with
         | Some a => negb (is_cont a)
         | None => Nat.eqb i (String.length s)
         end
  end.

(* &s[..n]: panics unless n <= len and n is a char boundary *)
Definition slice_to (s : string) (n : nat) : option string :=
  if (Nat.leb n (String.length s) && is_char_boundary s n)%bool then Some (substring 0 n s) else None.

(* `let mut end = n; while !s.is_char_boundary(end) { end -= 1 }` (action.rs:364-367, fix b4532c3): the largest
   char boundary <= n.  Index 0 is always a boundary, so the loop never underflows; structural in n. *)
Fixpoint floor_char_boundary (s : string) (n : nat) : nat :=
  match n with
  | O => O
  | S k => if is_char_boundary s (S k) then S k else floor_char_boundary s k
  end.

Fixpoint all_ascii (s : string) : bool :=
  match s with EmptyString => true | String a r => (N.ltb (N_of_ascii a) 128 && all_ascii r)%bool end.

(* ---------- Display (action.rs:211-348) ---------- *)
(* 260-279 and diff.rs:135-143: more than 30 chars -> first 27 chars + "..." *)
Definition truncate_comment (c : string) : string :=
  if Nat.ltb 30 (char_count c) then take_chars 27 c +++ "..." else c.

(* 280-333: the text after "<table>." *)
Definition constraint_display (table : string) (c : table_constraint) : string :=
  match c with
  | CPrimaryKey _ _ => table +++ ".PRIMARY KEY"
  | CUnique (Some n) _ => table +++ "." +++ n +++ " (UNIQUE)"
  | CUnique None _ => table +++ ".UNIQUE"
  | CForeignKey (Some n) _ _ _ _ _ => table +++ "." +++ n +++ " (FOREIGN KEY)"
  | CForeignKey None _ _ _ _ _ => table +++ ".FOREIGN KEY"
  | CCheck n _ => table +++ "." +++ n +++ " (CHECK)"
  | CIndex (Some n) _ => table +++ "." +++ n +++ " (INDEX)"
  | CIndex None _ => table +++ ".INDEX"
  end.

Definition display (a : action) : outcome :=
  match a with
  | CreateTable t _ _ => Txt ("CreateTable: " +++ t)
  | DeleteTable t => Txt ("DeleteTable: " +++ t)
  | AddColumn t c _ => Txt ("AddColumn: " +++ t +++ "." +++ c_name c)
  | RenameColumn t f to => Txt ("RenameColumn: " +++ t +++ "." +++ f +++ " -> " +++ to)
  | DeleteColumn t c => Txt ("DeleteColumn: " +++ t +++ "." +++ c)
  | ModifyColumnType t c _ _ => Txt ("ModifyColumnType: " +++ t +++ "." +++ c)
  | ModifyColumnNullable t c n _ =>
      Txt ("ModifyColumnNullable: " +++ t +++ "." +++ c +++ " -> " +++ (if n then "NULL" else "NOT NULL"))
  | ModifyColumnDefault t c d =>
      Txt ("ModifyColumnDefault: " +++ t +++ "." +++ c +++ " -> "
            +++ match d with Some x => x | None => "(none)" end)
  | ModifyColumnComment t c (Some cm) =>
      Txt ("ModifyColumnComment: " +++ t +++ "." +++ c +++ " -> '" +++ truncate_comment cm +++ "'")
  | ModifyColumnComment t c None => Txt ("ModifyColumnComment: " +++ t +++ "." +++ c +++ " -> (none)")
  | AddConstraint t c => Txt ("AddConstraint: " +++ constraint_display t c)
  | RemoveConstraint t c => Txt ("RemoveConstraint: " +++ constraint_display t c)
  | RenameTable f to => Txt ("RenameTable: " +++ f +++ " -> " +++ to)
  | RawSql sql =>
      (* 359-372: if sql.len() > 50 { end = largest char boundary <= 47; format!("{}...", &sql[..end]) } *)
      if Nat.ltb 50 (String.length sql)
      then match slice_to sql (floor_char_boundary sql 47) with
           | Some p => Txt ("RawSql: " +++ p +++ "...")
           | None => Panic
           end
      else Txt ("RawSql: " +++ sql)
  end.

(* the text the code produced before fix b4532c3 wherever it did not panic: a plain byte slice at 47 *)
Definition display_rawsql_before_fix (sql : string) : outcome :=
  if Nat.ltb 50 (String.length sql) then Txt ("RawSql: " +++ substring 0 47 sql +++ "...") else Txt ("RawSql: " +++ sql).

(* the class of the former finding C16-display-rawsql-slice (fixed by b4532c3; kept for coverage statistics only:
   a fixed finding suppresses nothing) *)
Definition rawsql_ok (a : action) : bool :=
  match a with
  | RawSql sql => (Nat.leb (String.length sql) 50 || is_char_boundary sql 47)%bool
  | _ => true
  end.
Definition known_C16_rawsql_slice (a : action) : bool := negb (rawsql_ok a).

(* ---------- ColumnType::to_display_string (column.rs:117-122, 200-222, 332-348) ----------
   Custom: str::to_lowercase — modelled for ASCII letters only (non-ASCII case mapping is not modelled) *)
Definition simple_display (s : simple_type) : string :=
  match s with
  | SmallInt => "smallint" | Integer => "integer" | BigInt => "bigint" | Real => "real"
  | DoublePrecision => "double precision" | Text => "text" | Boolean => "boolean" | Date => "date"
  | Time => "time" | Timestamp => "timestamp" | Timestamptz => "timestamptz" | Interval => "interval"
  | Bytea => "bytea" | Uuid => "uuid" | Json => "json" | Inet => "inet" | Cidr => "cidr"
  | Macaddr => "macaddr" | Xml => "xml"
  end.
Definition type_display (t : column_type) : string :=
  match t with
  | TSimple s => simple_display s
  | TVarchar n => "varchar(" +++ N_to_string n +++ ")"
  | TNumeric p s => "numeric(" +++ N_to_string p +++ "," +++ N_to_string s +++ ")"
  | TChar n => "char(" +++ N_to_string n +++ ")"
  | TCustom c => map_string to_lower_ascii_char c
  | TEnum n v => if ev_is_integer v then "enum<" +++ n +++ "> (integer)" else "enum<" +++ n +++ ">"
  end.

(* ---------- format_action (diff.rs:42-225), NO_COLOR ---------- *)
Definition format_constraint_type (c : table_constraint) : string :=
  match c with
  | CPrimaryKey _ cols => "PRIMARY KEY (" +++ join ", " cols +++ ")"
  | CUnique (Some n) cols => n +++ " UNIQUE (" +++ join ", " cols +++ ")"
  | CUnique None cols => "UNIQUE (" +++ join ", " cols +++ ")"
  | CForeignKey (Some n) cols rt _ _ _ => n +++ " FK (" +++ join ", " cols +++ ") -> " +++ rt
  | CForeignKey None cols rt _ _ _ => "FK (" +++ join ", " cols +++ ") -> " +++ rt
  | CCheck n e => n +++ " CHECK (" +++ e +++ ")"
  | CIndex (Some n) cols => n +++ " INDEX (" +++ join ", " cols +++ ")"
  | CIndex None cols => "INDEX (" +++ join ", " cols +++ ")"
  end.

Definition format_action (a : action) : outcome :=
  match a with
  | CreateTable t _ _ => Txt ("Create table: " +++ t)
  | DeleteTable t => Txt ("Delete table: " +++ t)
  | AddColumn t c _ => Txt ("Add column: " +++ t +++ "." +++ c_name c)
  | RenameColumn t f to => Txt ("Rename column: " +++ t +++ "." +++ f +++ " -> " +++ to)
  | DeleteColumn t c => Txt ("Delete column: " +++ t +++ "." +++ c)
  | ModifyColumnType t c ty _ => Txt ("Modify column type: " +++ t +++ "." +++ c +++ " -> " +++ type_display ty)
  | ModifyColumnNullable t c n _ =>
      Txt ("Modify column nullability: " +++ t +++ "." +++ c +++ " -> " +++ (if n then "NULL" else "NOT NULL"))
  | ModifyColumnDefault t c d =>
      Txt ("Modify column default: " +++ t +++ "." +++ c +++ " -> " +++ match d with Some x => x | None => "(none)" end)
  | ModifyColumnComment t c cm =>
      Txt ("Modify column comment: " +++ t +++ "." +++ c +++ " -> '"
            +++ truncate_comment (match cm with Some x => x | None => "(none)" end) +++ "'")
  | RenameTable f to => Txt ("Rename table: " +++ f +++ " -> " +++ to)
  | RawSql sql => Txt ("Execute raw SQL: " +++ sql)
  | AddConstraint t c => Txt ("Add constraint: " +++ format_constraint_type c +++ " on " +++ t)
  | RemoveConstraint t c => Txt ("Remove constraint: " +++ format_constraint_type c +++ " from " +++ t)
  end.

Definition outcome_eqb (a b : outcome) : bool :=
  match a, b with
  | Txt x, Txt y => String.eqb x y
  | Panic, Panic => true
  | _, _ => false
  end.
