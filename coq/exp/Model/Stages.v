(* C16: classifiers of the known ways in which a pipeline stage panics on a loader-accepted project
   (models + recorded migrations).  The stages themselves (planning, SQL generation) are modelled in other
   layers; here only the input classes are delimited so that any *other* crash is a violation.
   No proofs here. *)
From VV.EXP Require Export Names.
From VV.M1 Require Import Diff.

Definition types_of_action (a : action) : list column_type :=
  match a with
  | CreateTable _ cols _ => map c_type cols
  | AddColumn _ c _ => [c_type c]
  | ModifyColumnType _ _ ty _ => [ty]
  | _ => []
  end.
Definition case_types (models : schema) (history : list plan) : list column_type :=
  flat_map (fun t => map c_type (t_columns t)) models
  ++ flat_map (fun p => flat_map types_of_action (p_actions p)) history.

(* sea-query 0.32 sqlite/table.rs:157 panics on Decimal precision > 16 *)
Definition known_C16_sqlite_numeric (models : schema) (history : list plan) : bool :=
  existsb (fun t => match t with TNumeric p _ => N.ltb 16 p | _ => false end) (case_types models history).
(* sea-query 0.32 sqlite/table.rs:169 unimplemented!("Interval is not available in Sqlite.") *)
Definition known_C16_sqlite_interval (models : schema) (history : list plan) : bool :=
  existsb (fun t => match t with TSimple Interval => true | _ => false end) (case_types models history).
(* some recorded action is a RawSql whose Display slices inside a character (D3) *)
Definition known_C16_history_rawsql (history : list plan) : bool :=
  existsb (fun p => existsb known_C16_rawsql_slice (p_actions p)) history.
(* some table of the normalised slice starts a single-column FK chain that never ends (D15) *)
Definition known_C16_models_fk_cycle (slice : schema) : bool :=
  existsb (known_C16_fk_cycle slice) slice.

(* plan_next_migration refuses table-level FK cycles among tables it has to create ("Circular foreign key
   dependency"): an error, not a panic, but on a history the tool produced itself (M1 model of the planner) *)
Definition known_C16_plan_cycle (models : schema) (history : list plan) : bool :=
  match plan_next models history with Err (PlanDiff DiffCycle) => true | _ => false end.

(* all C16 classifiers of one O-C16 case = (normalised slice, models as written, history) *)
Definition classify_c16 (c : schema * schema * list plan) : list bool :=
  let '(slice, models, history) := c in
  [known_C16_sqlite_numeric models history; known_C16_sqlite_interval models history;
   known_C16_history_rawsql history; known_C16_models_fk_cycle slice; known_C16_plan_cycle models history].
