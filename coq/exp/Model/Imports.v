(* M7 / C18: the import-line computation of the SQLAlchemy and SQLModel exporters.
   Every HashSet that the Rust code *iterates* is a list without duplicates whose iteration order is
   chosen by an arbitrary permutation oracle [pi : list string -> list string]; the theorems quantify
   over all oracles with [Permutation (pi l) l].  Both exporters sort every collected set before use
   (since fix 44cb6cb also the datetime names).  No proofs here. *)
From VV.M1 Require Export Schema.

(* ---------- HashSet<&str> as an insertion log ---------- *)
(* distinct elements, first insertion first (only the *set* matters: [pi] reorders it arbitrarily) *)
Fixpoint hs_of_inserts (l : list string) (acc : list string) : list string :=
  match l with
  | [] => acc
  | x :: r => if mem_str x acc then hs_of_inserts r acc else hs_of_inserts r (acc ++ [x])
  end.
Definition hs_iter (pi : list string -> list string) (inserts : list string) : list string :=
  pi (hs_of_inserts inserts []).

(* slice::sort on Vec<&str>: bytewise order, stable *)
Definition sort_str (l : list string) : list string := sort_le String.leb l.

(* ---------- SQLAlchemy: UsedTypes (sqlalchemy/mod.rs:20-106) ---------- *)
(* names inserted into sa_types by add_simple_type (32-84) *)
Definition sa_of_simple (s : simple_type) : list string :=
  match s with
  | SmallInt => ["SmallInteger"] | Integer => ["Integer"] | BigInt => ["BigInteger"]
  | Real | DoublePrecision => ["Float"]
  | Text => ["Text"] | Boolean => ["Boolean"]
  | Date => ["Date"] | Time => ["Time"] | Timestamp | Timestamptz => ["DateTime"]
  | Interval => ["Interval"] | Bytea => ["LargeBinary"] | Uuid => ["Uuid"] | Json => ["JSON"]
  | Inet | Cidr | Macaddr => ["String"]
  | Xml => ["Text"]
  end.
(* names inserted into datetime_types (52-63); identical in sqlmodel/mod.rs:29-38 *)
Definition dt_of_simple (s : simple_type) : list string :=
  match s with
  | Date => ["date"] | Time => ["time"] | Timestamp | Timestamptz => ["datetime"]
  | _ => []
  end.
(* add_complex_type (86-105) *)
Definition sa_of_type (t : column_type) : list string :=
  match t with
  | TSimple s => sa_of_simple s
  | TVarchar _ | TChar _ => ["String"]
  | TNumeric _ _ => ["Numeric"]
  | TCustom _ => []
  | TEnum _ (EVString _) => ["Enum"]
  | TEnum _ (EVInteger _) => ["Integer"]
  end.
Definition dt_of_type (t : column_type) : list string :=
  match t with TSimple s => dt_of_simple s | _ => [] end.

Definition is_fk (c : table_constraint) : bool := match c with CForeignKey _ _ _ _ _ _ => true | _ => false end.
Definition is_index (c : table_constraint) : bool := match c with CIndex _ _ => true | _ => false end.
Definition is_composite_unique (c : table_constraint) : bool :=
  match c with CUnique _ cols => Nat.ltb 1 (List.length cols) | _ => false end.
Definition is_composite_index (c : table_constraint) : bool :=
  match c with CIndex _ cols => Nat.ltb 1 (List.length cols) | _ => false end.
Definition is_enum_type (t : column_type) : bool := match t with TEnum _ _ => true | _ => false end.
Definition is_numeric_type (t : column_type) : bool := match t with TNumeric _ _ => true | _ => false end.
Definition is_uuid_type (t : column_type) : bool := match t with TSimple Uuid => true | _ => false end.

(* has_server_default (167-170): some default whose to_sql() contains '(' *)
Definition has_server_default (t : table_def) : bool :=
  existsb (fun c => match c_default c with
                    | Some d => contains_char "("%char (default_to_sql d)
                    | None => false end) (t_columns t).

(* every sa_types.insert in program order (135-173) *)
Definition sa_inserts (t : table_def) : list string :=
  flat_map (fun c => sa_of_type (c_type c)) (t_columns t)
  ++ (if existsb is_fk (t_constraints t) then ["ForeignKey"] else [])
  ++ (if existsb is_index (t_constraints t) then ["Index"] else [])
  ++ (if existsb is_composite_unique (t_constraints t) then ["UniqueConstraint"] else [])
  ++ (if has_server_default t then ["text"] else []).
Definition dt_inserts (t : table_def) : list string :=
  flat_map (fun c => dt_of_type (c_type c)) (t_columns t).

Definition needs_optional (t : table_def) : bool := existsb c_nullable (t_columns t).
Definition needs_uuid (t : table_def) : bool := existsb (fun c => is_uuid_type (c_type c)) (t_columns t).
Definition needs_decimal (t : table_def) : bool := existsb (fun c => is_numeric_type (c_type c)) (t_columns t).
Definition has_enums (t : table_def) : bool := existsb (fun c => is_enum_type (c_type c)) (t_columns t).

(* the "from datetime import ..." line (sqlalchemy 183-190, sqlmodel 119-126): iterated, then sorted
   (`datetime_imports.sort()`, fix 44cb6cb) *)
Definition datetime_line (pi : list string -> list string) (t : table_def) : list string :=
  match sort_str (hs_iter pi (dt_inserts t)) with
  | [] => []
  | l => ["from datetime import " +++ join ", " l]
  end.

(* the "from sqlalchemy import ..." line (206-213): iterated, then sorted; omitted when nothing is imported (fix 661b98e) *)
Definition sa_line (pi : list string -> list string) (t : table_def) : list string :=
  match sort_str (hs_iter pi (sa_inserts t)) with
  | [] => []
  | l => ["from sqlalchemy import " +++ join ", " l]
  end.

Definition opt_line (b : bool) (s : string) : list string := if b then [s] else [].

(* all non-empty lines of the import block, in order (176-209) *)
Definition sqlalchemy_imports (pi_sa pi_dt : list string -> list string) (t : table_def) : list string :=
  ["from __future__ import annotations"]
  ++ opt_line (has_enums t) "import enum"
  ++ datetime_line pi_dt t
  ++ opt_line (needs_decimal t) "from decimal import Decimal"
  ++ opt_line (needs_optional t) "from typing import Optional"
  ++ opt_line (needs_uuid t) "from uuid import UUID"
  ++ sa_line pi_sa t
  ++ ["from sqlalchemy.orm import DeclarativeBase, Mapped, mapped_column"].

(* ---------- SQLModel (sqlmodel/mod.rs:78-156) ---------- *)
(* str::parse::<f64>() succeeds: [sign] (inf | infinity | nan | digits [. digits] [e [sign] digits]), case-insensitive;
   at least one digit in the mantissa *)
Definition digit_byte (a : ascii) : bool := let n := N_of_ascii a in (N.leb 48 n && N.leb n 57)%bool.
Fixpoint all_digits (s : string) : bool :=
  match s with EmptyString => true | String a r => (digit_byte a && all_digits r)%bool end.
Definition nonempty_digits (s : string) : bool := (negb (String.eqb s "") && all_digits s)%bool.
Definition strip_sign (s : string) : string :=
  match s with String a r => if (Ascii.eqb a "+" || Ascii.eqb a "-")%bool then r else s | _ => s end.
Definition looks_f64 (s : string) : bool :=
  let l := map_string to_lower_ascii_char (strip_sign s) in
  if (String.eqb l "inf" || String.eqb l "infinity" || String.eqb l "nan")%bool then true
  else
    let (mant, expo) := match split_on "e"%char l with
                        | [m] => (m, None)
                        | [m; e] => (m, Some e)
                        | _ => ("", Some "x")
                        end in
    let mant_ok := match split_on "."%char mant with
                   | [i] => nonempty_digits i
                   | [i; f] => (all_digits i && all_digits f && negb (String.eqb i "" && String.eqb f ""))%bool
                   | _ => false
                   end in
    let exp_ok := match expo with None => true | Some e => nonempty_digits (strip_sign e) end in
    (mant_ok && exp_ok)%bool.

(* default_uses_text (361-371, fix e0ae11e) = the branches of render_column (374-402) that emit text("...") *)
Definition default_uses_text (s : string) : bool :=
  if contains_char "("%char s then true
  else negb (String.eqb s "true" || String.eqb s "false" || starts_with "'" s || starts_with """" s || looks_f64 s)%bool.
(* what render_column (374-417) emits for a default, in the order of its if-chain *)
Inductive sm_default_kind := SmServerText | SmTrue | SmFalse | SmQuoted | SmNumber.
Definition sqlmodel_default_kind (s : string) : sm_default_kind :=
  if contains_char "("%char s then SmServerText                (* sa_column_kwargs={"server_default": text("...")} *)
  else if String.eqb s "true" then SmTrue                      (* default=True *)
  else if String.eqb s "false" then SmFalse                    (* default=False *)
  else if (starts_with "'" s || starts_with """" s)%bool then SmQuoted   (* default="..." *)
  else if looks_f64 s then SmNumber                            (* default=<number> *)
  else SmServerText.                                           (* assumed server default: text("...") *)
Definition kind_is_text (k : sm_default_kind) : bool := match k with SmServerText => true | _ => false end.
(* per column: does its Field(...) wrap the default in text("...")? *)
Definition sqlmodel_column_uses_text (c : column_def) : bool :=
  match c_default c with Some d => kind_is_text (sqlmodel_default_kind (default_to_sql d)) | None => false end.

Definition sqlmodel_needs_text (t : table_def) : bool :=
  existsb (fun c => match c_default c with Some d => default_uses_text (default_to_sql d) | None => false end) (t_columns t).

(* sa_imports here is a Vec pushed in a fixed order: no hash container *)
Definition sqlmodel_sa_line (t : table_def) : list string :=
  match (if existsb is_composite_index (t_constraints t) then ["Index"] else [])
        ++ (if existsb is_composite_unique (t_constraints t) then ["UniqueConstraint"] else [])
        ++ (if sqlmodel_needs_text t then ["text"] else []) with
  | [] => []
  | l => ["from sqlalchemy import " +++ join ", " l]
  end.
Definition sqlmodel_imports (pi_dt : list string -> list string) (t : table_def) : list string :=
  ["from __future__ import annotations"]
  ++ opt_line (has_enums t) "import enum"
  ++ datetime_line pi_dt t
  ++ opt_line (needs_decimal t) "from decimal import Decimal"
  ++ opt_line (needs_optional t) "from typing import Optional"
  ++ opt_line (needs_uuid t) "from uuid import UUID"
  ++ ["from sqlmodel import Field, SQLModel"]
  ++ sqlmodel_sa_line t.

(* ---------- class of the former finding C18-datetime-import-order (D5, fixed by 44cb6cb) ----------
   kept for coverage statistics only (a fixed finding suppresses nothing): at least two distinct names in the set *)
Definition known_C18_datetime (t : table_def) : bool :=
  Nat.ltb 1 (List.length (hs_of_inserts (dt_inserts t) [])).

(* ---------- observations on hash containers that are never iterated (SeaORM) ----------
   contains / len / get-by-key on a container whose representation order is chosen by [pi] *)
Definition hs_contains (pi : list string -> list string) (s : list string) (x : string) : bool :=
  mem_str x (pi s).
Definition hs_len (pi : list string -> list string) (s : list string) : nat := List.length (pi s).
Definition hm_get {V} (pi : list (string * V) -> list (string * V)) (m : list (string * V)) (k : string) : option V :=
  bt_get k (pi m).

(* ---------- correspondence: every import line is compared as text, order of the names included ---------- *)
Definition import_line_eqb (a b : string) : bool := String.eqb a b.
Definition id_oracle (l : list string) : list string := l.
Definition rev_oracle (l : list string) : list string := rev l.
