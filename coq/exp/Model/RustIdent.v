(* C17: is an emitted SeaORM name a Rust identifier?  The oracle O-C17 applies this test to the names parsed from
   the real exporter's text; the classifier below applies it to the names the model predicts (equal by K-exp), so
   it delimits exactly the inputs on which the unchanged exporter already emits a non-identifier.
   Non-ASCII characters are not judged (treated as identifier characters) on both sides.  No proofs here. *)
From VV.EXP Require Export Names PyClass.

Definition ident_start (a : ascii) : bool := (is_ascii_alpha a || Ascii.eqb a "_" || non_ascii a)%bool.
Definition ident_cont (a : ascii) : bool := (ident_start a || is_ascii_digit a)%bool.
Definition ident_shape (s : string) : bool :=
  match s with
  | EmptyString => false
  | String a r => (ident_start a && all_chars ident_cont r)%bool
  end.
(* a plain identifier: shaped, not `_`, not a keyword *)
Definition rust_plain_ident_ok (s : string) : bool :=
  (ident_shape s && negb (String.eqb s "_") && negb (mem_str s rust_keywords))%bool.
(* a field name may be raw (r#kw); `r#self`, `r#Self`, `r#crate`, `r#super` are not allowed by rustc *)
Definition rust_field_ident_ok (s : string) : bool :=
  if starts_with "r#" s then
    let w := substring 2 (String.length s - 2) s in
    (ident_shape w && negb (String.eqb w "_") && negb (mem_str w ["self"; "Self"; "crate"; "super"]))%bool
  else rust_plain_ident_ok s.

Definition decl_names_ok (d : decl) : bool :=
  (forallb (fun m => rust_field_ident_ok (member_name m)) (d_members d)
   && forallb rust_plain_ident_ok (flat_map member_relation_enum (d_members d))
   && forallb (fun e => (rust_plain_ident_ok (fst e) && forallb rust_plain_ident_ok (snd e))%bool) (d_enums d))%bool.

(* the non-identifiers among the names of a declaration, spelled like the oracle's reports *)
Definition invalid_names (d : decl) : list string :=
  flat_map (fun m => if rust_field_ident_ok (member_name m) then [] else ["invalid-field:" +++ member_name m]) (d_members d)
  ++ flat_map (fun e => if rust_plain_ident_ok e then [] else ["invalid-relation-enum:" +++ e])
              (flat_map member_relation_enum (d_members d))
  ++ flat_map (fun e =>
       (if rust_plain_ident_ok (fst e) then [] else ["invalid-enum-type:" +++ fst e])
       ++ flat_map (fun v => if rust_plain_ident_ok v then [] else ["invalid-variant:" +++ fst e +++ "::" +++ v]) (snd e))
       (d_enums d).

(* class of the finding C17-seaorm-invalid-identifier, per NAME: every non-identifier the oracle reported for this
   table is one the model predicts for the unchanged exporter (a non-identifier the model does not predict — e.g.
   a variant that lost its N prefix — is outside the class even when the table has other, known, bad names) *)
Definition known_C17_rust_ident (schema : list table_def) (t : table_def) (reported : list string) : bool :=
  match members schema t, reported with
  | Ok d, _ :: _ => forallb (fun w => mem_str w (invalid_names d)) reported
  | _, _ => false
  end.
