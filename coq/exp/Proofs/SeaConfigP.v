(* C18: the configuration-dependent lines of a SeaORM entity are a function of (configuration, table) alone, and the
   configured derives appear after the built-in ones in configuration order (duplicates kept). *)
From VV.EXP Require Import SeaConfig.

(* a list [l] appears in [big] in order: [big] = pre ++ l for the built-in prefix *)
Theorem derive_line_order cfg :
  model_derives cfg = builtin_model_derives ++ sc_extra_model_derives cfg
  /\ enum_derives cfg = builtin_enum_derives ++ sc_extra_enum_derives cfg
  /\ (forall i d, nth_error (sc_extra_model_derives cfg) i = Some d ->
        nth_error (model_derives cfg) (List.length builtin_model_derives + i) = Some d)
  /\ (forall i d, nth_error (sc_extra_enum_derives cfg) i = Some d ->
        nth_error (enum_derives cfg) (List.length builtin_enum_derives + i) = Some d).
Proof.
  split; [reflexivity|]. split; [reflexivity|]. split; intros i d H; unfold model_derives, enum_derives;
    rewrite nth_error_app2 by apply Nat.le_add_r; now rewrite Nat.add_comm, Nat.add_sub.
Qed.

(* nothing else enters these lines: equal configurations and tables give equal lines (no hash container, no oracle) *)
Theorem config_lines_deterministic cfg cfg' t :
  sc_extra_enum_derives cfg = sc_extra_enum_derives cfg' -> sc_extra_model_derives cfg = sc_extra_model_derives cfg' ->
  sc_enum_naming_case cfg = sc_enum_naming_case cfg' -> sc_vespera_schema_type cfg = sc_vespera_schema_type cfg' ->
  sc_prefix cfg = sc_prefix cfg' -> config_lines cfg t = config_lines cfg' t.
Proof.
  intros H1 H2 H3 H4 H5. unfold config_lines, model_derives, enum_derives. now rewrite H1, H2, H3, H4, H5.
Qed.

Example derive_line_example :
  derive_line (model_derives (mkSeaCfg [] ["Serialize"; "Hash"; "Serialize"] CaseCamel true ""))
  = "#[derive(Clone, Debug, PartialEq, Eq, DeriveEntityModel, Serialize, Hash, Serialize)]".
Proof. vm_compute. reflexivity. Qed.
