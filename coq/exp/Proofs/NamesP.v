(* C17 / C16 / C18 proofs about the SeaORM name machinery (Model/Names.v). *)
From VV.EXP Require Import Names.
From Coq Require Import Lia Permutation.

(* ---------- small facts ---------- *)
Lemma mem_str_In x l : mem_str x l = true <-> In x l.
Proof.
  unfold mem_str. rewrite existsb_exists. split.
  - intros [y [Hy E]]. apply String.eqb_eq in E. now subst.
  - intro H. exists x. split; [exact H | apply String.eqb_refl].
Qed.
Lemma mem_str_false x l : mem_str x l = false <-> ~ In x l.
Proof. rewrite <- mem_str_In. destruct (mem_str x l); split; congruence. Qed.

Lemma has_dup_false_NoDup l : has_dup l = false <-> NoDup l.
Proof.
  induction l as [|x r IH]; cbn [has_dup].
  - split; [constructor | reflexivity].
  - rewrite orb_false_iff, IH, mem_str_false. split.
    + intros [H1 H2]. now constructor.
    + intro H. inversion H. now split.
Qed.

(* ---------- unique_name ---------- *)
Lemma unique_name_loop_fresh fuel : forall base i name used n,
  unique_name_loop fuel base i name used = Some n -> mem_str n used = false.
Proof.
  induction fuel as [|f IH]; intros base i name used n; cbn [unique_name_loop];
    destruct (mem_str name used) eqn:E; try discriminate.
  - intro H. injection H as <-. exact E.
  - apply IH.
  - intro H. injection H as <-. exact E.
Qed.

Theorem unique_name_fresh base used n : unique_name base used = Some n -> mem_str n used = false.
Proof. apply unique_name_loop_fresh. Qed.

Lemma alloc_names_spec bases : forall used ns,
  alloc_names bases used = Some ns ->
  NoDup ns /\ (forall n, In n ns -> ~ In n used) /\ List.length ns = List.length bases.
Proof.
  induction bases as [|b r IH]; intros used ns; cbn [alloc_names].
  - intro H. injection H as <-. repeat split; [constructor | intros n []].
  - destruct (unique_name b used) as [n|] eqn:U; [|discriminate].
    destruct (alloc_names r (n :: used)) as [ns'|] eqn:A; [|discriminate].
    intro H. injection H as <-. destruct (IH _ _ A) as [ND [Fr Len]].
    apply unique_name_fresh, mem_str_false in U. repeat split.
    + constructor; [|exact ND]. intro Hin. apply (Fr n Hin). now left.
    + intros m [<-|Hm]; [exact U|]. intro Hu. apply (Fr m Hm). now right.
    + cbn [List.length]. now rewrite Len.
Qed.

Lemma alloc_enums_length infos : forall used, List.length (alloc_enums infos used) = List.length infos.
Proof.
  induction infos as [|r rest IH]; intro used; cbn [alloc_enums List.length]; [reflexivity|].
  destruct (ri_needs_enum r); cbn [List.length]; now rewrite IH.
Qed.

Lemma zip_members_names infos : forall names enums,
  List.length names = List.length infos -> List.length enums = List.length infos ->
  map member_name (zip_members infos names enums) = names.
Proof.
  induction infos as [|r ri IH]; intros [|n rn] [|e re]; cbn [List.length zip_members map]; try discriminate; try reflexivity.
  intros H1 H2. cbn [member_name]. f_equal. apply IH; lia.
Qed.

Lemma zip_members_rel infos : forall names enums m,
  In m (zip_members infos names enums) -> is_col_member m = false.
Proof.
  induction infos as [|r ri IH]; intros [|n rn] [|e re] m; cbn [zip_members In]; try (intro F; contradiction).
  intros [<-|H]; [reflexivity | eapply IH, H].
Qed.

Theorem relation_fields_distinct fuel s t rels :
  relation_members fuel s t = Ok rels -> NoDup (map member_name rels).
Proof.
  unfold relation_members, rbind. destruct (relation_infos fuel s t) as [infos|e]; [|discriminate].
  destruct (alloc_names (map ri_field_base infos) []) as [names|] eqn:A; [|discriminate].
  intro H. injection H as <-. destruct (alloc_names_spec _ _ _ A) as [ND [_ Len]].
  rewrite map_length in Len. rewrite zip_members_names; [exact ND | exact Len | apply alloc_enums_length].
Qed.

Lemma relation_members_all_rel fuel s t rels :
  relation_members fuel s t = Ok rels -> forall m, In m rels -> is_col_member m = false.
Proof.
  unfold relation_members, rbind. destruct (relation_infos fuel s t) as [infos|e]; [|discriminate].
  destruct (alloc_names (map ri_field_base infos) []) as [names|]; [|discriminate].
  intro H. injection H as <-. apply zip_members_rel.
Qed.

(* ---------- columns ---------- *)
Lemma filter_app_cols (cols rels : list member) :
  (forall m, In m cols -> is_col_member m = true) -> (forall m, In m rels -> is_col_member m = false) ->
  filter is_col_member (cols ++ rels) = cols.
Proof.
  intros Hc Hr. rewrite filter_app.
  replace (filter is_col_member rels) with (@nil member).
  - rewrite app_nil_r. induction cols as [|c r IH]; [reflexivity|]. cbn [filter].
    rewrite (Hc c (or_introl eq_refl)). f_equal. apply IH. intros m Hm. apply Hc. now right.
  - symmetry. induction rels as [|c r IH]; [reflexivity|]. cbn [filter].
    rewrite (Hr c (or_introl eq_refl)). apply IH. intros m Hm. apply Hr. now right.
Qed.

(* every model column yields exactly one column member, in order, carrying the sanitised name, the Rust type
   of to_rust_type (with render_column's two overrides), the nullability and the primary-key flag *)
Theorem columns_once fuel s t d :
  members_fuel fuel s t = Ok d ->
  filter is_col_member (d_members d)
  = map (fun c => MCol (sanitize_field_name (c_name c)) (rust_base_type (c_type c)) (c_nullable c)
                       (mem_str (c_name c) (primary_key_columns t))) (t_columns t).
Proof.
  unfold members_fuel, rbind. destruct (relation_members fuel s t) as [rels|e] eqn:R; [|discriminate].
  intro H. injection H as <-. cbn [d_members]. apply filter_app_cols.
  - unfold column_members. intros m Hm. apply in_map_iff in Hm. destruct Hm as [c [<- _]]. reflexivity.
  - eapply relation_members_all_rel, R.
Qed.

(* ---------- distinct names ---------- *)
Lemma NoDup_app_disjoint {A} (a b : list A) :
  NoDup a -> NoDup b -> (forall x, In x b -> ~ In x a) -> NoDup (a ++ b).
Proof.
  induction a as [|x a IH]; intros Ha Hb D; [exact Hb|]. cbn [app]. inversion Ha as [|? ? Hx Ha']; subst. constructor.
  - rewrite in_app_iff. intros [H|H]; [now apply Hx | apply (D x H); now left].
  - apply IH; auto. intros y Hy Hin. apply (D y Hy). now right.
Qed.

Definition d14_user : table_def :=
  mkTable "user" None [mkCol "id" (TSimple Integer) false None None None None None None] [CPrimaryKey false ["id"]].
Definition d14_post : table_def :=
  mkTable "post" None
    [mkCol "id" (TSimple Integer) false None None None None None None;
     mkCol "user" (TSimple Text) false None None None None None None;
     mkCol "user_id" (TSimple Integer) false None None None None None None]
    [CPrimaryKey false ["id"]; CForeignKey None ["user_id"] "user" ["id"] None None].

Theorem members_clash_refuted :
  exists s t d, members s t = Ok d /\ ~ NoDup (map member_name (d_members d)).
Proof.
  exists [d14_user; d14_post], d14_post. eexists. split; [vm_compute; reflexivity|].
  cbn [d_members map member_name]. intro H. inversion H as [|? ? _ H1]. inversion H1 as [|? ? Hn _].
  apply Hn. right. left. reflexivity.
Qed.

Theorem members_distinct_outside_known s t d :
  known_C17_clash s t = false -> members s t = Ok d ->
  NoDup (map member_name (d_members d))
  /\ NoDup (flat_map member_relation_enum (d_members d))
  /\ NoDup (map fst (d_enums d))
  /\ (forall e, In e (d_enums d) -> NoDup (snd e)).
Proof.
  unfold known_C17_clash, members, members_fuel, rbind.
  destruct (relation_members (resolve_fuel s) s t) as [rels|e] eqn:R; [|discriminate].
  intros K H. injection H as <-. cbn [d_members d_enums].
  rewrite !orb_false_iff in K. destruct K as [[[[K1 K2] K3] K4] K5].
  repeat split.
  - rewrite map_app. apply NoDup_app_disjoint.
    + now apply has_dup_false_NoDup.
    + eapply relation_fields_distinct, R.
    + intros x Hx Hc. apply in_map_iff in Hx. destruct Hx as [m [<- Hm]].
      assert (E : existsb (fun r => mem_str (member_name r) (map member_name (column_members t))) rels = true).
      { apply existsb_exists. exists m. split; [exact Hm | now apply mem_str_In]. }
      congruence.
  - rewrite flat_map_app.
    replace (flat_map member_relation_enum (column_members t)) with (@nil string).
    + now apply has_dup_false_NoDup.
    + unfold column_members. induction (t_columns t) as [|c r IH]; [reflexivity|]. cbn [map flat_map member_relation_enum column_member app]. exact IH.
  - now apply has_dup_false_NoDup.
  - intros e He. apply has_dup_false_NoDup.
    destruct (has_dup (snd e)) eqn:E; [|reflexivity].
    assert (X : existsb (fun e => has_dup (snd e)) (enum_decls t) = true) by (apply existsb_exists; eauto).
    congruence.
Qed.

(* ---------- resolve_fk_target ---------- *)
Definition cyc_a : table_def :=
  mkTable "a" None
    [mkCol "id" (TSimple Integer) false None None None None None None; mkCol "x" (TSimple Integer) true None None None None None None]
    [CPrimaryKey false ["id"]; CForeignKey None ["x"] "b" ["y"] None None].
Definition cyc_b : table_def :=
  mkTable "b" None
    [mkCol "id" (TSimple Integer) false None None None None None None; mkCol "y" (TSimple Integer) true None None None None None None]
    [CPrimaryKey false ["id"]; CForeignKey None ["y"] "a" ["x"] None None].
(* one table whose column references itself *)
Definition cyc_self : table_def :=
  mkTable "a" None
    [mkCol "id" (TSimple Integer) false None None None None None None; mkCol "x" (TSimple Integer) true None None None None None None]
    [CPrimaryKey false ["id"]; CForeignKey None ["x"] "a" ["x"] None None].

(* the (table, column) nodes that carry a single-column FK *)
Definition fk_nodes (s : list table_def) : list (string * string) :=
  flat_map (fun tb => flat_map (fun f => match f with (([c], _), _) => [(t_name tb, c)] | _ => [] end) (fks_of tb)) s.

Lemma node_eqb_eq a b : node_eqb a b = true <-> a = b.
Proof.
  destruct a as [a1 a2], b as [b1 b2]. unfold node_eqb. cbn [fst snd].
  rewrite andb_true_iff, !String.eqb_eq. split; [intros [-> ->]; reflexivity | intro H; injection H as -> ->; auto].
Qed.
Lemma existsb_node n l : existsb (node_eqb n) l = true <-> In n l.
Proof.
  rewrite existsb_exists. split.
  - intros [x [Hx E]]. apply node_eqb_eq in E. now subst.
  - intro H. exists n. split; [exact H | now apply node_eqb_eq].
Qed.

Lemma fk_nodes_length s : (List.length (fk_nodes s) <= List.length (flat_map fks_of s))%nat.
Proof.
  unfold fk_nodes. induction s as [|tb s IH]; cbn [flat_map]; [apply Nat.le_refl|].
  rewrite !app_length. apply Nat.add_le_mono; [|exact IH].
  induction (fks_of tb) as [|f r IHr]; cbn [flat_map List.length]; [lia|].
  rewrite app_length. destruct f as [[[|c [|c2 cs]] rt] rcs]; cbn [List.length]; lia.
Qed.

Lemma next_fk_node target rc nt ncs : next_fk target rc = Some (nt, ncs) ->
  In (([rc], nt), ncs) (fks_of target).
Proof.
  unfold next_fk.
  match goal with |- context [find ?p (fks_of target)] => destruct (find p (fks_of target)) as [[[cols rt] rcs]|] eqn:F end;
    [|discriminate].
  intro H. injection H as <- <-. apply find_some in F. destruct F as [Hin E].
  destruct cols as [|c [|c2 cs]]; try discriminate. apply String.eqb_eq in E. now subst.
Qed.

Lemma step_node_in s rt rc target nt ncs :
  find_table s rt = Some target -> next_fk target rc = Some (nt, ncs) -> In (rt, rc) (fk_nodes s).
Proof.
  intros F N. unfold find_table in F. apply find_some in F. destruct F as [Hin E]. apply String.eqb_eq in E.
  apply next_fk_node in N. unfold fk_nodes. apply in_flat_map. exists target. split; [exact Hin|].
  apply in_flat_map. exists (([rc], nt), ncs). split; [exact N|]. subst. now left.
Qed.

(* enough fuel: one unit per node not yet visited, plus one *)
Lemma resolve_chain_total s : forall fuel rt rcs visited,
  NoDup visited -> incl visited (fk_nodes s) ->
  (List.length (fk_nodes s) - List.length visited < fuel)%nat ->
  exists r, resolve_fk_chain fuel s rt rcs visited = Some r.
Proof.
  induction fuel as [|f IH]; intros rt rcs visited ND Inc L; [lia|].
  cbn [resolve_fk_chain]. destruct s as [|t0 s0]; [eauto|].
  destruct rcs as [|rc [|rc2 rest]]; eauto.
  destruct (existsb (node_eqb (rt, rc)) visited) eqn:V; [eauto|].
  destruct (find_table (t0 :: s0) rt) as [target|] eqn:F; [|eauto].
  destruct (next_fk target rc) as [[nt ncs]|] eqn:N; [|eauto].
  assert (Hnew : ~ In (rt, rc) visited).
  { intro H. apply existsb_node in H. congruence. }
  pose proof (step_node_in _ _ _ _ _ _ F N) as Hin.
  assert (ND' : NoDup ((rt, rc) :: visited)) by now constructor.
  assert (Inc' : incl ((rt, rc) :: visited) (fk_nodes (t0 :: s0))).
  { intros x [<-|Hx]; [exact Hin | now apply Inc]. }
  pose proof (NoDup_incl_length ND' Inc') as Len. cbn [List.length] in Len.
  apply IH; [exact ND' | exact Inc' | cbn [List.length]; lia].
Qed.

(* the FK-chain walk always ends, cycles included (fix c0929b8) *)
Theorem resolve_fk_terminates s rt rcs : exists r, resolve_fk_target (resolve_fuel s) s rt rcs = Some r.
Proof.
  unfold resolve_fk_target. apply resolve_chain_total; [constructor | intros x [] |].
  unfold resolve_fuel. cbn [List.length]. pose proof (fk_nodes_length s). lia.
Qed.

(* more fuel never changes an answer *)
Theorem resolve_fk_fuel_mono s : forall fuel rt rcs visited r,
  resolve_fk_chain fuel s rt rcs visited = Some r ->
  forall fuel', (fuel <= fuel')%nat -> resolve_fk_chain fuel' s rt rcs visited = Some r.
Proof.
  induction fuel as [|f IH]; intros rt rcs visited r H fuel' L; [discriminate|].
  destruct fuel' as [|f']; [lia|]. cbn [resolve_fk_chain] in *.
  destruct s as [|t0 s0]; [exact H|].
  destruct rcs as [|rc [|rc2 rest]]; try exact H.
  destruct (existsb (node_eqb (rt, rc)) visited); [exact H|].
  destruct (find_table (t0 :: s0) rt) as [target|]; [|exact H].
  destruct (next_fk target rc) as [[nt ncs]|]; [|exact H].
  apply IH with (fuel' := f'); [exact H | lia].
Qed.

(* the former D15 witnesses now resolve: the walk stops where the cycle closes *)
Example resolve_cycles_fixed :
  resolve_fk_target (resolve_fuel [cyc_a; cyc_b]) [cyc_a; cyc_b] "b" ["y"] = Some ("b", ["y"])
  /\ resolve_fk_target (resolve_fuel [cyc_self]) [cyc_self] "a" ["x"] = Some ("a", ["x"])
  /\ known_C16_fk_cycle [cyc_a; cyc_b] cyc_a = true
  /\ exists d, members [cyc_a; cyc_b] cyc_a = Ok d.
Proof. repeat split; try (vm_compute; reflexivity). eexists. vm_compute. reflexivity. Qed.

(* a rho shape: the tail c.k -> d.z -> a.x leads INTO the cycle a.x -> a.x that none of its nodes is part of; the walk
   that starts at d.z stops at the cycle's node (only a visited LIST, not the start node alone, guarantees this) *)
Definition rho_c : table_def :=
  mkTable "c" None
    [mkCol "id" (TSimple Integer) false None None None None None None; mkCol "k" (TSimple Integer) true None None None None None None]
    [CPrimaryKey false ["id"]; CForeignKey None ["k"] "d" ["z"] None None].
Definition rho_d : table_def :=
  mkTable "d" None
    [mkCol "id" (TSimple Integer) false None None None None None None; mkCol "z" (TSimple Integer) true None None None None None None]
    [CPrimaryKey false ["id"]; CForeignKey None ["z"] "a" ["x"] None None].
Example resolve_rho :
  resolve_fk_target (resolve_fuel [rho_c; rho_d; cyc_self]) [rho_c; rho_d; cyc_self] "d" ["z"] = Some ("a", ["x"])
  /\ known_C16_fk_cycle [rho_c; rho_d; cyc_self] rho_c = true
  /\ exists d, members [rho_c; rho_d; cyc_self] rho_c = Ok d.
Proof. split; [vm_compute; reflexivity|]. split; [vm_compute; reflexivity|]. eexists. vm_compute. reflexivity. Qed.

(* ---------- refs_exist ---------- *)
Lemma table_exists_In s name : table_exists s name = true <-> exists t, In t s /\ t_name t = name.
Proof.
  unfold table_exists. rewrite existsb_exists. split; intros [t [Hi E]]; exists t; split; auto.
  - now apply String.eqb_eq.
  - now apply String.eqb_eq.
Qed.

Lemma find_table_In s name t : find_table s name = Some t -> In t s /\ t_name t = name.
Proof.
  unfold find_table. intro H. apply find_some in H. destruct H as [Hi E]. split; [exact Hi | now apply String.eqb_eq].
Qed.

Lemma next_fk_In target rc nt ncs : next_fk target rc = Some (nt, ncs) -> exists cols, In (cols, nt, ncs) (fks_of target).
Proof.
  unfold next_fk.
  match goal with |- context [find ?p (fks_of target)] => destruct (find p (fks_of target)) as [[[cols rt] rcs]|] eqn:F end;
    [|discriminate].
  intro H. injection H as <- <-. apply find_some in F. exists cols. apply F.
Qed.

Lemma fk_closed_spec s tb f : fk_closed s = true -> In tb s -> In f (fks_of tb) -> table_exists s (snd (fst f)) = true.
Proof.
  unfold fk_closed. rewrite forallb_forall. intros H Ht Hf. specialize (H tb Ht). rewrite forallb_forall in H. now apply H.
Qed.

Lemma resolve_exists s : fk_closed s = true -> forall fuel rt rcs visited r,
  table_exists s rt = true -> resolve_fk_chain fuel s rt rcs visited = Some r -> table_exists s (fst r) = true.
Proof.
  intros C. induction fuel as [|f IH]; intros rt rcs visited r E H; [discriminate|].
  cbn [resolve_fk_chain] in H. destruct s as [|t0 s0]; [injection H as <-; exact E|].
  destruct rcs as [|rc [|rc2 rest]]; try (injection H as <-; exact E).
  destruct (existsb (node_eqb (rt, rc)) visited); [injection H as <-; exact E|].
  destruct (find_table (t0 :: s0) rt) as [target|] eqn:F; [|injection H as <-; exact E].
  destruct (next_fk target rc) as [[nt ncs]|] eqn:N; [|injection H as <-; exact E].
  apply find_table_In in F. destruct F as [Hin _]. apply next_fk_In in N. destruct N as [cols Hf].
  eapply IH; [|exact H]. exact (fk_closed_spec _ _ _ C Hin Hf).
Qed.

Lemma map_result_In {A B} (f : A -> result B xerr) l : forall out,
  map_result f l = Ok out -> forall y, In y out -> exists x, In x l /\ f x = Ok y.
Proof.
  induction l as [|a r IH]; intros out; cbn [map_result].
  - intro H. injection H as <-. intros y [].
  - destruct (f a) as [b|e] eqn:Fa; [|discriminate]. destruct (map_result f r) as [ys|e]; [|discriminate].
    intro H. injection H as <-. intros y [<-|Hy].
    + exists a. split; [now left | exact Fa].
    + destruct (IH _ eq_refl y Hy) as [x [Hx Fx]]. exists x. split; [now right | exact Fx].
Qed.

Lemma concat_results_In {A} (l : list (result (list A) xerr)) : forall out,
  concat_results l = Ok out -> forall y, In y out -> exists part, In (Ok part) l /\ In y part.
Proof.
  induction l as [|[x|e] r IH]; intros out; cbn [concat_results].
  - intro H. injection H as <-. intros y [].
  - destruct (concat_results r) as [ys|e]; [|discriminate]. intro H. injection H as <-. intros y Hy.
    apply in_app_iff in Hy. destruct Hy as [Hy|Hy].
    + exists x. split; [now left | exact Hy].
    + destruct (IH _ eq_refl y Hy) as [p [Hp Hyp]]. exists p. split; [now right | exact Hyp].
  - discriminate.
Qed.

Lemma In_table_exists s t : In t s -> table_exists s (t_name t) = true.
Proof. intro H. apply table_exists_In. eauto. Qed.

Lemma m2m_other_targets_exist t j s x : In x (m2m_other_targets t j s) -> table_exists s x = true.
Proof.
  unfold m2m_other_targets. rewrite in_flat_map. intros [f [_ H]].
  destruct (String.eqb (snd (fst f)) (t_name t)); [destruct H|].
  destruct (table_exists s (snd (fst f))) eqn:E; [|destruct H]. destruct H as [<-|[]]. exact E.
Qed.

Lemma zip_members_entity infos : forall names enums m,
  In m (zip_members infos names enums) -> exists r, In r infos /\ member_entity m = [ri_entity r].
Proof.
  induction infos as [|r ri IH]; intros [|n rn] [|e re] m; cbn [zip_members In]; try (intro F; contradiction).
  intros [<-|H].
  - exists r. split; [now left | reflexivity].
  - destruct (IH _ _ _ H) as [r' [Hr E]]. exists r'. split; [now right | exact E].
Qed.

Lemma forward_info_entity t ft at_ fr ri : forward_info t ft at_ fr = Ok ri -> ri_entity ri = fst (snd fr).
Proof.
  unfold forward_info. destruct fr as [[[columns rt] rcs] [resolved_table resolved_columns]].
  destruct (_ || _)%bool.
  - destruct (generate_relation_enum_name columns); [|discriminate]. intro H. injection H as <-. reflexivity.
  - intro H. injection H as <-. reflexivity.
Qed.

Theorem refs_exist s t d :
  fk_closed s = true -> In t s -> members s t = Ok d ->
  forall m e, In m (d_members d) -> In e (member_entity m) -> table_exists s e = true.
Proof.
  intros C Ht. unfold members, members_fuel, rbind.
  destruct (relation_members (resolve_fuel s) s t) as [rels|er] eqn:R; [|discriminate].
  intro H. injection H as <-. cbn [d_members]. intros m e Hm He.
  apply in_app_iff in Hm. destruct Hm as [Hm|Hm].
  { unfold column_members in Hm. apply in_map_iff in Hm. destruct Hm as [c [<- _]]. destruct He. }
  revert R. unfold relation_members, rbind.
  destruct (relation_infos (resolve_fuel s) s t) as [infos|er] eqn:RI; [|discriminate].
  destruct (alloc_names (map ri_field_base infos) []) as [names|]; [|discriminate].
  intro H. injection H as <-. destruct (zip_members_entity _ _ _ _ Hm) as [r [Hr E]].
  rewrite E in He. destruct He as [<-|[]].
  revert RI. unfold relation_infos, rbind.
  destruct (forward_resolved (resolve_fuel s) t s) as [fwd|er] eqn:FR; [|discriminate].
  set (ft := map (fun x => fst (snd x)) fwd). set (at_ := ft ++ reverse_targets t s).
  destruct (map_result (forward_info t ft at_) fwd) as [fi|er] eqn:FI; [|discriminate].
  destruct (reverse_infos t s at_) as [rv|er] eqn:RV; [|discriminate].
  intro H. injection H as <-. apply in_app_iff in Hr. destruct Hr as [Hr|Hr].
  - (* forward *)
    destruct (map_result_In _ _ _ FI _ Hr) as [fr [Hfr Ffr]].
    rewrite (forward_info_entity _ _ _ _ _ Ffr).
    unfold forward_resolved in FR. destruct (map_result_In _ _ _ FR _ Hfr) as [f [Hf Ff]].
    destruct (resolve_fk_target (resolve_fuel s) s (snd (fst f)) (snd f)) as [res|] eqn:RS; [|discriminate].
    injection Ff as <-. cbn [snd fst].
    unfold resolve_fk_target in RS. eapply resolve_exists; [exact C | | exact RS]. exact (fk_closed_spec _ _ _ C Ht Hf).
  - (* reverse *)
    unfold reverse_infos in RV. destruct (concat_results_In _ _ RV _ Hr) as [part [Hp Hrp]].
    apply in_map_iff in Hp. destruct Hp as [other [Ho Hos]].
    destruct (String.eqb (t_name other) (t_name t)); [injection Ho as <-; destruct Hrp|].
    destruct (is_junction_for t other).
    + injection Ho as <-. unfold m2m_infos in Hrp. destruct Hrp as [<-|Hrp]; [cbn [ri_entity]; now apply In_table_exists|].
      apply in_map_iff in Hrp. destruct Hrp as [rt [<- Hrt]]. cbn [ri_entity]. eapply m2m_other_targets_exist, Hrt.
    + destruct (map_result_In _ _ _ Ho _ Hrp) as [f [_ Ff]]. unfold direct_reverse_info in Ff.
      destruct (generate_relation_enum_name (fst (fst f))); [|discriminate]. injection Ff as <-. cbn [ri_entity].
      now apply In_table_exists.
Qed.

(* ---------- slice order (C18) ---------- *)
Definition so_user : table_def :=
  mkTable "user" None [mkCol "id" (TSimple Integer) false None None None None None None] [CPrimaryKey false ["id"]].
Definition so_post : table_def :=
  mkTable "post" None
    [mkCol "id" (TSimple Integer) false None None None None None None; mkCol "user_id" (TSimple Integer) false None None None None None None]
    [CPrimaryKey false ["id"]; CForeignKey None ["user_id"] "user" ["id"] None None].
Definition so_comment : table_def :=
  mkTable "comment" None
    [mkCol "id" (TSimple Integer) false None None None None None None; mkCol "user_id" (TSimple Integer) false None None None None None None]
    [CPrimaryKey false ["id"]; CForeignKey None ["user_id"] "user" ["id"] None None].

Theorem slice_order_refuted :
  exists s s' t, Permutation s s' /\ members s t <> members s' t.
Proof.
  exists [so_user; so_post; so_comment], [so_user; so_comment; so_post], so_user. split.
  - apply perm_skip, perm_swap.
  - vm_compute. discriminate.
Qed.

(* the column part and the enum part of the declarations do not look at the slice at all *)
Theorem slice_order_columns_enums s s' t d d' :
  members s t = Ok d -> members s' t = Ok d' ->
  filter is_col_member (d_members d) = filter is_col_member (d_members d') /\ d_enums d = d_enums d'.
Proof.
  intros H H'. split.
  - rewrite (columns_once _ _ _ _ H), (columns_once _ _ _ _ H'). reflexivity.
  - unfold members, members_fuel, rbind in H, H'.
    destruct (relation_members (resolve_fuel s) s t); [|discriminate].
    destruct (relation_members (resolve_fuel s') s' t); [|discriminate].
    injection H as <-. injection H' as <-. reflexivity.
Qed.

(* ---------- the declarations never run out of fuel ---------- *)
Lemma map_result_err {A B} (f : A -> result B xerr) l e : map_result f l = Err e -> exists x, In x l /\ f x = Err e.
Proof.
  induction l as [|a r IH]; cbn [map_result]; [discriminate|].
  destruct (f a) as [b|e1] eqn:Fa.
  - destruct (map_result f r) as [ys|e2]; [discriminate|]. intro H. injection H as <-.
    destruct (IH eq_refl) as [x [Hx Fx]]. exists x. split; [now right | exact Fx].
  - intro H. injection H as <-. exists a. split; [now left | exact Fa].
Qed.
Lemma concat_results_err {A} (l : list (result (list A) xerr)) e : concat_results l = Err e -> In (Err e) l.
Proof.
  induction l as [|[x|e1] r IH]; cbn [concat_results]; [discriminate| |].
  - destruct (concat_results r) as [ys|e2]; [discriminate|]. intro H. injection H as <-. right. now apply IH.
  - intro H. injection H as <-. now left.
Qed.

Lemma relation_infos_no_diverge s t : relation_infos (resolve_fuel s) s t <> Err XDiverge.
Proof.
  unfold relation_infos, rbind. intro H.
  destruct (forward_resolved (resolve_fuel s) t s) as [fwd|e] eqn:FR.
  - set (ft := map (fun x => fst (snd x)) fwd) in *. set (at_ := ft ++ reverse_targets t s) in *.
    destruct (map_result (forward_info t ft at_) fwd) as [fi|e] eqn:FI.
    + destruct (reverse_infos t s at_) as [rv|e] eqn:RV; [discriminate|]. injection H as ->.
      unfold reverse_infos in RV. apply concat_results_err in RV. apply in_map_iff in RV. destruct RV as [other [Ho _]].
      destruct (String.eqb (t_name other) (t_name t)); [discriminate|].
      destruct (is_junction_for t other); [discriminate|].
      apply map_result_err in Ho. destruct Ho as [f [_ Ff]]. unfold direct_reverse_info in Ff.
      destruct (generate_relation_enum_name (fst (fst f))); discriminate.
    + injection H as ->. apply map_result_err in FI. destruct FI as [fr [_ Ff]]. unfold forward_info in Ff.
      destruct fr as [[[columns rt] rcs] [resolved_table resolved_columns]].
      destruct (_ || _)%bool; [|discriminate]. destruct (generate_relation_enum_name columns); discriminate.
  - injection H as ->. unfold forward_resolved in FR. apply map_result_err in FR. destruct FR as [f [_ Ff]].
    destruct (resolve_fk_terminates s (snd (fst f)) (snd f)) as [r Hr]. rewrite Hr in Ff. discriminate.
Qed.
