(* C17, Python half, the part that is modelled: the annotation of a column is Optional[...] iff the column is nullable. *)
From VV.EXP Require Import PyClass.

Lemma starts_with_append p s : starts_with p (p +++ s) = true.
Proof. induction p as [|a p IH]; cbn [String.append starts_with]; [reflexivity|]. now rewrite Ascii.eqb_refl. Qed.

(* for enum columns the base type is the class name derived from the enum name, which the exporter does not
   restrict; for every other type the base type is one of a fixed set of words, none starting with "Optional[" *)
Theorem sqlmodel_optional_iff_nullable c :
  (py_field_optional c = true <-> c_nullable c = true)
  /\ (c_nullable c = true -> starts_with "Optional[" (py_annotation c) = true)
  /\ (is_enum_type (c_type c) = false -> c_nullable c = false -> starts_with "Optional[" (py_annotation c) = false).
Proof.
  split; [unfold py_field_optional; tauto|]. split.
  - intro N. unfold py_annotation, py_field_optional. rewrite N. apply starts_with_append.
  - intros E N. unfold py_annotation, py_field_optional. rewrite N.
    destruct (c_type c) as [[]| | | | |]; try discriminate; reflexivity.
Qed.
