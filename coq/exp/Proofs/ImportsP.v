(* C18 proofs: sorting after collecting erases the iteration order of a hash set; an unsorted
   iteration does not. *)
From VV.EXP Require Import Imports.
From Coq Require Import Lia Permutation Sorted.

Definition admissible {A} (pi : list A -> list A) : Prop := forall l, Permutation (pi l) l.

Lemma id_admissible : admissible id_oracle.
Proof. intro l. apply Permutation_refl. Qed.
Lemma rev_admissible : admissible rev_oracle.
Proof. intro l. apply Permutation_sym, Permutation_rev. Qed.

(* ---------- String.leb is a total order ---------- *)
Lemma ascii_compare_trans c a b d :
  Ascii.compare a b = c -> Ascii.compare b d = c -> Ascii.compare a d = c.
Proof.
  unfold Ascii.compare. destruct c; intros H1 H2.
  - apply N.compare_eq_iff in H1, H2. apply N.compare_eq_iff. congruence.
  - apply N.compare_lt_iff in H1. apply N.compare_lt_iff in H2. apply N.compare_lt_iff.
    eapply N.lt_trans; eauto.
  - apply N.compare_gt_iff in H1. apply N.compare_gt_iff in H2. apply N.compare_gt_iff.
    eapply N.lt_trans; eauto.
Qed.

Lemma ascii_compare_eq a b : Ascii.compare a b = Eq -> a = b.
Proof. apply Ascii.compare_eq_iff. Qed.
Lemma ascii_compare_refl a : Ascii.compare a a = Eq.
Proof. unfold Ascii.compare. apply N.compare_refl. Qed.

Lemma string_compare_lt_trans : forall s1 s2 s3,
  String.compare s1 s2 = Lt -> String.compare s2 s3 = Lt -> String.compare s1 s3 = Lt.
Proof.
  induction s1 as [|a s1 IH]; intros [|b s2] [|c s3]; cbn; try congruence.
  destruct (Ascii.compare a b) eqn:Eab; try congruence;
  destruct (Ascii.compare b c) eqn:Ebc; try congruence; intros H1 H2.
  - apply ascii_compare_eq in Eab, Ebc. subst. rewrite ascii_compare_refl. eapply IH; eauto.
  - apply ascii_compare_eq in Eab. subst. now rewrite Ebc.
  - apply ascii_compare_eq in Ebc. subst. now rewrite Eab.
  - now rewrite (ascii_compare_trans Lt _ _ _ Eab Ebc).
Qed.

Lemma string_compare_eq s1 s2 : String.compare s1 s2 = Eq -> s1 = s2.
Proof. apply String.compare_eq_iff. Qed.

Lemma leb_false_lt s1 s2 : String.leb s1 s2 = false -> String.compare s2 s1 = Lt.
Proof.
  unfold String.leb. destruct (String.compare s1 s2) eqn:E; try congruence. intros _.
  rewrite String.compare_antisym, E. reflexivity.
Qed.
Lemma leb_true_cases s1 s2 : String.leb s1 s2 = true -> s1 = s2 \/ String.compare s1 s2 = Lt.
Proof.
  unfold String.leb. destruct (String.compare s1 s2) eqn:E; try congruence; intros _.
  - left. now apply string_compare_eq.
  - now right.
Qed.
Lemma lt_leb s1 s2 : String.compare s1 s2 = Lt -> String.leb s1 s2 = true.
Proof. unfold String.leb. now intros ->. Qed.
Lemma string_compare_refl s : String.compare s s = Eq.
Proof. induction s as [|a s IH]; cbn; [reflexivity|]. now rewrite ascii_compare_refl. Qed.
Lemma leb_refl s : String.leb s s = true.
Proof. unfold String.leb. now rewrite string_compare_refl. Qed.

Lemma leb_trans s1 s2 s3 : String.leb s1 s2 = true -> String.leb s2 s3 = true -> String.leb s1 s3 = true.
Proof.
  intros H1 H2. destruct (leb_true_cases _ _ H1) as [->|L1]; [exact H2|].
  destruct (leb_true_cases _ _ H2) as [->|L2]; [exact H1|].
  apply lt_leb. eapply string_compare_lt_trans; eauto.
Qed.
Lemma leb_false_leb s1 s2 : String.leb s1 s2 = false -> String.leb s2 s1 = true.
Proof. intro H. apply lt_leb, leb_false_lt, H. Qed.

(* ---------- insertion sort forgets the order of its input ---------- *)
Lemma insert_comm x y : forall l,
  insert_le String.leb x (insert_le String.leb y l) = insert_le String.leb y (insert_le String.leb x l).
Proof.
  induction l as [|z r IH]; cbn [insert_le].
  - destruct (String.leb x y) eqn:Exy, (String.leb y x) eqn:Eyx; cbn [insert_le]; rewrite ?Exy, ?Eyx; try reflexivity.
    + rewrite (String.leb_antisym _ _ Exy Eyx). reflexivity.
    + apply leb_false_leb in Exy. congruence.
  - destruct (String.leb y z) eqn:Eyz, (String.leb x z) eqn:Exz; cbn [insert_le].
    + destruct (String.leb x y) eqn:Exy, (String.leb y x) eqn:Eyx; rewrite ?Exz, ?Eyz; try reflexivity.
      * rewrite (String.leb_antisym _ _ Exy Eyx). reflexivity.
      * apply leb_false_leb in Exy. congruence.
    + (* y <= z, not x <= z: so not x <= y *)
      assert (Exy : String.leb x y = false).
      { destruct (String.leb x y) eqn:E; [|reflexivity]. rewrite (leb_trans _ _ _ E Eyz) in Exz. discriminate. }
      rewrite Exy, Exz. cbn [insert_le]. rewrite Eyz. reflexivity.
    + assert (Eyx : String.leb y x = false).
      { destruct (String.leb y x) eqn:E; [|reflexivity]. rewrite (leb_trans _ _ _ E Exz) in Eyz. discriminate. }
      rewrite Eyx, Eyz. cbn [insert_le]. rewrite Exz. reflexivity.
    + rewrite Exz, Eyz. f_equal. apply IH.
Qed.

Lemma sort_str_perm l l' : Permutation l l' -> sort_str l = sort_str l'.
Proof.
  unfold sort_str, sort_le. induction 1; cbn [fold_right].
  - reflexivity.
  - now f_equal.
  - apply insert_comm.
  - congruence.
Qed.

(* ---------- C18 ---------- *)
Lemma sorted_iter_oracle_free pi pi' ins : admissible pi -> admissible pi' ->
  sort_str (hs_iter pi ins) = sort_str (hs_iter pi' ins).
Proof.
  intros H H'. unfold hs_iter. apply sort_str_perm.
  eapply Permutation_trans; [apply H | apply Permutation_sym, H'].
Qed.

Theorem sa_line_oracle_free pi pi' t : admissible pi -> admissible pi' -> sa_line pi t = sa_line pi' t.
Proof. intros H H'. unfold sa_line. now rewrite (sorted_iter_oracle_free pi pi' _ H H'). Qed.

Theorem datetime_line_oracle_free pi pi' t : admissible pi -> admissible pi' -> datetime_line pi t = datetime_line pi' t.
Proof. intros H H'. unfold datetime_line. now rewrite (sorted_iter_oracle_free pi pi' _ H H'). Qed.

(* both import blocks are functions of the table alone: no hash iteration order can be observed in them *)
Theorem imports_oracle_free pa pa' pd pd' t :
  admissible pa -> admissible pa' -> admissible pd -> admissible pd' ->
  sqlalchemy_imports pa pd t = sqlalchemy_imports pa' pd' t /\ sqlmodel_imports pd t = sqlmodel_imports pd' t.
Proof.
  intros Ha Ha' Hd Hd'. unfold sqlalchemy_imports, sqlmodel_imports.
  rewrite (datetime_line_oracle_free pd pd' t Hd Hd'), (sa_line_oracle_free pa pa' t Ha Ha').
  split; reflexivity.
Qed.

(* the table of DESIGN D5 (one date, one time, one timestamp column): the former refutation witness *)
Definition d5_table : table_def :=
  mkTable "event" None
    [mkCol "id" (TSimple Integer) false None None None None None None;
     mkCol "d" (TSimple Date) false None None None None None None;
     mkCol "t" (TSimple Time) false None None None None None None;
     mkCol "ts" (TSimple Timestamp) false None None None None None None]
    [CPrimaryKey false ["id"]].

Example d5_fixed :
  datetime_line id_oracle d5_table = ["from datetime import date, datetime, time"]
  /\ datetime_line rev_oracle d5_table = ["from datetime import date, datetime, time"].
Proof. split; vm_compute; reflexivity. Qed.

(* ---------- SeaORM: the observations its code makes on hash containers ---------- *)
Lemma mem_str_perm x l l' : Permutation l l' -> mem_str x l = mem_str x l'.
Proof.
  unfold mem_str. induction 1 as [|a l l' P IH|a b l|l1 l2 l3 P1 IH1 P2 IH2]; cbn [existsb].
  - reflexivity.
  - now rewrite IH.
  - now rewrite !orb_assoc, (orb_comm (String.eqb x b)).
  - congruence.
Qed.

Lemma bt_get_perm {V} k (m m' : list (string * V)) :
  NoDup (map fst m) -> Permutation m m' -> bt_get k m = bt_get k m'.
Proof.
  intros ND P. revert ND. induction P as [|[a v] l l' P IH|[a v] [b w] l|l1 l2 l3 P1 IH1 P2 IH2]; intro ND.
  - reflexivity.
  - cbn [bt_get]. destruct (String.eqb k a); [reflexivity|]. apply IH. now inversion ND.
  - cbn [bt_get]. destruct (String.eqb k b) eqn:Eb, (String.eqb k a) eqn:Ea; try reflexivity.
    apply String.eqb_eq in Ea, Eb. subst. inversion ND as [|? ? Hn _]. exfalso. apply Hn. now left.
  - rewrite IH1 by exact ND. apply IH2.
    eapply Permutation_NoDup; [apply Permutation_map, P1 | exact ND].
Qed.

Theorem seaorm_oracle_free :
  (forall pi pi' s x, admissible pi -> admissible pi' -> hs_contains pi s x = hs_contains pi' s x)
  /\ (forall pi pi' s, admissible pi -> admissible pi' -> hs_len pi s = hs_len pi' s)
  /\ (forall V (pi pi' : list (string * V) -> list (string * V)) m k,
        admissible pi -> admissible pi' -> NoDup (map fst m) -> hm_get pi m k = hm_get pi' m k).
Proof.
  split; [|split].
  - intros pi pi' s x H H'. unfold hs_contains. apply mem_str_perm.
    eapply Permutation_trans; [apply H | apply Permutation_sym, H'].
  - intros pi pi' s H H'. unfold hs_len.
    rewrite (Permutation_length (H s)), (Permutation_length (H' s)). reflexivity.
  - intros V pi pi' m k H H' ND. unfold hm_get.
    rewrite (bt_get_perm k (pi m) m), (bt_get_perm k (pi' m) m); auto.
    + eapply Permutation_NoDup; [apply Permutation_map, Permutation_sym, H' | exact ND].
    + eapply Permutation_NoDup; [apply Permutation_map, Permutation_sym, H | exact ND].
Qed.

(* ---------- the sort is THE byte-wise one: String.compare on the UTF-8 bytes (= Rust's Ord for str) ---------- *)
Definition bytewise_le (a b : string) : Prop := String.compare a b <> Gt.

Lemma leb_bytewise a b : String.leb a b = true <-> bytewise_le a b.
Proof. unfold String.leb, bytewise_le. destruct (String.compare a b); split; congruence. Qed.

Lemma insert_perm x : forall l, Permutation (insert_le String.leb x l) (x :: l).
Proof.
  induction l as [|y r IH]; cbn [insert_le]; [apply Permutation_refl|].
  destruct (String.leb x y); [apply Permutation_refl|].
  eapply Permutation_trans; [apply perm_skip, IH | apply perm_swap].
Qed.

Lemma sort_str_permutation l : Permutation (sort_str l) l.
Proof.
  unfold sort_str, sort_le. induction l as [|x r IH]; cbn [fold_right]; [constructor|].
  eapply Permutation_trans; [apply insert_perm | now apply perm_skip].
Qed.

Lemma insert_sorted x : forall l, StronglySorted bytewise_le l ->
  StronglySorted bytewise_le (insert_le String.leb x l).
Proof.
  induction l as [|y r IH]; intro S; cbn [insert_le].
  - constructor; constructor.
  - inversion S as [|? ? Sr Fy]; subst. destruct (String.leb x y) eqn:E.
    + constructor; [exact S|]. constructor; [now apply leb_bytewise|].
      eapply Forall_impl; [|exact Fy]. intros z Hz. apply leb_bytewise.
      eapply leb_trans; [exact E | now apply leb_bytewise].
    + constructor; [now apply IH|].
      assert (Hyx : String.leb y x = true) by now apply leb_false_leb.
      eapply Permutation_Forall; [apply Permutation_sym, insert_perm|].
      constructor; [now apply leb_bytewise | exact Fy].
Qed.

Theorem sort_str_sorted l : StronglySorted bytewise_le (sort_str l).
Proof.
  unfold sort_str, sort_le. induction l as [|x r IH]; cbn [fold_right]; [constructor | now apply insert_sorted].
Qed.

(* the names after `from sqlalchemy import` are exactly the set of inserted names, in strictly byte-wise order,
   whatever the iteration order of the HashSet was *)
Theorem sa_line_bytewise_sorted pi t : admissible pi ->
  exists l, Permutation l (hs_of_inserts (sa_inserts t) []) /\ StronglySorted bytewise_le l
            /\ sa_line pi t = match l with [] => [] | _ => ["from sqlalchemy import " +++ join ", " l] end.
Proof.
  intro H. exists (sort_str (hs_iter pi (sa_inserts t))). split; [|split].
  - eapply Permutation_trans; [apply sort_str_permutation | apply H].
  - apply sort_str_sorted.
  - unfold sa_line. destruct (sort_str (hs_iter pi (sa_inserts t))); reflexivity.
Qed.

Theorem datetime_line_bytewise_sorted pi t : admissible pi ->
  exists l, Permutation l (hs_of_inserts (dt_inserts t) []) /\ StronglySorted bytewise_le l
            /\ datetime_line pi t = match l with [] => [] | _ => ["from datetime import " +++ join ", " l] end.
Proof.
  intro H. exists (sort_str (hs_iter pi (dt_inserts t))). split; [|split].
  - eapply Permutation_trans; [apply sort_str_permutation | apply H].
  - apply sort_str_sorted.
  - unfold datetime_line. destruct (sort_str (hs_iter pi (dt_inserts t))); reflexivity.
Qed.

(* upper-case names sort before the lower-case helper: the witness a case-insensitive key would reorder *)
Example bytewise_order_witness :
  sort_str ["text"; "Uuid"; "Integer"; "Text"] = ["Integer"; "Text"; "Uuid"; "text"].
Proof. vm_compute. reflexivity. Qed.

(* ---------- SQLModel: `text` is imported iff some column renders text("...") — for ALL defaults ---------- *)
(* the helper that decides the import (default_uses_text) and the if-chain of render_column agree on every string *)
Theorem default_uses_text_spec s : default_uses_text s = kind_is_text (sqlmodel_default_kind s).
Proof.
  unfold default_uses_text, sqlmodel_default_kind.
  destruct (contains_char "("%char s); [reflexivity|].
  destruct (String.eqb s "true"); [reflexivity|].
  destruct (String.eqb s "false"); [reflexivity|].
  destruct (starts_with "'" s); [reflexivity|].
  destruct (starts_with """" s); [reflexivity|].
  destruct (looks_f64 s); reflexivity.
Qed.

Theorem sqlmodel_text_import_iff t :
  sqlmodel_needs_text t = true <-> exists c, In c (t_columns t) /\ sqlmodel_column_uses_text c = true.
Proof.
  unfold sqlmodel_needs_text. rewrite existsb_exists. split; intros [c [Hc H]]; exists c; split; auto.
  - unfold sqlmodel_column_uses_text. destruct (c_default c); [|discriminate]. now rewrite <- default_uses_text_spec.
  - unfold sqlmodel_column_uses_text in H. destruct (c_default c); [|discriminate]. now rewrite default_uses_text_spec.
Qed.

(* ... and the import line names `text` exactly then *)
Theorem sqlmodel_sa_line_text t :
  sqlmodel_needs_text t = true <-> exists l, sqlmodel_sa_line t = [l] /\ ends_with "text" l = true.
Proof.
  unfold sqlmodel_sa_line.
  destruct (existsb is_composite_index (t_constraints t)), (existsb is_composite_unique (t_constraints t)),
           (sqlmodel_needs_text t); cbn [app]; split; intro H; try discriminate; try reflexivity;
    try (eexists; split; [reflexivity | vm_compute; reflexivity]);
    try (destruct H as [l [E X]]; try discriminate; injection E as <-; vm_compute in X; discriminate).
Qed.
