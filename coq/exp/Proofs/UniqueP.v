(* unique_name always finds a name: among base, base_1, ..., base_{n+1} (pairwise distinct strings) at least
   one is outside a `used` set of n elements, so the fuelled loop of Model/Names.v never runs out of fuel. *)
From VV.EXP Require Import Names.
From VV.EXP Require Import NamesP.
From Coq Require Import Lia.

(* ---------- decimal rendering is injective ---------- *)
Definition digit_val (a : ascii) : N := N_of_ascii a - 48.
Fixpoint val_acc (s : string) (a : N) : N :=
  match s with EmptyString => a | String c r => val_acc r (a * 10 + digit_val c) end.

Lemma val_acc_app s t a : val_acc (s +++ t) a = val_acc t (val_acc s a).
Proof. revert a. induction s as [|c r IH]; intro a; cbn [String.append val_acc]; [reflexivity | apply IH]. Qed.

Lemma digit_val_char r : (r < 10)%N -> digit_val (digit_char r) = r.
Proof.
  intro H. unfold digit_val, digit_char. rewrite N_ascii_embedding by lia. lia.
Qed.

Lemma append_assoc (a b c : string) : (a +++ b) +++ c = a +++ (b +++ c).
Proof. induction a as [|x a IH]; cbn [String.append]; [reflexivity | now rewrite IH]. Qed.

Lemma to_string_fuel_spec : forall f n acc, (n < 2 ^ N.of_nat f)%N ->
  exists s, N_to_string_fuel f n acc = s +++ acc /\ forall a, val_acc s a = (if Nat.eqb f 0 then a else a * 10 ^ N.of_nat (String.length s) + n)%N.
Proof.
  induction f as [|f IH]; intros n acc H.
  - exists EmptyString. split; [reflexivity|]. intro a. reflexivity.
  - cbn [N_to_string_fuel]. cbv zeta.
    assert (Hr : (n mod 10 < 10)%N) by (apply N.mod_lt; lia).
    assert (Hn : (n = 10 * (n / 10) + n mod 10)%N) by (apply N.div_mod; lia).
    destruct (N.eqb (n / 10) 0) eqn:Q.
    + apply N.eqb_eq in Q. exists (String (digit_char (n mod 10)) EmptyString). split; [reflexivity|].
      intro a. cbn [val_acc String.length Nat.eqb]. rewrite digit_val_char by exact Hr.
      replace (N.of_nat 1) with 1%N by reflexivity. lia.
    + apply N.eqb_neq in Q.
      assert (Hq : (n / 10 < 2 ^ N.of_nat f)%N).
      { rewrite Nat2N.inj_succ, N.pow_succ_r' in H. apply N.div_lt_upper_bound; lia. }
      destruct (IH (n / 10)%N (String (digit_char (n mod 10)) acc) Hq) as [s [Es Vs]].
      exists (s +++ String (digit_char (n mod 10)) EmptyString). split.
      * rewrite Es, append_assoc. reflexivity.
      * intro a. rewrite val_acc_app. cbn [val_acc Nat.eqb]. rewrite digit_val_char by exact Hr. rewrite Vs.
        destruct f as [|f'].
        { (* f = 0: n / 10 < 1 contradicts Q *) cbn in Hq. lia. }
        cbn [Nat.eqb].
        assert (L : String.length (s +++ String (digit_char (n mod 10)) EmptyString) = S (String.length s)).
        { clear. induction s as [|c r IHs]; cbn [String.append String.length]; [reflexivity | now rewrite IHs]. }
        rewrite L, Nat2N.inj_succ, N.pow_succ_r'. lia.
Qed.

Lemma N_to_string_val n : val_acc (N_to_string n) 0 = n.
Proof.
  unfold N_to_string.
  assert (H : (n < 2 ^ N.of_nat (S (N.to_nat (N.log2 n))))%N).
  { rewrite Nat2N.inj_succ, N2Nat.id. destruct n as [|p]; [reflexivity|]. apply N.log2_spec. lia. }
  destruct (to_string_fuel_spec _ n EmptyString H) as [s [Es Vs]].
  rewrite Es. replace (s +++ EmptyString) with s.
  - rewrite Vs. cbn [Nat.eqb]. lia.
  - clear. induction s as [|c r IH]; cbn [String.append]; [reflexivity | now rewrite <- IH].
Qed.

Lemma N_to_string_inj i j : N_to_string i = N_to_string j -> i = j.
Proof. intro H. rewrite <- (N_to_string_val i), <- (N_to_string_val j), H. reflexivity. Qed.

Lemma append_inj_l (p a b : string) : p +++ a = p +++ b -> a = b.
Proof. induction p as [|x p IH]; cbn [String.append]; [auto|]. intro H. injection H as H. now apply IH. Qed.

Lemma append_length (a b : string) : String.length (a +++ b) = (String.length a + String.length b)%nat.
Proof. induction a as [|x a IH]; cbn [String.append String.length]; [reflexivity | now rewrite IH]. Qed.

(* ---------- the candidates ---------- *)
Definition cand (base : string) (i : N) : string := base +++ "_" +++ N_to_string i.

Lemma cand_inj base i j : cand base i = cand base j -> i = j.
Proof. unfold cand. intro H. apply append_inj_l in H. injection H as H. now apply N_to_string_inj. Qed.
Lemma cand_neq_base base i : cand base i <> base.
Proof.
  unfold cand. intro H. apply (f_equal String.length) in H. rewrite append_length in H.
  cbn [String.append String.length] in H. lia.
Qed.

(* the loop, started at candidate i with `name`, fails only if name and the next [fuel] candidates are all used *)
Lemma loop_none fuel : forall base i name used,
  unique_name_loop fuel base i name used = None ->
  In name used /\ forall k, (k < fuel)%nat -> In (cand base (i + N.of_nat k)) used.
Proof.
  induction fuel as [|f IH]; intros base i name used; cbn [unique_name_loop];
    destruct (mem_str name used) eqn:E; try discriminate; intro H.
  - split; [now apply mem_str_In | intros k Hk; lia].
  - apply mem_str_In in E. split; [exact E|]. destruct (IH _ _ _ _ H) as [H0 Hk].
    intros k Lk. destruct k as [|k].
    + rewrite N.add_0_r. exact H0.
    + replace (i + N.of_nat (S k))%N with (i + 1 + N.of_nat k)%N by lia. apply Hk. lia.
Qed.

Lemma NoDup_map_inj {A B} (f : A -> B) l : (forall x y, f x = f y -> x = y) -> NoDup l -> NoDup (map f l).
Proof.
  intros Inj ND. induction ND as [|x l Hx ND IH]; cbn [map]; constructor; [|exact IH].
  intro H. apply in_map_iff in H. destruct H as [y [E Hy]]. apply Inj in E. now subst.
Qed.

Theorem unique_name_total base used : exists n, unique_name base used = Some n.
Proof.
  destruct (unique_name base used) as [n|] eqn:U; [eauto|]. exfalso.
  unfold unique_name in U. apply loop_none in U. destruct U as [H0 Hk].
  set (m := List.length used) in *.
  (* base :: cand 1 .. cand (m+1): m + 2 pairwise distinct strings, all in used *)
  set (ks := map (fun k => (1 + N.of_nat k)%N) (seq 0 (S m))).
  assert (ND : NoDup (base :: map (cand base) ks)).
  { constructor.
    - intro H. apply in_map_iff in H. destruct H as [k [E _]]. exact (cand_neq_base _ _ E).
    - apply NoDup_map_inj; [apply cand_inj|]. unfold ks. apply NoDup_map_inj; [intros; lia | apply seq_NoDup]. }
  assert (Inc : incl (base :: map (cand base) ks) used).
  { intros x [<-|Hx]; [exact H0|]. apply in_map_iff in Hx. destruct Hx as [i [<- Hi]].
    unfold ks in Hi. apply in_map_iff in Hi. destruct Hi as [k [<- Hk']]. apply in_seq in Hk'. apply Hk. lia. }
  pose proof (NoDup_incl_length ND Inc) as L. cbn [List.length] in L.
  unfold ks in L. rewrite !map_length, seq_length in L. unfold m in L. lia.
Qed.

(* hence handing out names never diverges *)
Theorem alloc_names_total bases : forall used, exists ns, alloc_names bases used = Some ns.
Proof.
  induction bases as [|b r IH]; intro used; cbn [alloc_names]; [eauto|].
  destruct (unique_name_total b used) as [n ->]. destruct (IH (n :: used)) as [ns ->]. eauto.
Qed.

(* the declarations of a table are always computed: neither the FK-chain walk (visited set) nor the name loop can
   exhaust its fuel; the only failure left is the index panic on an FK without columns, which the loader rejects *)
Theorem members_never_diverge s t : members s t <> Err XDiverge.
Proof.
  unfold members, members_fuel, relation_members, rbind.
  destruct (relation_infos (resolve_fuel s) s t) as [infos|e] eqn:RI.
  - destruct (alloc_names_total (map ri_field_base infos) []) as [ns ->]. discriminate.
  - intro H. injection H as ->. exact (relation_infos_no_diverge s t RI).
Qed.

(* the relation-enum disambiguation (seaorm/mod.rs:537-544) is loop free in the model as in the code: a colliding name
   gets the PascalCase table name appended ONCE ([alloc_enums]: `if mem first used then alt else first`), with no
   re-check — so a table whose PascalCase name is empty (`_`, `__`, `-`) simply yields the same enum twice (a member
   of the class known_C17_clash), and [members_never_diverge] covers it: there is no fuel to exhaust on that path *)
Definition sep_user : table_def :=
  mkTable "user" None [mkCol "id" (TSimple Integer) false None None None None None None] [CPrimaryKey false ["id"]].
Definition sep_table : table_def :=
  mkTable "_" None
    [mkCol "id" (TSimple Integer) false None None None None None None;
     mkCol "owner_id" (TSimple Integer) true None None None None None None;
     mkCol "owner" (TSimple Integer) true None None None None None None]
    [CPrimaryKey false ["id"]; CForeignKey None ["owner_id"] "user" ["id"] None None;
     CForeignKey None ["owner"] "user" ["id"] None None].
Example separator_table_renders :
  to_pascal_case "_" = ""
  /\ (exists d, members [sep_user; sep_table] sep_table = Ok d
                /\ flat_map member_relation_enum (d_members d) = ["Owner"; "Owner"])
  /\ known_C17_clash [sep_user; sep_table] sep_table = true.
Proof. split; [reflexivity|]. split; [eexists; split; vm_compute; reflexivity | vm_compute; reflexivity]. Qed.
