(* C16 proofs about Display for MigrationAction: it panics exactly on a RawSql longer than 50 bytes
   whose byte 47 lies inside a multi-byte character. *)
From VV.EXP Require Import Display.
From Coq Require Import Lia.

Lemma rawsql_display sql :
  display (RawSql sql) =
    if (Nat.leb (String.length sql) 50 || is_char_boundary sql 47)%bool
    then (if Nat.ltb 50 (String.length sql) then Txt ("RawSql: " +++ substring 0 47 sql +++ "...")
          else Txt ("RawSql: " +++ sql))
    else Panic.
Proof.
  cbn [display]. unfold slice_to.
  destruct (Nat.ltb 50 (String.length sql)) eqn:E.
  - apply Nat.ltb_lt in E.
    assert (L1 : Nat.leb (String.length sql) 50 = false) by (apply Nat.leb_gt; lia).
    assert (L2 : Nat.leb 47 (String.length sql) = true) by (apply Nat.leb_le; lia).
    rewrite L1, L2. cbn [orb andb]. destruct (is_char_boundary sql 47); reflexivity.
  - apply Nat.ltb_ge in E.
    assert (L1 : Nat.leb (String.length sql) 50 = true) by (apply Nat.leb_le; lia).
    rewrite L1. reflexivity.
Qed.

Theorem display_panic_iff a : display a = Panic <-> rawsql_ok a = false.
Proof.
  destruct a; try (cbn [display rawsql_ok]; split; discriminate).
  - (* ModifyColumnComment *) destruct new_comment; cbn [display rawsql_ok]; split; discriminate.
  - rewrite rawsql_display. cbn [rawsql_ok].
    destruct (Nat.leb (String.length sql) 50 || is_char_boundary sql 47)%bool.
    + destruct (Nat.ltb 50 (String.length sql)); split; discriminate.
    + split; reflexivity.
Qed.

Theorem display_total a : rawsql_ok a = true -> exists s, display a = Txt s.
Proof.
  intro H. destruct (display a) eqn:E; [eauto|].
  apply display_panic_iff in E. congruence.
Qed.

(* 46 ASCII bytes, then U+00E9 (bytes 195 169), then "abc": 51 bytes, byte 47 = 169 is a continuation byte *)
Definition d3_sql : string :=
  string_of_list_ascii (repeat "x"%char 46) +++ String (ascii_of_N 195) (String (ascii_of_N 169) "abc").
Definition d3_witness : action := RawSql d3_sql.

Theorem display_total_refuted : exists a, display a = Panic.
Proof. exists d3_witness. vm_compute. reflexivity. Qed.

(* the CLI renderer never slices bytes: it has no Panic outcome at all *)
Theorem format_action_total a : exists s, format_action a = Txt s.
Proof. destruct a; cbn [format_action]; eauto. Qed.

