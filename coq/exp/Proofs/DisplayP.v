(* C16 proofs about Display for MigrationAction after fix b4532c3: the RawSql arm cuts at the largest char
   boundary at or below byte 47, so the slice is always legal — Display is total — and the text is the old one
   wherever the old code did not panic (in particular for ASCII). *)
From VV.EXP Require Import Display.
From Coq Require Import Lia.

Lemma floor_le s : forall n, (floor_char_boundary s n <= n)%nat.
Proof. induction n as [|k IH]; cbn [floor_char_boundary]; [lia|]. destruct (is_char_boundary s (S k)); lia. Qed.

Lemma floor_is_boundary s : forall n, is_char_boundary s (floor_char_boundary s n) = true.
Proof.
  induction n as [|k IH]; cbn [floor_char_boundary]; [reflexivity|].
  destruct (is_char_boundary s (S k)) eqn:E; [exact E | exact IH].
Qed.

Lemma floor_id s n : is_char_boundary s n = true -> floor_char_boundary s n = n.
Proof. destruct n as [|k]; cbn [floor_char_boundary]; [reflexivity|]. now intros ->. Qed.

(* the guard in front of &sql[..end] always holds *)
Lemma slice_floor_some s n : (n <= String.length s)%nat ->
  slice_to s (floor_char_boundary s n) = Some (substring 0 (floor_char_boundary s n) s).
Proof.
  intro L. unfold slice_to. rewrite floor_is_boundary.
  assert (H : Nat.leb (floor_char_boundary s n) (String.length s) = true).
  { apply Nat.leb_le. pose proof (floor_le s n). lia. }
  rewrite H. reflexivity.
Qed.

Lemma rawsql_display sql :
  display (RawSql sql) =
    if Nat.ltb 50 (String.length sql)
    then Txt ("RawSql: " +++ substring 0 (floor_char_boundary sql 47) sql +++ "...")
    else Txt ("RawSql: " +++ sql).
Proof.
  cbn [display]. destruct (Nat.ltb 50 (String.length sql)) eqn:E; [|reflexivity].
  apply Nat.ltb_lt in E. rewrite slice_floor_some by lia. reflexivity.
Qed.

(* Display is total: no action, whatever its text, makes it panic *)
Theorem display_total a : exists s, display a = Txt s.
Proof.
  destruct a; try (cbn [display]; eauto; fail).
  - destruct new_comment; cbn [display]; eauto.
  - rewrite rawsql_display. destruct (Nat.ltb 50 (String.length sql)); eauto.
Qed.

(* wherever the code before the fix did not panic, the text is unchanged *)
Theorem display_rawsql_unchanged sql :
  (Nat.leb (String.length sql) 50 || is_char_boundary sql 47)%bool = true ->
  display (RawSql sql) = display_rawsql_before_fix sql.
Proof.
  intro H. rewrite rawsql_display. unfold display_rawsql_before_fix.
  destruct (Nat.ltb 50 (String.length sql)) eqn:E; [|reflexivity].
  apply Nat.ltb_lt in E. assert (L : Nat.leb (String.length sql) 50 = false) by (apply Nat.leb_gt; lia).
  rewrite L in H. cbn [orb] in H. now rewrite (floor_id _ _ H).
Qed.

Lemma all_ascii_get s : all_ascii s = true -> forall i a, String.get i s = Some a -> is_cont a = false.
Proof.
  induction s as [|c r IH]; intros A i a G; [destruct i; discriminate|].
  cbn [all_ascii] in A. apply andb_true_iff in A. destruct A as [Ac Ar].
  destruct i as [|i]; cbn [String.get] in G.
  - injection G as <-. unfold is_cont. apply N.ltb_lt in Ac.
    assert (X : N.leb 128 (N_of_ascii c) = false) by (apply N.leb_gt; exact Ac). now rewrite X.
  - eapply IH; eauto.
Qed.

Theorem display_rawsql_ascii sql : all_ascii sql = true -> display (RawSql sql) = display_rawsql_before_fix sql.
Proof.
  intro A. apply display_rawsql_unchanged. apply orb_true_iff.
  destruct (Nat.leb (String.length sql) 50) eqn:L; [now left|right].
  unfold is_char_boundary. destruct (String.get 47 sql) as [a|] eqn:G.
  - now rewrite (all_ascii_get _ A _ _ G).
  - (* no byte 47: the string is shorter than 48 bytes, contradiction with len > 50 *)
    exfalso. apply Nat.leb_gt in L.
    assert (X : forall s i, String.get i s = None -> (String.length s <= i)%nat).
    { clear. induction s as [|c r IH]; intros i G; cbn [String.length]; [lia|].
      destruct i as [|i]; cbn [String.get] in G; [discriminate|]. specialize (IH _ G). lia. }
    specialize (X _ _ G). lia.
Qed.

(* the former witness of D3 (46 ASCII bytes, U+00E9, "abc") now renders: cut in front of the 2-byte character *)
Definition d3_sql : string :=
  string_of_list_ascii (repeat "x"%char 46) +++ String (ascii_of_N 195) (String (ascii_of_N 169) "abc").
Definition d3_witness : action := RawSql d3_sql.

Example d3_witness_fixed :
  display d3_witness = Txt ("RawSql: " +++ string_of_list_ascii (repeat "x"%char 46) +++ "...")
  /\ known_C16_rawsql_slice d3_witness = true.
Proof. split; vm_compute; reflexivity. Qed.

(* the CLI renderer never slices bytes: it has no Panic outcome at all *)
Theorem format_action_total a : exists s, format_action a = Txt s.
Proof. destruct a; cbn [format_action]; eauto. Qed.
