(* Correspondence driver of layer EXP.  The harness prints, for every generated model set, the schema slice
   and what the real exporter produced for each of its tables (SeaORM declarations parsed structurally from
   render_entity_with_schema's text; the import blocks of the two Python ORMs), and for every generated
   action the outcome of format!("{}", action) under catch_unwind.  [check_*] recompute them with the model
   and return the ids of the sub-checks that differ.  No proofs here. *)
From VV.EXP Require Export Names PyClass RustIdent SeaConfig.

(* long runs of one character are printed by the harness as [rep_str "c" n] *)
Definition rep_str (u : string) (n : N) : string := N.iter n (String.append u) "".

(* ---------- K-exp ---------- *)
Inductive sea_obs :=
| SeaOk (d : decl)          (* rendered; declarations parsed from the text *)
| SeaPanic                  (* render_entity_with_schema panicked (caught) *)
| SeaDiverged.              (* rendered in a subprocess: killed by stack overflow / wall-clock cap *)

Record xt := mkXT {
  xt_sea : sea_obs;
  xt_sa : list (list string);   (* non-empty lines of the SQLAlchemy output before the first class: every DISTINCT
                                   block seen over the repeated renders of this table *)
  xt_sm : list (list string);   (* same for SQLModel *)
  xt_pyclass : string;       (* name of the table class in the SQLAlchemy output *)
  xt_invalid : list string;
  xt_sm_text : list bool;
  xt_cfg_lines : list (list string);
  xt_sm_ann : list string;      (* per column, in order: the annotation of its SQLModel field (text between ": " and " = Field(") *)
  xt_sa_ann : list string }.    (* per column: the T of `Mapped[T]` in the SQLAlchemy output *)   (* the configuration-dependent lines of the SeaORM entity rendered under the
                                            case's drawn configuration: every DISTINCT list seen over the repeated renders *)     (* per column, in order: does its SQLModel Field(...) line wrap the default in text("...")? *)   (* O-C17's reports "invalid-<kind>:<name>" for the SeaORM declarations of this table *)

Record exp_case := mkXC { x_schema : schema; x_cfg : sea_config; x_obs : list xt }.

Definition sea_check (s : schema) (t : table_def) (o : sea_obs) : bool :=
  match o, members s t with
  | SeaOk d, Ok d' => dec_b decl_eq_dec d d'
  | SeaPanic, Err XPanic => true
  | SeaDiverged, Err XDiverge => true
  | _, _ => false
  end.

(* every line — the datetime line too — is compared as text, order of the imported names included.  All observed
   variants must agree with the model, and at least one must have been observed. *)
Definition imports_check (model : list string) (impl : list (list string)) : bool :=
  (negb (Nat.eqb (List.length impl) 0) && forallb (list_eqb import_line_eqb model) impl)%bool.

Definition ascii_only (s : string) : bool := all_chars (fun a => negb (non_ascii a)) s.

(* sub-checks: 1 SeaORM declarations, 2 SQLAlchemy import block, 3 SQLModel import block, 4 Python class name,
   5 SQLModel: which columns wrap their default in text(...), 6 SeaORM lines that depend on the export configuration,
   7 / 8 the annotation (Python type, Optional[...] iff nullable) of every column in the SQLModel / SQLAlchemy output *)
Fixpoint ann_list_check (cols : list column_def) (anns : list string) : bool :=
  match cols, anns with
  | [], [] => true
  | c :: cr, a :: ar => (annotation_check c a && ann_list_check cr ar)%bool
  | _, _ => false
  end.

Definition check_table (cfg : sea_config) (s : schema) (t : table_def) (o : xt) : list nat :=
  (if sea_check s t (xt_sea o) then [] else [1%nat])
  ++ (if imports_check (sqlalchemy_imports id_oracle id_oracle t) (xt_sa o) then [] else [2%nat])
  ++ (if imports_check (sqlmodel_imports id_oracle t) (xt_sm o) then [] else [3%nat])
  ++ (if (negb (ascii_only (t_name t)) || String.eqb (py_pascal_case (t_name t)) (xt_pyclass o))%bool then [] else [4%nat])
  ++ (if list_eqb Bool.eqb (map sqlmodel_column_uses_text (t_columns t)) (xt_sm_text o) then [] else [5%nat])
  ++ (if ann_list_check (t_columns t) (xt_sm_ann o) then [] else [7%nat])
  ++ (if ann_list_check (t_columns t) (xt_sa_ann o) then [] else [8%nat])
  ++ (if (negb (Nat.eqb (List.length (xt_cfg_lines o)) 0)
          && forallb (list_eqb String.eqb (config_lines cfg t)) (xt_cfg_lines o))%bool then [] else [6%nat]).

Fixpoint check_tables (cfg : sea_config) (s : schema) (ts : list table_def) (os : list xt) (i : nat) : list nat :=
  match ts, os with
  | t :: tr, o :: or => map (fun k => (10 * i + k)%nat) (check_table cfg s t o) ++ check_tables cfg s tr or (S i)
  | [], [] => []
  | _, _ => [(10 * i + 9)%nat]          (* observation list and schema differ in length *)
  end.
(* codes 10 * table index + sub-check *)
Definition check_case (c : exp_case) : list nat := check_tables (x_cfg c) (x_schema c) (x_schema c) (x_obs c) 0.

Fixpoint mismatches_from (i : nat) (cs : list exp_case) : list (nat * list nat) :=
  match cs with
  | [] => []
  | c :: r => match check_case c with
              | [] => mismatches_from (S i) r
              | l => (i, l) :: mismatches_from (S i) r
              end
  end.

(* classifiers and theorem hypotheses, per table of the case, in this order:
   0 known_C17_clash   1 known_C16_fk_cycle   2 known_C18_datetime (former class, fixed)   3 known_C18_slice_order
   4 fk_closed (hypothesis of refs_exist)   5 known_C17_py_ident   6 known_C17_py_dup
   7 known_C17_py_empty_import   8 known_C17_py_text   9 known_C17_py_sqlmodel_text
   10 known_C17_rust_ident (on the names the oracle reported for the table)   11 known_C17_py_sqlmodel_float_word   12 known_C17_seaorm_doc_cr *)
Definition classify_table (s : schema) (t : table_def) (o : xt) : list bool :=
  [known_C17_clash s t; known_C16_fk_cycle s t; known_C18_datetime t; known_C18_slice_order s t;
   fk_closed s; known_C17_py_ident t; known_C17_py_dup t; known_C17_py_empty_import t; known_C17_py_text t;
   known_C17_py_sqlmodel_text t; known_C17_rust_ident s t (xt_invalid o); known_C17_py_sqlmodel_float_word t;
   known_C17_seaorm_doc_cr t].
Definition classify_case (c : exp_case) : list (list bool) :=
  map (fun to => classify_table (x_schema c) (fst to) (snd to)) (combine (x_schema c) (x_obs c)).

(* ---------- K-disp ---------- *)
Record disp_case := mkDC {
  dc_action : action;
  dc_out : outcome;                 (* format!("{}", action) under catch_unwind *)
  dc_type : option string }.        (* new_type.to_display_string() for ModifyColumnType *)

Definition check_disp (c : disp_case) : list nat :=
  (if outcome_eqb (display (dc_action c)) (dc_out c) then [] else [1%nat])
  ++ match dc_action c, dc_type c with
     | ModifyColumnType _ _ ty _, Some s => if String.eqb (type_display ty) s then [] else [2%nat]
     | _, _ => []
     end.
Fixpoint disp_mismatches_from (i : nat) (cs : list disp_case) : list (nat * list nat) :=
  match cs with
  | [] => []
  | c :: r => match check_disp c with
              | [] => disp_mismatches_from (S i) r
              | l => (i, l) :: disp_mismatches_from (S i) r
              end
  end.
Definition classify_disp (c : disp_case) : bool := known_C16_rawsql_slice (dc_action c).
