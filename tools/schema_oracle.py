#!/usr/local/bin/python3-vt
"""O-C15 (run with python3-vt, which has `jsonschema`): verdicts of the reference validator.

  schema_oracle.py --cases cases.jsonl --shipped DIR --generated DIR --out verdicts.json
                   [--parse-bin hserde] [--seed N] [--mutants N]

For every round-trip / mutated document of the K-serde run: valid under the shipped / the regenerated
schema (Draft 2020-12); for tool-written documents additionally validity under the *strict* reading of the
shipped schema (additionalProperties: false wherever properties are declared: "every field the tool writes
is declared") with the undeclared members listed.  Then schema-guided mutants of tool-written documents
(optional members dropped, nullable members nulled, boundary numbers at integer positions, alternative
union branches) that stay valid under the shipped schema are sent to the real parser (`hserde parse`)."""
import argparse, copy, decimal, json, random, subprocess, sys
import jsonschema

KIND_SCHEMA = {"table": "model", "plan": "migration", "config": "config"}


def load(dirp):
    return {k: json.load(open("%s/%s.schema.json" % (dirp, v))) for k, v in KIND_SCHEMA.items()}


def strictify(s, root=True):
    """additionalProperties: false wherever `properties` is declared (and none is given)."""
    if isinstance(s, dict):
        out = {k: (strictify(v, False) if k not in ("properties", "$defs", "default", "const", "enum", "required") else v) for k, v in s.items()}
        for key in ("properties", "$defs"):
            if key in s:
                out[key] = {k: strictify(v, False) for k, v in s[key].items()}
        if "properties" in s and "additionalProperties" not in s:
            out["additionalProperties"] = False
            if root:
                out["properties"] = dict(out["properties"])
                out["properties"]["$schema"] = {"type": "string"}
        return out
    if isinstance(s, list):
        return [strictify(x, False) for x in s]
    return s


def undeclared(root, s, doc, path, out):
    """members the tool wrote that no `properties` of the schema position declares (own walker: for
    anyOf / oneOf the first alternative that accepts the value is followed)"""
    if not isinstance(s, dict):
        return
    if "$ref" in s:
        undeclared(root, root["$defs"][s["$ref"].split("/")[-1]], doc, path, out)
    for key in ("anyOf", "oneOf"):
        for a in s.get(key, []):
            a2 = a
            while isinstance(a2, dict) and "$ref" in a2:
                a2 = root["$defs"][a2["$ref"].split("/")[-1]]
            if isinstance(a2, dict) and jsonschema.Draft202012Validator({**a2, "$defs": root.get("$defs", {})}).is_valid(doc):
                undeclared(root, a2, doc, path, out)
                break
    if isinstance(doc, dict) and "properties" in s:
        for k, v in doc.items():
            if k in s["properties"]:
                undeclared(root, s["properties"][k], v, path + [k], out)
            elif "additionalProperties" not in s and not (not path and k == "$schema"):
                out.append("/".join("*" if isinstance(p, int) else p for p in path + [k]))
    if isinstance(doc, list) and "items" in s:
        for i, x in enumerate(doc):
            undeclared(root, s["items"], x, path + [i], out)


def rust_f64(f):
    """Rust's Display for f64: shortest round-trip digits, positional notation"""
    if f != f:
        return "NaN"
    if f in (float("inf"), float("-inf")):
        return "inf" if f > 0 else "-inf"
    s = format(decimal.Decimal(repr(f)), "f")
    if "." in s:
        s = s.rstrip("0").rstrip(".")
    if s in ("-0", "0") and str(f).startswith("-"):
        return "-0"
    return s


def gstr(s):
    return '"' + s.replace('"', '""') + '"'


def gjson(v):
    if v is None:
        return "JNull"
    if v is True:
        return "(JBool true)"
    if v is False:
        return "(JBool false)"
    if isinstance(v, int):
        return "(JInt (%d)%%Z)" % v
    if isinstance(v, float):
        return "(JFloat %s)" % gstr(rust_f64(v))
    if isinstance(v, str):
        return "(JStr %s)" % gstr(v)
    if isinstance(v, list):
        return "(JArr [%s])" % "; ".join(gjson(x) for x in v)
    return "(JObj [%s])" % "; ".join("(%s, %s)" % (gstr(k), gjson(x)) for k, x in v.items())


# ---------------------------------------------------------------- schema-guided mutants
def resolve(root, s):
    while isinstance(s, dict) and "$ref" in s and len([k for k in s if k not in ("description", "default")]) == 1:
        s = root["$defs"][s["$ref"].split("/")[-1]]
    return s


def positions(root, s, doc, path, out):
    """(path, schema) of every value position reachable by following properties/items/anyOf/oneOf"""
    s = resolve(root, s)
    if not isinstance(s, dict):
        return
    out.append((list(path), s))
    alts = s.get("anyOf", []) + s.get("oneOf", [])
    for a in alts:
        a = resolve(root, a)
        if isinstance(a, dict) and jsonschema.Draft202012Validator({**a, "$defs": root.get("$defs", {})}).is_valid(doc):
            positions(root, a, doc, path, out)
            break
    if "$ref" in s:
        positions(root, root["$defs"][s["$ref"].split("/")[-1]], doc, path, out)
    if isinstance(doc, dict):
        for k, ps in s.get("properties", {}).items():
            if k in doc:
                positions(root, ps, doc[k], path + [k], out)
    if isinstance(doc, list) and "items" in s:
        for i, x in enumerate(doc):
            positions(root, s["items"], x, path + [i], out)


def get(doc, path):
    for p in path:
        doc = doc[p]
    return doc


def setp(doc, path, v):
    for p in path[:-1]:
        doc = doc[p]
    doc[path[-1]] = v


def delp(doc, path):
    for p in path[:-1]:
        doc = doc[p]
    del doc[path[-1]]


INT_POOL = [0, 1, 255, 2147483647, 2147483648, 4294967295, 4294967296, 9223372036854775807, 1.0, 3.0]


def mutants_of(rng, root, doc, n):
    pos = []
    positions(root, root, doc, [], pos)
    out = []
    for _ in range(n):
        if not pos:
            break
        path, s = rng.choice(pos)
        d = copy.deepcopy(doc)
        cur = get(d, path) if path else d
        op = rng.randrange(5)
        label = None
        try:
            if op == 0 and isinstance(cur, dict) and "properties" in s:
                opt = [k for k in cur if k in s["properties"] and k not in s.get("required", [])]
                if opt:
                    k = rng.choice(opt)
                    del cur[k]
                    label = "drop-optional:" + k
            elif op == 1 and isinstance(cur, dict) and "properties" in s:
                nullable = [k for k, ps in s["properties"].items() if jsonschema.Draft202012Validator({**resolve(root, ps), "$defs": root.get("$defs", {})}).is_valid(None)]
                if nullable:
                    k = rng.choice(nullable)
                    cur[k] = None
                    label = "null-optional:" + k
            elif op == 2 and path and s.get("type") == "integer":
                setp(d, path, rng.choice(INT_POOL))
                label = "boundary-integer"
            elif op == 3 and isinstance(cur, dict):
                cur["x_extra"] = rng.choice([1, "s", None, [], {}])
                label = "extra-member"
            elif op == 4 and path and ("anyOf" in s):
                alt = resolve(root, rng.choice(s["anyOf"]))
                t = alt.get("type") if isinstance(alt, dict) else None
                v = {"boolean": True, "integer": 7, "number": 2.5, "string": "s", "null": None, "array": []}.get(t if isinstance(t, str) else None, "skip")
                if v != "skip":
                    setp(d, path, v)
                    label = "other-branch:" + str(t)
        except Exception:
            label = None
        if label:
            out.append((label, d))
    return out


def main():
    ap = argparse.ArgumentParser()
    ap.add_argument("--cases", required=True)
    ap.add_argument("--shipped", required=True)
    ap.add_argument("--generated", required=True)
    ap.add_argument("--out", required=True)
    ap.add_argument("--parse-bin", default="")
    ap.add_argument("--seed", type=int, default=1)
    ap.add_argument("--mutants", type=int, default=300)
    a = ap.parse_args()
    V = jsonschema.Draft202012Validator
    shipped, generated = load(a.shipped), load(a.generated)
    vs = {k: V(s) for k, s in shipped.items()}
    vg = {k: V(s) for k, s in generated.items()}
    vstrict = {k: V(strictify(s)) for k, s in shipped.items()}
    rows = [json.loads(l) for l in open(a.cases)]
    verdicts = []
    written = []          # (kind, parsed doc) of tool-written documents, bases for the guided mutants
    for i, r in enumerate(rows):
        k = r.get("kind", "")
        if not (k.startswith("rt_") or k.startswith("mut_")) or not r.get("text"):
            verdicts.append(None)
            continue
        kind = k.split("_", 1)[1]
        docs = [r["text"]] + ([r["file"]] if k.startswith("rt_") and r.get("file") else [])
        vd = []
        for t in docs:
            d = json.loads(t)
            e = {"shipped": vs[kind].is_valid(d), "generated": vg[kind].is_valid(d)}
            if k.startswith("rt_"):
                und = []
                undeclared(shipped[kind], shipped[kind], d, [], und)
                e["undeclared"] = sorted(set(und))
                e["strict_shipped"] = vstrict[kind].is_valid(d)
                if not e["shipped"]:
                    e["errors"] = [x.message[:200] for x in list(vs[kind].iter_errors(d))[:3]]
            vd.append(e)
        verdicts.append(vd)
        if k.startswith("rt_") and vd[0]["shipped"]:
            written.append((kind, json.loads(r["text"])))
    mutants = []
    if a.parse_bin and written:
        rng = random.Random(a.seed)
        seen = set()
        tries = 0
        while len(mutants) < a.mutants and tries < a.mutants * 20:
            tries += 1
            kind, doc = rng.choice(written)
            for label, d in mutants_of(rng, shipped[kind], doc, 2):
                t = json.dumps(d, ensure_ascii=False)
                if (kind, t) in seen:
                    continue
                seen.add((kind, t))
                if not vs[kind].is_valid(d):
                    continue
                mutants.append({"kind": kind, "label": label, "text": t, "generated_valid": vg[kind].is_valid(d), "gallina": gjson(d)})
        p = subprocess.run([a.parse_bin, "parse"], input="".join(json.dumps({"kind": m["kind"], "text": m["text"]}) + "\n" for m in mutants),
                           capture_output=True, text=True)
        outs = [json.loads(l) for l in p.stdout.split("\n") if l.strip().startswith("{")]
        if len(outs) != len(mutants):
            print("parse mode returned %d answers for %d requests: %s" % (len(outs), len(mutants), p.stderr[-500:]))
            return 2
        for m, o in zip(mutants, outs):
            m["serde_ok"] = o["ok"]
            m["serde_err"] = o.get("err")
    json.dump({"verdicts": verdicts, "mutants": mutants}, open(a.out, "w"))
    return 0


if __name__ == "__main__":
    sys.exit(main())
