"""Parser from the MySQL text vespertide-query emits (sea-query 0.32.7 MysqlQueryBuilder + the builders' raw
format! strings) to the `stmt` type of coq/mysql/Model/Ast.v (as JSON-able dicts, then Gallina terms).

Only the shapes the 13 builders can emit are accepted; anything else raises Unparsed (a correspondence
failure, never skipped).  Identifiers are back-quoted; type texts and all expressions stay verbatim."""
import json, sys


class Unparsed(Exception):
    pass


REF_ACTIONS = {"CASCADE": "Cascade", "RESTRICT": "Restrict", "SET NULL": "SetNull", "SET DEFAULT": "SetDefault",
               "NO ACTION": "NoAction"}


def scan_top(s, i, stop):
    """Scan s from i at nesting level 0 (outside '..', `..`, "..", (..)); call stop(pos) at every level-0
    position; return the first pos where it returns a truthy value, together with that value, else (len(s), None)."""
    depth = 0
    n = len(s)
    while i < n:
        ch = s[i]
        if depth == 0:
            r = stop(i)
            if r:
                return i, r
        if ch == "'" or ch == '"':
            q = ch
            i += 1
            while i < n:
                if s[i] == "\\" and i + 1 < n:
                    i += 2
                    continue
                if s[i] == q:
                    if i + 1 < n and s[i + 1] == q:
                        i += 2
                        continue
                    break
                i += 1
            i += 1
            continue
        if ch == "`":
            i += 1
            while i < n:
                if s[i] == "`":
                    if i + 1 < n and s[i + 1] == "`":
                        i += 2
                        continue
                    break
                i += 1
            i += 1
            continue
        if ch == "(":
            depth += 1
        elif ch == ")":
            depth = max(0, depth - 1)
        i += 1
    return n, None


def split_top(s, sep=","):
    parts, start = [], 0
    i = 0
    while True:
        j, r = scan_top(s, i, lambda p: s[p] == sep)
        if r is None:
            parts.append(s[start:])
            return parts
        parts.append(s[start:j])
        start = i = j + 1


def ident(s, i):
    if i >= len(s) or s[i] != "`":
        raise Unparsed("identifier expected at %d in %r" % (i, s))
    i += 1
    out = []
    while i < len(s):
        if s[i] == "`":
            if i + 1 < len(s) and s[i + 1] == "`":
                out.append("`")
                i += 2
                continue
            return "".join(out), i + 1
        out.append(s[i])
        i += 1
    raise Unparsed("unterminated identifier in %r" % s)


def expect(s, i, lit):
    if not s.startswith(lit, i):
        raise Unparsed("expected %r at %d in %r" % (lit, i, s))
    return i + len(lit)


def ident_list(s, i):
    """(`a`, `b`) -> (['a','b'], next)"""
    i = expect(s, i, "(")
    cols = []
    while True:
        c, i = ident(s, i)
        cols.append(c)
        if s.startswith(", ", i):
            i += 2
            continue
        i = expect(s, i, ")")
        return cols, i


def sql_string(s, i):
    """'..' with '' and backslash escapes -> (unescaped text, next)"""
    i = expect(s, i, "'")
    out = []
    while i < len(s):
        if s[i] == "'":
            if i + 1 < len(s) and s[i + 1] == "'":
                out.append("'")
                i += 2
                continue
            return "".join(out), i + 1
        out.append(s[i])
        i += 1
    raise Unparsed("unterminated string in %r" % s)


def sql_literal_body(s, i):
    """'..' lexed like MySQL does (backslash escapes on, '' is a quote) -> (body between the outer quotes, still escaped, next)"""
    i = expect(s, i, "'")
    j = i
    while j < len(s):
        if s[j] == "\\" and j + 1 < len(s):
            j += 2
            continue
        if s[j] == "'":
            if j + 1 < len(s) and s[j + 1] == "'":
                j += 2
                continue
            return s[i:j], j + 1
        j += 1
    raise Unparsed("unterminated string in %r" % s)


def parse_coldef(s):
    """`name` type [NOT NULL] [DEFAULT e] [PRIMARY KEY] [AUTO_INCREMENT] [COMMENT '..'] (e verbatim)"""
    name, i = ident(s, 0)
    i = expect(s, i, " ")
    marks = (" NOT NULL", " DEFAULT ", " PRIMARY KEY", " AUTO_INCREMENT", " COMMENT '")

    def stop(p):
        for m in marks:
            if s.startswith(m, p):
                return m
        return None
    j, m = scan_top(s, i, stop)
    ty = s[i:j]
    if ty == "":
        raise Unparsed("empty type in %r" % s)
    rest = s[j:]
    cd = {"name": name, "type": ty, "notnull": False, "default": None, "pk": False, "auto": False, "comment": None}
    if rest.startswith(" NOT NULL"):
        cd["notnull"] = True
        rest = rest[len(" NOT NULL"):]
    # trailing COMMENT '...': appended by modify_column_comment.rs with '' escaping, or rendered by sea-query
    # (ColumnSpec::Comment, escape_string: backslash escapes); the body is kept as emitted, Model/Gen.v models both escapings
    k, mm = scan_top(rest, 0, lambda p: rest.startswith(" COMMENT '", p))
    if mm:
        txt, e = sql_literal_body(rest, k + len(" COMMENT "))
        if e != len(rest):
            raise Unparsed("text after COMMENT in %r" % s)
        cd["comment"] = txt
        rest = rest[:k]
    if rest.endswith(" AUTO_INCREMENT"):
        cd["auto"] = True
        rest = rest[:-len(" AUTO_INCREMENT")]
    if rest.endswith(" PRIMARY KEY"):
        cd["pk"] = True
        rest = rest[:-len(" PRIMARY KEY")]
    if rest.startswith(" DEFAULT "):
        cd["default"] = rest[len(" DEFAULT "):]
        rest = ""
    if rest != "":
        raise Unparsed("column definition tail %r in %r" % (rest, s))
    return cd


def parse_fk_tail(s, i):
    """FOREIGN KEY (`a`) REFERENCES `t` (`b`) [ON DELETE x] [ON UPDATE y] -> dict without name"""
    i = expect(s, i, "FOREIGN KEY ")
    cols, i = ident_list(s, i)
    i = expect(s, i, " REFERENCES ")
    rt, i = ident(s, i)
    i = expect(s, i, " ")
    rcols, i = ident_list(s, i)
    od = ou = None
    rest = s[i:]
    if rest.startswith(" ON DELETE "):
        rest = rest[len(" ON DELETE "):]
        for k in sorted(REF_ACTIONS, key=len, reverse=True):
            if rest.startswith(k):
                od = REF_ACTIONS[k]
                rest = rest[len(k):]
                break
        else:
            raise Unparsed("ON DELETE action in %r" % s)
    if rest.startswith(" ON UPDATE "):
        rest = rest[len(" ON UPDATE "):]
        for k in sorted(REF_ACTIONS, key=len, reverse=True):
            if rest.startswith(k):
                ou = REF_ACTIONS[k]
                rest = rest[len(k):]
                break
        else:
            raise Unparsed("ON UPDATE action in %r" % s)
    if rest != "":
        raise Unparsed("foreign key tail %r in %r" % (rest, s))
    return {"cols": cols, "rtable": rt, "rcols": rcols, "on_delete": od, "on_update": ou}


def constraint_name(s, i):
    """after 'CONSTRAINT ': `n` or "n" (helpers.rs extract_check_clauses uses double quotes)"""
    if s[i] == "`":
        return ident(s, i)
    if s[i] == '"':
        j = s.index('"', i + 1)
        return s[i + 1:j], j + 1
    raise Unparsed("constraint name in %r" % s)


def paren_expr(s, i):
    """(expr) to the end of s -> expr"""
    i = expect(s, i, "(")
    if not s.endswith(")"):
        raise Unparsed("CHECK expression in %r" % s)
    return s[i:-1]


def parse_create_table(s):
    i = expect(s, 0, "CREATE TABLE ")
    t, i = ident(s, i)
    i = expect(s, i, " ( ")
    if not s.endswith(" )"):
        raise Unparsed("CREATE TABLE tail in %r" % s)
    body = s[i:-2]
    items = split_top(body)
    items = [items[0]] + [x[1:] if x.startswith(" ") else x for x in items[1:]]
    cols, keys, fks, checks = [], [], [], []
    for it in items:
        if it.startswith("`"):
            cols.append(parse_coldef(it))
        elif it.startswith("PRIMARY KEY "):
            c, e = ident_list(it, len("PRIMARY KEY "))
            if e != len(it):
                raise Unparsed("PRIMARY KEY tail in %r" % it)
            keys.append({"k": "KPrimary", "cols": c})
        elif it.startswith("UNIQUE KEY "):
            n, e = ident(it, len("UNIQUE KEY "))
            e = expect(it, e, " ")
            c, e = ident_list(it, e)
            if e != len(it):
                raise Unparsed("UNIQUE KEY tail in %r" % it)
            keys.append({"k": "KUnique", "name": n, "cols": c})
        elif it.startswith("CONSTRAINT "):
            n, e = constraint_name(it, len("CONSTRAINT "))
            e = expect(it, e, " ")
            if it.startswith("FOREIGN KEY ", e):
                fk = parse_fk_tail(it, e)
                fk["name"] = n
                fks.append(fk)
            elif it.startswith("CHECK ", e):
                checks.append([n, paren_expr(it, e + len("CHECK "))])
            else:
                raise Unparsed("constraint item %r" % it)
        else:
            raise Unparsed("CREATE TABLE item %r" % it)
    return {"k": "SCreateTable", "t": t, "cols": cols, "keys": keys, "fks": fks, "checks": checks}


def parse_alter(s):
    i = expect(s, 0, "ALTER TABLE ")
    t, i = ident(s, i)
    i = expect(s, i, " ")
    op = s[i:]
    if op.startswith("ADD COLUMN "):
        return {"k": "SAddColumn", "t": t, "c": parse_coldef(op[len("ADD COLUMN "):])}
    if op.startswith("MODIFY COLUMN "):
        return {"k": "SModifyColumn", "t": t, "c": parse_coldef(op[len("MODIFY COLUMN "):])}
    if op.startswith("DROP COLUMN "):
        c, e = ident(op, len("DROP COLUMN "))
        if e != len(op):
            raise Unparsed(s)
        return {"k": "SDropColumn", "t": t, "c": c}
    if op.startswith("RENAME COLUMN "):
        a, e = ident(op, len("RENAME COLUMN "))
        e = expect(op, e, " TO ")
        b, e = ident(op, e)
        if e != len(op):
            raise Unparsed(s)
        return {"k": "SRenameColumn", "t": t, "a": a, "b": b}
    if op.startswith("ADD CONSTRAINT "):
        n, e = ident(op, len("ADD CONSTRAINT "))
        e = expect(op, e, " ")
        if op.startswith("FOREIGN KEY ", e):
            fk = parse_fk_tail(op, e)
            fk["name"] = n
            return {"k": "SAddFk", "t": t, "f": fk}
        if op.startswith("CHECK ", e):
            return {"k": "SAddCheck", "t": t, "name": n, "expr": paren_expr(op, e + len("CHECK "))}
        if op.startswith("UNIQUE ", e):
            c, e2 = ident_list(op, e + len("UNIQUE "))
            if e2 != len(op):
                raise Unparsed(s)
            return {"k": "SAddUnique", "t": t, "name": n, "cols": c}
        raise Unparsed(s)
    if op.startswith("DROP FOREIGN KEY "):
        n, e = ident(op, len("DROP FOREIGN KEY "))
        if e != len(op):
            raise Unparsed(s)
        return {"k": "SDropFk", "t": t, "name": n}
    if op.startswith("DROP CHECK "):
        n, e = ident(op, len("DROP CHECK "))
        if e != len(op):
            raise Unparsed(s)
        return {"k": "SDropCheck", "t": t, "name": n}
    if op.startswith("DROP INDEX "):
        n, e = ident(op, len("DROP INDEX "))
        if e != len(op):
            raise Unparsed(s)
        return {"k": "SAlterDropIndex", "t": t, "name": n}
    if op.startswith("ADD PRIMARY KEY "):
        c, e = ident_list(op, len("ADD PRIMARY KEY "))
        if e != len(op):
            raise Unparsed(s)
        return {"k": "SAddPk", "t": t, "cols": c}
    if op == "DROP PRIMARY KEY":
        return {"k": "SDropPk", "t": t}
    raise Unparsed(s)


def parse_update(s):
    i = expect(s, 0, "UPDATE ")
    t, i = ident(s, i)
    i = expect(s, i, " SET ")
    c, i = ident(s, i)
    i = expect(s, i, " = ")
    rest = s[i:]
    j, m = scan_top(rest, 0, lambda p: rest.startswith(" WHERE `", p))
    expr = rest[:j]
    w = None
    if m:
        wr = rest[j + len(" WHERE "):]
        wc, e = ident(wr, 0)
        if wr[e:] == " IS NULL":
            w = {"k": "WIsNull", "col": wc}
        elif wr.startswith(" = ", e):
            w = {"k": "WEq", "col": wc, "value": wr[e + 3:]}
        else:
            raise Unparsed(s)
    return {"k": "SUpdate", "t": t, "col": c, "expr": expr, "w": w}


def parse_stmt(s, raw=False):
    """raw=True: the statement comes from a RawSql action and is opaque."""
    if raw:
        return {"k": "SRaw", "text": s}
    if s.startswith("CREATE TABLE "):
        return parse_create_table(s)
    if s.startswith("CREATE UNIQUE INDEX ") or s.startswith("CREATE INDEX "):
        uniq = s.startswith("CREATE UNIQUE ")
        i = len("CREATE UNIQUE INDEX ") if uniq else len("CREATE INDEX ")
        n, i = ident(s, i)
        i = expect(s, i, " ON ")
        t, i = ident(s, i)
        i = expect(s, i, " ")
        c, i = ident_list(s, i)
        if i != len(s):
            raise Unparsed(s)
        return {"k": "SCreateIndex", "unique": uniq, "name": n, "t": t, "cols": c}
    if s.startswith("DROP INDEX "):
        n, i = ident(s, len("DROP INDEX "))
        i = expect(s, i, " ON ")
        t, i = ident(s, i)
        if i != len(s):
            raise Unparsed(s)
        return {"k": "SDropIndexOn", "name": n, "t": t}
    if s.startswith("DROP TABLE "):
        t, i = ident(s, len("DROP TABLE "))
        if i != len(s):
            raise Unparsed(s)
        return {"k": "SDropTable", "t": t}
    if s.startswith("RENAME TABLE "):
        a, i = ident(s, len("RENAME TABLE "))
        i = expect(s, i, " TO ")
        b, i = ident(s, i)
        if i != len(s):
            raise Unparsed(s)
        return {"k": "SRenameTable", "a": a, "b": b}
    if s.startswith("ALTER TABLE "):
        return parse_alter(s)
    if s.startswith("UPDATE "):
        return parse_update(s)
    raise Unparsed(s)


# ------------------------------------------------------------------------------------ Gallina printing
def gs(x):
    return '"' + x.replace('"', '""') + '"'


def gopt(x, f=gs):
    return "None" if x is None else "(Some %s)" % f(x)


def glist(l, f=gs):
    return "[" + "; ".join(f(x) for x in l) + "]"


def gbool(b):
    return "true" if b else "false"


def g_coldef(c):
    return "(mkColDef %s %s %s %s %s %s %s)" % (gs(c["name"]), gs(c["type"]), gbool(c["notnull"]), gopt(c["default"]),
                                                gbool(c["pk"]), gbool(c["auto"]), gopt(c["comment"]))


def g_fk(f):
    return "(mkFk %s %s %s %s %s %s)" % (gs(f["name"]), glist(f["cols"]), gs(f["rtable"]), glist(f["rcols"]),
                                         gopt(f["on_delete"], str), gopt(f["on_update"], str))


def g_key(k):
    if k["k"] == "KPrimary":
        return "(KPrimary %s)" % glist(k["cols"])
    return "(KUnique %s %s)" % (gs(k["name"]), glist(k["cols"]))


def g_where(w):
    if w["k"] == "WIsNull":
        return "(WIsNull %s)" % gs(w["col"])
    return "(WEq %s %s)" % (gs(w["col"]), gs(w["value"]))


def to_gallina(d):
    k = d["k"]
    if k == "SCreateTable":
        return "(SCreateTable %s %s %s %s %s)" % (gs(d["t"]), glist(d["cols"], g_coldef), glist(d["keys"], g_key), glist(d["fks"], g_fk),
                                                  glist(d["checks"], lambda p: "(%s, %s)" % (gs(p[0]), gs(p[1]))))
    if k == "SDropTable":
        return "(SDropTable %s)" % gs(d["t"])
    if k == "SRenameTable":
        return "(SRenameTable %s %s)" % (gs(d["a"]), gs(d["b"]))
    if k == "SCreateIndex":
        return "(SCreateIndex %s %s %s %s)" % (gbool(d["unique"]), gs(d["name"]), gs(d["t"]), glist(d["cols"]))
    if k == "SDropIndexOn":
        return "(SDropIndexOn %s %s)" % (gs(d["name"]), gs(d["t"]))
    if k == "SAlterDropIndex":
        return "(SAlterDropIndex %s %s)" % (gs(d["t"]), gs(d["name"]))
    if k in ("SAddColumn", "SModifyColumn"):
        return "(%s %s %s)" % (k, gs(d["t"]), g_coldef(d["c"]))
    if k == "SDropColumn":
        return "(SDropColumn %s %s)" % (gs(d["t"]), gs(d["c"]))
    if k == "SRenameColumn":
        return "(SRenameColumn %s %s %s)" % (gs(d["t"]), gs(d["a"]), gs(d["b"]))
    if k == "SAddFk":
        return "(SAddFk %s %s)" % (gs(d["t"]), g_fk(d["f"]))
    if k in ("SDropFk", "SDropCheck"):
        return "(%s %s %s)" % (k, gs(d["t"]), gs(d["name"]))
    if k == "SAddCheck":
        return "(SAddCheck %s %s %s)" % (gs(d["t"]), gs(d["name"]), gs(d["expr"]))
    if k == "SAddUnique":
        return "(SAddUnique %s %s %s)" % (gs(d["t"]), gs(d["name"]), glist(d["cols"]))
    if k == "SAddPk":
        return "(SAddPk %s %s)" % (gs(d["t"]), glist(d["cols"]))
    if k == "SDropPk":
        return "(SDropPk %s)" % gs(d["t"])
    if k == "SUpdate":
        return "(SUpdate %s %s %s %s)" % (gs(d["t"]), gs(d["col"]), gs(d["expr"]), gopt(d["w"], g_where))
    if k == "SRaw":
        return "(SRaw %s)" % gs(d["text"])
    raise Unparsed("no Gallina form for %r" % k)


if __name__ == "__main__":
    # self-test: python3 tools/mysql_sqlparse.py < file-with-one-statement-per-line
    for line in sys.stdin:
        line = line.rstrip("\n")
        if line:
            print(to_gallina(parse_stmt(line)))
