#!/usr/bin/env python3
"""Regenerate the three generated tables of DESIGN.md from the machinery's own files:
   §0 status table (evidence/*.json), §7b findings (known_findings.json), §11 seeded changes (seeded/*/meta.json)."""
import json, os, re

ROOT = os.path.dirname(os.path.dirname(os.path.abspath(__file__)))
LAYER = {'C01': 'm1', 'C06': 'm1', 'C07': 'm1', 'C08': 'm1', 'C14': 'm1 (+sqlite/pg/mysql parts)', 'C19': 'm1 (+sqlite/pg/mysql parts)',
         'C02': 'sqlite', 'C05': 'sqlite', 'C03': 'pg', 'C04': 'mysql', 'C09': 'mig', 'C10': 'mig', 'C11': 'mig', 'C12': 'serde (+cli part)',
         'C15': 'serde', 'C13': 'cli', 'C20': 'cli', 'C16': 'exp (+m1 planner pins)', 'C17': 'exp', 'C18': 'exp (+cli part)'}


def cell(s, n):
    s = (s or "").replace("|", "/").replace("\n", " ")
    return s[:n] + ("…" if len(s) > n else "")


def main():
    k = json.load(open(os.path.join(ROOT, "known_findings.json")))["findings"]
    p = os.path.join(ROOT, "DESIGN.md")
    s = open(p).read()
    # ---- status
    rows = []
    for i in range(1, 21):
        pid = "C%02d" % i
        ef = os.path.join(ROOT, "evidence", pid + ".json")
        if not os.path.exists(ef):
            continue
        e = json.load(open(ef)); c = e["coverage"]
        corr = c.get("correspondences") or {}
        cs = ", ".join("%s %s/%s" % (n, (v.get("mismatches") if isinstance(v, dict) else v), (v.get("cases") if isinstance(v, dict) else "?"))
                       for n, v in list(corr.items())[:4]) if isinstance(corr, dict) else str(corr)[:80]
        op = sum(1 for f in k if f["property"] == pid and f.get("status") == "open")
        fx = sum(1 for f in k if f["property"] == pid and f.get("status") == "fixed")
        rows.append("| %s | %s | %d/%d | %d | %d | %s | %d open, %d fixed |" % (pid, LAYER[pid], c.get("discharged", 0), c.get("obligations", 0),
                    c.get("evaluations", 0), c.get("distinct_nontrivial", 0), cell(cs, 170), op, fx))
    tbl = ("**All 20 properties have a registered check** (quick tier of all twenty ≈ 5–7 min on 16 cores in the `vp check` sandbox). Snapshot of\n"
           "the last run on the repaired tree (numbers are measured by the checks and rewritten into `evidence/` on every run; regenerate this\n"
           "table with `tools/design_tables.py`):\n\n"
           "| property | layer | pinned theorems discharged | cases evaluated | distinct non-trivial | correspondences (mismatches/cases) | findings |\n"
           "|---|---|---|---|---|---|---|\n%s\n\n" % "\n".join(rows))
    a = s.index("**All 20 properties have a registered check**")
    b = s.index("---------------------------------------------------------------------------------------------------\n\n## 1. The system")
    s = s[:a] + tbl + s[b:]
    # ---- findings
    rows = ["| %s | `%s` | %s | %s |" % (f["property"], f["id"], f.get("status") + ((" " + f.get("commit", "")) if f.get("status") == "fixed" else ""), cell(f["what"], 330))
            for f in sorted(k, key=lambda f: (f["property"], f["id"]))]
    tbl = ("### 7b. Findings as recorded by the built machinery (generated from `known_findings.json`; %d entries, %d open, %d fixed)\n\n"
           "Every entry has a decidable classifier (a Gallina boolean evaluated in Coq, or an exact-symptom matcher where the finding is an engine/oracle\n"
           "observation) and a witness under `corpus/`; the check of its property replays the witness on the implementation on every run. A fixed entry\n"
           "suppresses nothing.\n\n| property | id | status | what fails |\n|---|---|---|---|\n%s\n\n"
           % (len(rows), sum(1 for f in k if f.get("status") == "open"), sum(1 for f in k if f.get("status") == "fixed"), "\n".join(rows)))
    a = s.index("### 7b."); b = s.index("### 7c.")
    s = s[:a] + tbl + s[b:]
    # ---- seeded
    rows = []
    sd = os.path.join(ROOT, "seeded")
    for d in sorted(os.listdir(sd)):
        m = os.path.join(sd, d, "meta.json")
        if not os.path.exists(m):
            continue
        j = json.load(open(m))
        out = (j.get("confirmed") or {}).get("outcome", "(not yet run)")
        rows.append("| `%s` | %s | %s | %s |" % (d, cell(j.get("summary"), 260), cell(j.get("needs"), 200), cell(out, 380)))
    caught = sum(1 for r in rows if "CAUGHT" in r)
    tbl = ("## 11. Seeded changes (independent sub-agents) and which checks catch them\n\n"
           "Each change was written by a fresh sub-agent that saw only the property text and a scratch worktree, compiles, passes the\n"
           "1544 existing tests, and comes with a demonstration that fails with it and passes without it (`seeded/<id>/`: patch.diff, demo,\n"
           "meta.json). Checks are run against a change with `tools/mutrun.py <patch> Cnn …` (scratch worktree of /repo + scratch copy of\n"
           "/verif re-pointed at it; the live /repo is never touched while parallel builders use it). \"no-failing-input-found\" = the\n"
           "correspondence between model and code broke and the oracle found no input within the quick tier. %d changes, %d caught now; every\n"
           "miss led to a strengthening that is described in the outcome column.\n\n"
           "| seeded change | what it does | needs | outcome |\n|---|---|---|---|\n%s\n\n" % (len(rows), caught, "\n".join(rows)))
    a = s.index("## 11. Seeded changes"); b = s.index("## Change log")
    s = s[:a] + tbl + s[b:]
    open(p, "w").write(s)
    print("status rows %d, findings %d, seeded %d (caught %d)" % (20, len(k), len(rows), caught))


if __name__ == "__main__":
    main()
