#!/usr/bin/env python3
"""Run checks against a seeded change WITHOUT touching /repo or the live /verif:
   tools/mutrun.py <patch.diff> C01 C06 …  [--tier quick] [--keep]
A scratch worktree of /repo (HEAD + working-tree state) gets the patch; a copy of /verif (without caches) is
re-pointed at it by rewriting the literal /repo paths; the named checks run there; everything is removed
afterwards. Exit 0 if at least one named check reported a VIOLATION (the change is caught), 1 otherwise."""
import os, re, shutil, subprocess, sys, tempfile, json

def sh(cmd, cwd=None, timeout=7200):
    p = subprocess.run(cmd, cwd=cwd, shell=isinstance(cmd, str), capture_output=True, text=True, timeout=timeout, errors="replace")
    return p.returncode, "\n".join(l for l in (p.stdout + p.stderr).splitlines() if not l.startswith("WARNING conda"))

def main():
    a = sys.argv[1:]
    keep = "--keep" in a
    tier = "quick"
    if "--tier" in a:
        tier = a[a.index("--tier") + 1]
    a = [x for i, x in enumerate(a) if x not in ("--keep", "--tier") and (i == 0 or a[i - 1] != "--tier")]
    patch, props = os.path.abspath(a[0]), a[1:]
    root = tempfile.mkdtemp(prefix="mt_", dir="/tmp")
    repo, verif = os.path.join(root, "repo"), os.path.join(root, "verif")
    try:
        rc, out = sh(["git", "-C", "/repo", "worktree", "add", "--detach", repo, "HEAD"])
        if rc != 0:
            print(out); return 2
        rc, out = sh(["git", "-C", repo, "apply", patch])
        if rc != 0:
            print("patch does not apply:\n" + out); return 2
        shutil.copytree("/verif", verif, ignore=shutil.ignore_patterns(".cache", ".git", "replays", "target", "*.vo", "*.vok", "*.vos", "*.glob", "*.aux", "__pycache__", "seeded"))
        for dp, dn, fn in os.walk(verif):
            for f in fn:
                if f.endswith((".toml", ".py", ".rs", ".json", ".md", ".sh")) or f == "vf":
                    p = os.path.join(dp, f)
                    try:
                        s = open(p).read()
                    except Exception:
                        continue
                    s2 = re.sub(r'(?<![\w./])/repo(?=[/"\' )\n]|$)', repo, s)
                    s2 = s2.replace("/verif/", verif + "/").replace('"/verif"', '"%s"' % verif)
                    if s2 != s:
                        open(p, "w").write(s2)
        env = dict(os.environ)
        caught = False
        for prop in props:
            rc, out = 0, ""
            p = subprocess.run(["./vf", "check", prop, "--tier", tier], cwd=verif, capture_output=True, text=True, env=env, timeout=7200, errors="replace")
            out = p.stdout + p.stderr
            vio = [l for l in out.splitlines() if l.startswith("VIOLATION")]
            print("== %s: exit %d, %d VIOLATION line(s)" % (prop, p.returncode, len(vio)))
            for l in vio[:4]:
                print("   " + l)
                m = re.search(r"replay=(\S+)", l)
                if m and os.path.exists(os.path.join(verif, m.group(1))):
                    try:
                        r = json.load(open(os.path.join(verif, m.group(1))))
                        print("     kind=%s %s" % (r.get("kind"), json.dumps(r.get("oracle") or r.get("broken") or "")[:200]))
                    except Exception:
                        pass
            if not vio:
                print("\n".join(out.splitlines()[-6:]))
            caught = caught or bool(vio)
        return 0 if caught else 1
    finally:
        if not keep:
            sh(["git", "-C", "/repo", "worktree", "remove", "--force", repo])
            shutil.rmtree(root, ignore_errors=True)
        else:
            print("kept:", root)

if __name__ == "__main__":
    sys.exit(main())
