"""Parser from the SQLite SQL text vespertide emits (sea-query 0.32 SqliteQueryBuilder + the raw format!s of
vespertide-query) to the abstract statements of coq/sqlite/Model/Ast.v, and back.

Only the statement shapes the 13 builders can emit on SQLite are accepted; anything else raises Unparsed (an
unparsed statement is a correspondence failure, never skipped).  User-supplied fragments (default expressions,
CHECK expressions, fill values, raw SQL) and rendered column types are kept verbatim.  `render(parse(s)) == s`
is asserted by the callers for every statement, so the parser is lossless on everything it accepts.

JSON form of a statement (dict with key "k"):
  create_table {name, cols:[{name,type,notnull,default|None,pk,autoinc}], pks:[[col..]..], fks:[{cols,table,refcols,on_delete,on_update}], checks:[[name,expr]..]}
  drop_table {name} | rename_table {from,to} | create_index {unique,name,table,cols} | drop_index {name}
  add_column {table,col} | drop_column {table,col} | rename_column {table,from,to}
  insert_select {dst,cols,src,exprs:[["col",c] | ["expr",text,alias]]}
  update {table,col,value,where: None | ["is_null",c] | ["eq",c,literal_text]}
  raw {text}
"""
import re

IDENT = r'"((?:[^"]|"")*)"'
ACTIONS = {"CASCADE": "Cascade", "RESTRICT": "Restrict", "SET NULL": "SetNull", "SET DEFAULT": "SetDefault", "NO ACTION": "NoAction"}
ACTIONS_INV = {v: k for k, v in ACTIONS.items()}


class Unparsed(Exception):
    pass


def split_top(s, sep=", "):
    """split on `sep` outside single/double quotes and parentheses"""
    out, cur, depth, i, q = [], [], 0, 0, None
    while i < len(s):
        ch = s[i]
        if q:
            cur.append(ch)
            if ch == q:
                if i + 1 < len(s) and s[i + 1] == q:
                    cur.append(q)
                    i += 1
                else:
                    q = None
        elif ch in "'\"":
            q = ch
            cur.append(ch)
        elif ch == "(":
            depth += 1
            cur.append(ch)
        elif ch == ")":
            depth -= 1
            cur.append(ch)
        elif depth == 0 and s.startswith(sep, i):
            out.append("".join(cur))
            cur = []
            i += len(sep)
            continue
        else:
            cur.append(ch)
        i += 1
    out.append("".join(cur))
    return out


def idents(s):
    """'"a", "b"' -> [a, b]"""
    if s == "":
        return []
    parts = split_top(s)
    out = []
    for p in parts:
        m = re.fullmatch(IDENT, p)
        if not m:
            raise Unparsed("identifier list: %r" % s)
        out.append(m.group(1))
    return out


def parse_coldef(seg):
    m = re.match(IDENT + r"(?: (.*))?$", seg, flags=re.S)
    if not m:
        raise Unparsed("column definition: %r" % seg)
    name, rest = m.group(1), m.group(2) or ""
    autoinc = pk = False
    if rest == "AUTOINCREMENT" or rest.endswith(" AUTOINCREMENT"):
        autoinc = True
        rest = rest[: -len("AUTOINCREMENT")].rstrip(" ") if rest == "AUTOINCREMENT" else rest[: -len(" AUTOINCREMENT")]
    if rest == "PRIMARY KEY" or rest.endswith(" PRIMARY KEY"):
        pk = True
        rest = "" if rest == "PRIMARY KEY" else rest[: -len(" PRIMARY KEY")]
    default = None
    i = rest.find(" DEFAULT ")
    if i >= 0:
        default = rest[i + len(" DEFAULT "):]
        rest = rest[:i]
    elif rest.startswith("DEFAULT "):
        default = rest[len("DEFAULT "):]
        rest = ""
    notnull = False
    if rest == "NOT NULL" or rest.endswith(" NOT NULL"):
        notnull = True
        rest = "" if rest == "NOT NULL" else rest[: -len(" NOT NULL")]
    return {"name": name, "type": rest, "notnull": notnull, "default": default, "pk": pk, "autoinc": autoinc}


def render_coldef(c):
    s = '"%s"' % c["name"]
    if c["type"] != "":
        s += " " + c["type"]
    if c["notnull"]:
        s += " NOT NULL"
    if c["default"] is not None:
        s += " DEFAULT " + c["default"]
    if c["pk"]:
        s += " PRIMARY KEY"
    if c["autoinc"]:
        s += " AUTOINCREMENT"
    return s


FK_RE = re.compile(r'FOREIGN KEY \((.*?)\) REFERENCES ' + IDENT + r' \((.*?)\)(?: ON DELETE (CASCADE|RESTRICT|SET NULL|SET DEFAULT|NO ACTION))?(?: ON UPDATE (CASCADE|RESTRICT|SET NULL|SET DEFAULT|NO ACTION))?$')
CHECK_RE = re.compile(r'CONSTRAINT ' + IDENT + r' CHECK \((.*)\)$', flags=re.S)


def parse_create_table(s):
    m = re.match(r'CREATE TABLE ' + IDENT + r' \( (.*)\)$', s, flags=re.S)
    if not m:
        raise Unparsed(s)
    name, body = m.group(1), m.group(2)
    st = {"k": "create_table", "name": name, "cols": [], "pks": [], "fks": [], "checks": [], "spliced": False}
    if body.endswith(" "):
        body = body[:-1]
        segs = split_top(body) if body != "" else []
    else:
        # CHECK clauses were spliced in front of the final parenthesis: "<defs> , CONSTRAINT … CHECK (…), …"
        st["spliced"] = True
        segs = split_top(body)
        k = next((i for i, x in enumerate(segs) if x.startswith('CONSTRAINT "') and CHECK_RE.match(x)), None)
        if k is None:
            raise Unparsed(s)
        for x in segs[k:]:
            mm = CHECK_RE.match(x)
            if not mm:
                raise Unparsed(s)
            st["checks"].append([mm.group(1), mm.group(2)])
        segs = segs[:k]
        if segs:
            if not segs[-1].endswith(" "):
                raise Unparsed(s)
            segs[-1] = segs[-1][:-1]
            if segs == [""]:
                segs = []
        # an empty definition list renders as "(  , CONSTRAINT …)"; handled by the round trip check
    for seg in segs:
        if seg.startswith("PRIMARY KEY ("):
            mm = re.fullmatch(r"PRIMARY KEY \((.*)\)", seg)
            st["pks"].append(idents(mm.group(1)))
        elif seg.startswith("FOREIGN KEY ("):
            mm = FK_RE.match(seg)
            if not mm:
                raise Unparsed(seg)
            st["fks"].append({"cols": idents(mm.group(1)), "table": mm.group(2), "refcols": idents(mm.group(3)),
                              "on_delete": ACTIONS.get(mm.group(4)), "on_update": ACTIONS.get(mm.group(5))})
        else:
            st["cols"].append(parse_coldef(seg))
    return st


def render(st):
    k = st["k"]
    q = lambda l: ", ".join('"%s"' % c for c in l)
    if k == "create_table":
        segs = [render_coldef(c) for c in st["cols"]]
        segs += ["PRIMARY KEY (%s)" % q(p) for p in st["pks"]]
        for f in st["fks"]:
            x = 'FOREIGN KEY (%s) REFERENCES "%s" (%s)' % (q(f["cols"]), f["table"], q(f["refcols"]))
            if f["on_delete"]:
                x += " ON DELETE " + ACTIONS_INV[f["on_delete"]]
            if f["on_update"]:
                x += " ON UPDATE " + ACTIONS_INV[f["on_update"]]
            segs.append(x)
        base = 'CREATE TABLE "%s" ( %s )' % (st["name"], ", ".join(segs))
        if st["checks"]:
            chk = ", ".join('CONSTRAINT "%s" CHECK (%s)' % (n, e) for n, e in st["checks"])
            base = base[:-1] + ", " + chk + ")"
        return base
    if k == "drop_table":
        return 'DROP TABLE "%s"' % st["name"]
    if k == "rename_table":
        return 'ALTER TABLE "%s" RENAME TO "%s"' % (st["from"], st["to"])
    if k == "create_index":
        return 'CREATE %sINDEX "%s" ON "%s" (%s)' % ("UNIQUE " if st["unique"] else "", st["name"], st["table"], q(st["cols"]))
    if k == "drop_index":
        return 'DROP INDEX "%s"' % st["name"]
    if k == "add_column":
        return 'ALTER TABLE "%s" ADD COLUMN %s' % (st["table"], render_coldef(st["col"]))
    if k == "drop_column":
        return 'ALTER TABLE "%s" DROP COLUMN "%s"' % (st["table"], st["col"])
    if k == "rename_column":
        return 'ALTER TABLE "%s" RENAME COLUMN "%s" TO "%s"' % (st["table"], st["from"], st["to"])
    if k == "insert_select":
        ex = ", ".join('"%s"' % e[1] if e[0] == "col" else '%s AS "%s"' % (e[1], e[2]) for e in st["exprs"])
        return 'INSERT INTO "%s" (%s) SELECT %s FROM "%s"' % (st["dst"], q(st["cols"]), ex, st["src"])
    if k == "update":
        s = 'UPDATE "%s" SET "%s" = %s' % (st["table"], st["col"], st["value"])
        w = st["where"]
        if w and w[0] == "is_null":
            s += ' WHERE "%s" IS NULL' % w[1]
        elif w and w[0] == "eq":
            s += ' WHERE "%s" = %s' % (w[1], w[2])
        return s
    if k == "raw":
        return st["text"]
    raise Unparsed(str(st))


def parse(s):
    if s.startswith("CREATE TABLE "):
        return parse_create_table(s)
    m = re.fullmatch(r"DROP TABLE " + IDENT, s)
    if m:
        return {"k": "drop_table", "name": m.group(1)}
    m = re.fullmatch(r"ALTER TABLE " + IDENT + r" RENAME TO " + IDENT, s)
    if m:
        return {"k": "rename_table", "from": m.group(1), "to": m.group(2)}
    m = re.fullmatch(r"CREATE (UNIQUE )?INDEX " + IDENT + r" ON " + IDENT + r" \((.*)\)", s)
    if m:
        return {"k": "create_index", "unique": bool(m.group(1)), "name": m.group(2), "table": m.group(3), "cols": idents(m.group(4))}
    m = re.fullmatch(r"DROP INDEX " + IDENT, s)
    if m:
        return {"k": "drop_index", "name": m.group(1)}
    m = re.fullmatch(r"ALTER TABLE " + IDENT + r" ADD COLUMN (.*)", s, flags=re.S)
    if m:
        return {"k": "add_column", "table": m.group(1), "col": parse_coldef(m.group(2))}
    m = re.fullmatch(r"ALTER TABLE " + IDENT + r" DROP COLUMN " + IDENT, s)
    if m:
        return {"k": "drop_column", "table": m.group(1), "col": m.group(2)}
    m = re.fullmatch(r"ALTER TABLE " + IDENT + r" RENAME COLUMN " + IDENT + " TO " + IDENT, s)
    if m:
        return {"k": "rename_column", "table": m.group(1), "from": m.group(2), "to": m.group(3)}
    m = re.fullmatch(r"INSERT INTO " + IDENT + r" \((.*?)\) SELECT (.*) FROM " + IDENT, s, flags=re.S)
    if m:
        exprs = []
        for e in (split_top(m.group(3)) if m.group(3) != "" else []):
            mm = re.fullmatch(IDENT, e)
            if mm:
                exprs.append(["col", mm.group(1)])
                continue
            mm = re.fullmatch(r"(.*) AS " + IDENT, e, flags=re.S)
            if not mm:
                raise Unparsed(s)
            exprs.append(["expr", mm.group(1), mm.group(2)])
        return {"k": "insert_select", "dst": m.group(1), "cols": idents(m.group(2)), "src": m.group(4), "exprs": exprs}
    m = re.fullmatch(r"UPDATE " + IDENT + r" SET " + IDENT + r" = (.*) WHERE " + IDENT + r" IS NULL", s, flags=re.S)
    if m:
        return {"k": "update", "table": m.group(1), "col": m.group(2), "value": m.group(3), "where": ["is_null", m.group(4)]}
    m = re.fullmatch(r"UPDATE " + IDENT + r" SET " + IDENT + r" = ('(?:[^']|'')*') WHERE " + IDENT + r" = ('(?:[^']|'')*')", s, flags=re.S)
    if m:
        return {"k": "update", "table": m.group(1), "col": m.group(2), "value": m.group(3), "where": ["eq", m.group(4), m.group(5)]}
    m = re.fullmatch(r"UPDATE " + IDENT + r" SET " + IDENT + r" = (.*)", s, flags=re.S)
    if m:
        return {"k": "update", "table": m.group(1), "col": m.group(2), "value": m.group(3), "where": None}
    raise Unparsed(s)


def parse_action_statement(s, action_kind):
    """RawSql actions are opaque; every other action's statements must parse and round-trip."""
    if action_kind == "RawSql":
        return {"k": "raw", "text": s}
    st = parse(s)
    if render(st) != s:
        raise Unparsed("round trip differs: %r -> %r" % (s, render(st)))
    return st


# ---------------------------------------------------------------- Gallina printing
def gstr(s):
    return '"' + s.replace('"', '""') + '"'


def glist(l, f=gstr):
    return "[" + "; ".join(f(x) for x in l) + "]"


def gopt(x, f=gstr):
    return "None" if x is None else "(Some %s)" % f(x)


def gbool(b):
    return "true" if b else "false"


def gcol(c):
    return "(mkSCol %s %s %s %s %s %s)" % (gstr(c["name"]), gstr(c["type"]), gbool(c["notnull"]), gopt(c["default"]), gbool(c["pk"]), gbool(c["autoinc"]))


def gallina(st):
    k = st["k"]
    if k == "create_table":
        fks = glist(st["fks"], lambda f: "(mkSFk %s %s %s %s %s)" % (glist(f["cols"]), gstr(f["table"]), glist(f["refcols"]),
                                                                    gopt(f["on_delete"], str), gopt(f["on_update"], str)))
        return "(SCreateTable %s %s %s %s %s)" % (gstr(st["name"]), glist(st["cols"], gcol), glist(st["pks"], glist), fks,
                                                 glist(st["checks"], lambda c: "(%s, %s)" % (gstr(c[0]), gstr(c[1]))))
    if k == "drop_table":
        return "(SDropTable %s)" % gstr(st["name"])
    if k == "rename_table":
        return "(SRenameTable %s %s)" % (gstr(st["from"]), gstr(st["to"]))
    if k == "create_index":
        return "(SCreateIndex %s %s %s %s)" % (gbool(st["unique"]), gstr(st["name"]), gstr(st["table"]), glist(st["cols"]))
    if k == "drop_index":
        return "(SDropIndex %s)" % gstr(st["name"])
    if k == "add_column":
        return "(SAddColumn %s %s)" % (gstr(st["table"]), gcol(st["col"]))
    if k == "drop_column":
        return "(SDropColumn %s %s)" % (gstr(st["table"]), gstr(st["col"]))
    if k == "rename_column":
        return "(SRenameColumn %s %s %s)" % (gstr(st["table"]), gstr(st["from"]), gstr(st["to"]))
    if k == "insert_select":
        ex = glist(st["exprs"], lambda e: "(SelCol %s)" % gstr(e[1]) if e[0] == "col" else "(SelExpr %s %s)" % (gstr(e[1]), gstr(e[2])))
        return "(SInsertSelect %s %s %s %s)" % (gstr(st["dst"]), glist(st["cols"]), gstr(st["src"]), ex)
    if k == "update":
        w = st["where"]
        ws = "WNone" if not w else ("(WIsNull %s)" % gstr(w[1]) if w[0] == "is_null" else "(WEqLit %s %s)" % (gstr(w[1]), gstr(w[2])))
        return "(SUpdate %s %s %s %s)" % (gstr(st["table"]), gstr(st["col"]), gstr(st["value"]), ws)
    if k == "raw":
        return "(SRaw %s)" % gstr(st["text"])
    raise Unparsed(str(st))


if __name__ == "__main__":
    import sys, json
    for line in sys.stdin:
        line = line.rstrip("\n")
        if line:
            st = parse(line)
            assert render(st) == line, (line, render(st))
            print(json.dumps(st))
            print(gallina(st))
