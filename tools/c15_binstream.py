#!/usr/local/bin/python3-vt
"""O-C15 on the real binary (run with python3-vt for `jsonschema`):

  c15_binstream.py --bin <vespertide> --hserde <hserde> --schemas /repo/schemas --work DIR --out result.json

Every file the tool itself writes is checked: `vespertide init` (vespertide.json), `vespertide new <name>
[--format json|yaml|yml]` under modelFormat json/yaml/yml (3 x (no override + 3 overrides) = 12 projects, the
9 override combinations included), and `vespertide revision` under migrationFormat json/yaml/yml.
A written file must (a) carry the extension of the resolved format, (b) parse in the format its extension
says (JSON by python, YAML by the tool's own serde_yaml through `hserde parse`), (c) validate against the
shipped schema its `$schema` names (config: config.schema.json), (d) load: the next `vespertide diff`
exits 0 (for `new`: after an `id` primary-key column has been put into the template, in the file's own
format, because an empty table is refused for having no primary key)."""
import argparse, json, os, shutil, subprocess, sys
import jsonschema

ENV = dict(os.environ, NO_COLOR="1", RUST_BACKTRACE="0")
ENV.pop("VESP_SCHEMA_BASE_URL", None)
ID_COL = {"name": "id", "type": "integer", "nullable": False, "primary_key": True}
ID_COL_YAML = "columns:\n- name: id\n  type: integer\n  nullable: false\n  primary_key: true\n"


def run(binp, cwd, *args):
    p = subprocess.run([binp] + list(args), cwd=cwd, env=ENV, capture_output=True, text=True, stdin=subprocess.DEVNULL, timeout=120)
    return p.returncode, (p.stdout + p.stderr)[-600:]


def yaml2json(hserde, text):
    p = subprocess.run([hserde, "parse"], input=json.dumps({"kind": "yaml2json", "text": text}) + "\n", capture_output=True, text=True, timeout=60)
    try:
        o = json.loads(p.stdout.strip().split("\n")[-1])
    except Exception:
        return None, "hserde parse gave no answer: " + (p.stdout + p.stderr)[-300:]
    return (o.get("json"), None) if o.get("ok") else (None, o.get("err"))


def parse_by_extension(hserde, path):
    text = open(path, encoding="utf-8", errors="replace").read()
    ext = path.rsplit(".", 1)[-1]
    if ext == "json":
        try:
            return json.loads(text), None, text
        except Exception as e:
            return None, "not JSON: %s" % e, text
    doc, err = yaml2json(hserde, text)
    if err:
        return None, "not YAML: %s" % err, text
    return doc, None, text


def check_file(hserde, schemas, path, default_schema, problems, ctx):
    doc, err, text = parse_by_extension(hserde, path)
    rec = {"file": os.path.basename(path), "head": text[:200]}
    if err:
        problems.append(dict(ctx, file=os.path.basename(path), why="written file does not parse in the format of its extension: " + err, text=text[:1500]))
        return None, rec
    sname = default_schema
    if isinstance(doc, dict) and isinstance(doc.get("$schema"), str):
        sname = doc["$schema"].rsplit("/", 1)[-1]
    sp = os.path.join(schemas, sname)
    if not os.path.exists(sp):
        problems.append(dict(ctx, file=os.path.basename(path), why="$schema names no shipped schema: %s" % sname, text=text[:1500]))
        return doc, rec
    errs = [e.message[:200] for e in list(jsonschema.Draft202012Validator(json.load(open(sp))).iter_errors(doc))[:3]]
    rec["schema"] = sname
    rec["valid"] = not errs
    if errs:
        problems.append(dict(ctx, file=os.path.basename(path), why="written file does not validate against shipped %s: %s" % (sname, errs), text=text[:1500]))
    return doc, rec


# ---------------------------------------------------------------- JSON text layer of files the LOADER reads
# Schema-valid model / migration files in .json whose strings and numbers use every legal JSON spelling that
# is NOT legal (or means something else) in YAML: surrogate-pair escapes, \u0000-class escapes, raw DEL / C1
# characters, \/ , U+2028/2029, numeric defaults at the i64 / u64 / f64 boundaries.  Expected: the binary
# accepts the file iff python-jsonschema accepts it and serde_json (hserde parse) parses it.
PAYLOADS = [
    ("emoji", "launch \U0001F680 log"), ("cjk-ext-b", "\U00020000"), ("nul", "a\u0000b"), ("us", "a\u001fb"),
    ("del", "a\u007fb"), ("c1-80", "a\u0080b"), ("c1-9f", "a\u009fb"), ("nel", "a\u0085b"),
    ("ls", "a\u2028b\u2029c"), ("slash", "a/b"), ("bmp", "caf\u00e9 \uff21"), ("quote", "q\"b\\s\tt"),
    ("bom", "\ufeffx"), ("nonchar", "a\uffffb"),
]
NUMBERS = [("i64max", "9223372036854775807"), ("i64min", "-9223372036854775808"), ("u64max", "18446744073709551615"),
           ("over-u64", "18446744073709551616"), ("huge-int", "100000000000000000000000000000"),
           ("f64max", "1.7976931348623157e308"), ("denormal", "5e-324"), ("negzero", "-0.0"), ("exp", "1E+2")]


def model_doc(payload):
    return {"name": "launch_log", "description": payload,
            "columns": [{"name": "id", "type": "integer", "nullable": False, "primary_key": True},
                        {"name": "note", "type": "text", "nullable": True, "comment": payload, "default": payload},
                        {"name": "kind", "type": {"kind": "enum", "name": "kind", "values": ["plain", payload]}, "nullable": True}]}


def plan_doc(payload):
    return {"id": "00000000-0000-4000-8000-000000000001", "comment": payload, "created_at": "2026-10-02T00:00:00Z", "version": 1,
            "actions": [{"type": "create_table", "table": "launch_log", "columns": model_doc(payload)["columns"], "constraints": []},
                        {"type": "raw_sql", "sql": payload}]}


def hserde_parse(hserde, reqs):
    p = subprocess.run([hserde, "parse"], input="".join(json.dumps(r) + "\n" for r in reqs), capture_output=True, text=True, timeout=120)
    outs = [json.loads(l) for l in p.stdout.split("\n") if l.strip().startswith("{")]
    return outs if len(outs) == len(reqs) else None


def text_layer(a, problems):
    cfg_done = {}
    cases = []
    docs = []        # (case id, kind, text)
    for name, pl in PAYLOADS:
        for kind, mk in (("table", model_doc), ("plan", plan_doc)):
            d = mk(pl)
            docs.append(("%s:%s:ascii" % (kind, name), kind, json.dumps(d, ensure_ascii=True, indent=1)))
            docs.append(("%s:%s:raw" % (kind, name), kind, json.dumps(d, ensure_ascii=False)))
    d = model_doc("a/b")
    docs.append(("table:slash-escaped", "table", json.dumps(d).replace("a/b", "a\\/b")))
    docs.append(("plan:slash-escaped", "plan", json.dumps(plan_doc("a/b")).replace("a/b", "a\\/b")))
    for name, lit in NUMBERS:
        t = json.dumps(model_doc("x")).replace('"default": "x"', '"default": %s' % lit)
        docs.append(("table:number-default:%s" % name, "table", t))
    schemas = {"table": json.load(open(os.path.join(a.schemas, "model.schema.json"))), "plan": json.load(open(os.path.join(a.schemas, "migration.schema.json")))}
    ans_json = hserde_parse(a.hserde, [{"kind": k, "text": t} for _, k, t in docs])
    ans_yaml = hserde_parse(a.hserde, [{"kind": k + "_yaml", "text": t} for _, k, t in docs])
    ans_gal = hserde_parse(a.hserde, [{"kind": "json2gallina", "text": t} for _, k, t in docs])
    if ans_json is None or ans_yaml is None or ans_gal is None:
        problems.append({"case": "text-layer", "why": "hserde parse did not answer every request"})
        return {"documents": 0}
    stats = {"documents": len(docs), "schema_valid": 0, "serde_json_accepts": 0, "serde_yaml_accepts_the_same_text": 0, "binary_accepts": 0}
    for i, (cid, kind, text) in enumerate(docs):
        try:
            valid = jsonschema.Draft202012Validator(schemas[kind]).is_valid(json.loads(text))
        except Exception:
            valid = False
        sj, sy = ans_json[i]["ok"], ans_yaml[i]["ok"]
        d = os.path.join(a.work, "t%03d" % i)
        os.makedirs(d)
        run(a.bin, d, "init")
        if kind == "table":
            os.makedirs(os.path.join(d, "models"))
            fn = os.path.join(d, "models", "launch_log.vespertide.json")
            cmds = ["diff"]
        else:
            os.makedirs(os.path.join(d, "migrations"))
            fn = os.path.join(d, "migrations", "0001_init.vespertide.json")
            cmds = ["log", "diff"]
        open(fn, "w", encoding="utf-8", newline="").write(text)
        rcs = [run(a.bin, d, c) for c in cmds]
        accepted = all(rc == 0 for rc, _ in rcs)
        stats["schema_valid"] += valid
        stats["serde_json_accepts"] += sj
        stats["serde_yaml_accepts_the_same_text"] += sy
        stats["binary_accepts"] += accepted
        cases.append({"case": cid, "kind": kind, "schema_valid": valid, "serde_json": sj, "serde_yaml": sy, "binary": accepted,
                      "binary_output": next((o for rc, o in rcs if rc != 0), "")[-300:], "file": os.path.relpath(fn, d),
                      "commands": ["vespertide init"] + ["vespertide " + c for c in cmds],
                      "gallina": ans_gal[i].get("gallina"), "has_dup": ans_gal[i].get("has_dup"), "text": text})
    stats["cases"] = cases
    return stats


def main():
    ap = argparse.ArgumentParser()
    for a in ("--bin", "--hserde", "--schemas", "--work", "--out"):
        ap.add_argument(a, required=True)
    a = ap.parse_args()
    shutil.rmtree(a.work, ignore_errors=True)
    os.makedirs(a.work)
    problems, cases = [], []
    fmts = ["json", "yaml", "yml"]
    n = 0
    for mf in fmts:
        for ov in [None] + fmts:
            n += 1
            gf = fmts[(n + fmts.index(mf)) % 3]               # migrationFormat: all three occur with every modelFormat
            d = os.path.join(a.work, "p%02d_%s_%s_%s" % (n, mf, ov or "none", gf))
            os.makedirs(d)
            ctx = {"modelFormat": mf, "new_format_override": ov, "migrationFormat": gf,
                   "commands": ["vespertide init", "(set modelFormat/migrationFormat in vespertide.json)",
                                "vespertide new users" + (" --format " + ov if ov else ""), "(add id column)", "vespertide diff",
                                "vespertide revision -m init", "vespertide diff"]}
            case = dict(ctx, files=[])
            cases.append(case)
            rc, out = run(a.bin, d, "init")
            if rc != 0:
                problems.append(dict(ctx, why="init failed: " + out))
                continue
            cfgp = os.path.join(d, "vespertide.json")
            cfg, rec = check_file(a.hserde, a.schemas, cfgp, "config.schema.json", problems, ctx)
            case["files"].append(rec)
            if cfg is None:
                continue
            cfg["modelFormat"], cfg["migrationFormat"] = mf, gf
            json.dump(cfg, open(cfgp, "w"), indent=2)
            rc, out = run(a.bin, d, *(["new", "users"] + (["--format", ov] if ov else [])))
            if rc != 0:
                problems.append(dict(ctx, why="new failed: " + out))
                continue
            want = ov or mf
            written = sorted(os.listdir(os.path.join(d, "models")))
            if written != ["users.vespertide." + want]:
                problems.append(dict(ctx, why="new wrote %s, expected users.vespertide.%s" % (written, want)))
                continue
            mp = os.path.join(d, "models", written[0])
            doc, rec = check_file(a.hserde, a.schemas, mp, "model.schema.json", problems, ctx)
            case["files"].append(rec)
            if doc is None:
                continue
            # complete the template in the file's own format, then the tool must load it
            text = open(mp).read()
            if want == "json":
                doc["columns"] = [ID_COL]
                json.dump(doc, open(mp, "w"), indent=2)
            elif "columns: []\n" in text:
                open(mp, "w").write(text.replace("columns: []\n", ID_COL_YAML))
            else:
                problems.append(dict(ctx, file=written[0], why="a .%s template without a `columns: []` line (not block YAML as the tool writes it)" % want, text=text[:1500]))
                continue
            rc, out = run(a.bin, d, "diff")
            if rc != 0:
                problems.append(dict(ctx, file=written[0], why="the written model does not load: `vespertide diff` exits %d: %s" % (rc, out[-300:])))
                continue
            rc, out = run(a.bin, d, "revision", "-m", "init")
            if rc != 0:
                problems.append(dict(ctx, why="revision failed: " + out))
                continue
            migs = sorted(os.listdir(os.path.join(d, "migrations")))
            if len(migs) != 1 or not migs[0].endswith("." + gf):
                problems.append(dict(ctx, why="revision wrote %s, expected one .%s file" % (migs, gf)))
                continue
            gp = os.path.join(d, "migrations", migs[0])
            gdoc, rec = check_file(a.hserde, a.schemas, gp, "migration.schema.json", problems, ctx)
            case["files"].append(rec)
            if gdoc is None:
                continue
            rc, out = run(a.bin, d, "diff")
            if rc != 0:
                problems.append(dict(ctx, file=migs[0], why="the written migration does not load: `vespertide diff` exits %d: %s" % (rc, out[-300:])))
    tl = text_layer(a, problems)
    json.dump({"projects": len(cases), "files_checked": sum(len(c["files"]) for c in cases), "cases": cases, "problems": problems, "text_layer": tl}, open(a.out, "w"), indent=1)
    return 0


if __name__ == "__main__":
    sys.exit(main())
