"""Tiny syntactic scanner for Rust sources, shared by tools/panicsites.py and tools/hashsites.py.

It is deliberately small (part of the trusted base, DESIGN.md §5.4):
  * `clean(src)`     comments removed, contents of string / char literals blanked (newlines kept so that
                     line numbers survive), raw strings handled;
  * `cut_tests(src)` text before the first `#[cfg(test)]` (the non-test code of a file);
  * `functions(src)` list of (name, body_start, body_end, header) for every `fn` with a body, nested
                     functions / closures are attributed to the innermost enclosing `fn`.
No parsing beyond brace matching is attempted.
"""
import re


def clean(src):
    out = []
    i, n = 0, len(src)
    while i < n:
        c = src[i]
        two = src[i:i + 2]
        if two == "//":
            j = src.find("\n", i)
            j = n if j < 0 else j
            i = j
            continue
        if two == "/*":
            depth, j = 1, i + 2
            while j < n and depth:
                if src[j:j + 2] == "/*":
                    depth += 1
                    j += 2
                elif src[j:j + 2] == "*/":
                    depth -= 1
                    j += 2
                else:
                    if src[j] == "\n":
                        out.append("\n")
                    j += 1
            i = j
            continue
        # raw strings r"..." r#"..."# (also br)
        m = re.match(r'b?r(#*)"', src[i:i + 12]) if c in "br" else None
        if m and (i == 0 or not (src[i - 1].isalnum() or src[i - 1] == "_")):
            hashes = m.group(1)
            end = '"' + hashes
            j = src.find(end, i + len(m.group(0)))
            j = n if j < 0 else j + len(end)
            out.append('""')
            out.append("\n" * src[i:j].count("\n"))
            i = j
            continue
        if c == '"':
            j = i + 1
            while j < n and src[j] != '"':
                if src[j] == "\\":
                    j += 1
                j += 1
            out.append('""')
            out.append("\n" * src[i:j + 1].count("\n"))
            i = j + 1
            continue
        if c == "'":
            # char literal or lifetime
            m = re.match(r"'(\\.[^']*|[^\\'])'", src[i:i + 12])
            if m:
                out.append("' '")
                i += len(m.group(0))
                continue
            out.append(c)
            i += 1
            continue
        out.append(c)
        i += 1
    return "".join(out)


def cut_tests(src):
    k = src.find("#[cfg(test)]")
    return src if k < 0 else src[:k]


FN_RE = re.compile(r"\bfn\s+([A-Za-z_][A-Za-z0-9_]*)")


def functions(cleaned):
    """[(name, start_of_body, end_of_body, header_text)] — body offsets are those of the braces."""
    res = []
    for m in FN_RE.finditer(cleaned):
        # find the opening brace of the body: first '{' or ';' at nesting depth 0 of () <> []
        i, n = m.end(), len(cleaned)
        par = 0
        start = None
        while i < n:
            ch = cleaned[i]
            if ch in "([":
                par += 1
            elif ch in ")]":
                par -= 1
            elif ch == ";" and par == 0:
                break
            elif ch == "{" and par == 0:
                start = i
                break
            i += 1
        if start is None:
            continue
        depth, j = 0, start
        while j < n:
            if cleaned[j] == "{":
                depth += 1
            elif cleaned[j] == "}":
                depth -= 1
                if depth == 0:
                    break
            j += 1
        res.append((m.group(1), start, j, cleaned[m.start():start]))
    return res


def enclosing(fns, pos):
    """name of the innermost function whose body contains offset pos ('' = module level)."""
    best = None
    for name, a, b, _ in fns:
        if a <= pos <= b and (best is None or a > best[1]):
            best = (name, a)
    return best[0] if best else "(module)"


def line_of(text, pos):
    return text.count("\n", 0, pos) + 1


def gstr(s):
    return '"' + s.replace('"', '""') + '"'
