"""Parser from the PostgreSQL text vespertide-query emits (sea-query 0.32 PostgresQueryBuilder + the raw
format! strings of the builders) to the `stmt` terms of coq/pg/Model/Ast.v.

The emitted SQL is machine generated and regular; exactly the shapes listed in Ast.v are parsed, anything else
raises Unparsed (an unparsed statement is a correspondence failure, never skipped).  Identifiers are
double-quoted (`""` escapes a quote); type texts and all expressions are kept verbatim.

    parse(sql) -> dict          to_gallina(dict) -> str          parse_to_gallina(sql) -> str
"""
import re


class Unparsed(Exception):
    pass


# ------------------------------------------------------------------------------- scanning helpers
class Scan:
    def __init__(self, s):
        self.s, self.i = s, 0

    def rest(self):
        return self.s[self.i:]

    def eof(self):
        return self.i >= len(self.s)

    def ws(self):
        while self.i < len(self.s) and self.s[self.i] == " ":
            self.i += 1

    def lit(self, t):
        """consume literal t (after optional blanks); False if absent"""
        j = self.i
        while j < len(self.s) and self.s[j] == " ":
            j += 1
        if self.s.startswith(t, j):
            # keywords must end at a word boundary
            k = j + len(t)
            if t[-1].isalpha() and k < len(self.s) and (self.s[k].isalnum() or self.s[k] == "_"):
                return False
            self.i = k
            return True
        return False

    def need(self, t):
        if not self.lit(t):
            raise Unparsed("expected %r at %r" % (t, self.rest()[:60]))

    def ident(self):
        self.ws()
        if self.i >= len(self.s) or self.s[self.i] != '"':
            raise Unparsed("expected quoted identifier at %r" % self.rest()[:60])
        j = self.i + 1
        out = []
        while j < len(self.s):
            if self.s[j] == '"':
                if j + 1 < len(self.s) and self.s[j + 1] == '"':
                    out.append('"')
                    j += 2
                    continue
                self.i = j + 1
                return "".join(out)
            out.append(self.s[j])
            j += 1
        raise Unparsed("unterminated identifier")

    def ident_list(self):
        """( "a", "b" )"""
        self.need("(")
        out = [self.ident()]
        while self.lit(","):
            out.append(self.ident())
        self.need(")")
        return out

    def parens(self):
        """balanced ( ... ) -> inner text verbatim"""
        self.ws()
        if self.i >= len(self.s) or self.s[self.i] != "(":
            raise Unparsed("expected ( at %r" % self.rest()[:60])
        start = self.i + 1
        depth, j, q = 0, self.i, None
        while j < len(self.s):
            ch = self.s[j]
            if q:
                if ch == q:
                    if j + 1 < len(self.s) and self.s[j + 1] == q:
                        j += 1
                    else:
                        q = None
            elif ch in "'\"":
                q = ch
            elif ch == "(":
                depth += 1
            elif ch == ")":
                depth -= 1
                if depth == 0:
                    self.i = j + 1
                    return self.s[start:j]
            j += 1
        raise Unparsed("unbalanced parentheses")


def split_top(s, sep=","):
    """split at separators outside quotes and parentheses"""
    out, cur, depth, q, i = [], [], 0, None, 0
    while i < len(s):
        ch = s[i]
        if q:
            cur.append(ch)
            if ch == q:
                if i + 1 < len(s) and s[i + 1] == q:
                    cur.append(s[i + 1])
                    i += 1
                else:
                    q = None
        elif ch in "'\"":
            q = ch
            cur.append(ch)
        elif ch == "(":
            depth += 1
            cur.append(ch)
        elif ch == ")":
            depth -= 1
            cur.append(ch)
        elif ch == sep and depth == 0:
            out.append("".join(cur))
            cur = []
        else:
            cur.append(ch)
        i += 1
    out.append("".join(cur))
    return out


def find_top(s, needle, start=0):
    """first index >= start of needle outside quotes and parentheses, or -1"""
    depth, q, i = 0, None, 0
    while i < len(s):
        ch = s[i]
        if q:
            if ch == q:
                if i + 1 < len(s) and s[i + 1] == q:
                    i += 1
                else:
                    q = None
        elif ch in "'\"":
            q = ch
        elif ch == "(":
            depth += 1
        elif ch == ")":
            depth -= 1
        if q is None and depth == 0 and i >= start and s.startswith(needle, i):
            return i
        i += 1
    return -1


REF_ACTIONS = [("CASCADE", "Cascade"), ("RESTRICT", "Restrict"), ("SET NULL", "SetNull"),
               ("SET DEFAULT", "SetDefault"), ("NO ACTION", "NoAction")]


def parse_type(txt):
    txt = txt.strip()
    if not txt:
        raise Unparsed("empty type")
    if txt.startswith('"'):
        sc = Scan(txt)
        n = sc.ident()
        if not sc.eof():
            raise Unparsed("trailing text after quoted type: %r" % txt)
        return {"text": n, "quoted": True}
    return {"text": txt, "quoted": False}


def parse_coldef(txt):
    sc = Scan(txt)
    name = sc.ident()
    rest = sc.rest()
    cuts = [k for k in (find_top(rest, " NOT NULL"), find_top(rest, " NULL"), find_top(rest, " DEFAULT "),
                        find_top(rest, " PRIMARY KEY")) if k >= 0]
    cut = min(cuts) if cuts else len(rest)
    ty = parse_type(rest[:cut])
    spec = rest[cut:]
    notnull, default, pk = False, None, False
    if spec.startswith(" NOT NULL"):
        notnull = True
        spec = spec[len(" NOT NULL"):]
    elif spec.startswith(" NULL"):
        spec = spec[len(" NULL"):]
    if spec.endswith(" PRIMARY KEY") and find_top(spec, " PRIMARY KEY") == len(spec) - len(" PRIMARY KEY"):
        pk = True
        spec = spec[:-len(" PRIMARY KEY")]
    if spec.startswith(" DEFAULT "):
        default = spec[len(" DEFAULT "):]
        spec = ""
    if spec.strip():
        raise Unparsed("column specification not understood: %r in %r" % (spec, txt))
    return {"name": name, "type": ty, "notnull": notnull, "default": default, "pk": pk}


def parse_fk(sc, name):
    """after FOREIGN KEY"""
    cols = sc.ident_list()
    sc.need("REFERENCES")
    rt = sc.ident()
    rcols = sc.ident_list()
    od = ou = None
    for _ in range(2):
        if sc.lit("ON DELETE"):
            od = parse_action(sc)
        elif sc.lit("ON UPDATE"):
            ou = parse_action(sc)
    return {"name": name, "cols": cols, "rtable": rt, "rcols": rcols, "on_delete": od, "on_update": ou}


def parse_action(sc):
    for kw, ctor in REF_ACTIONS:
        if sc.lit(kw):
            return ctor
    raise Unparsed("reference action at %r" % sc.rest()[:40])


def parse_table_element(txt):
    """element of CREATE TABLE ( ... ) that is not a column"""
    sc = Scan(txt)
    name = None
    if sc.lit("CONSTRAINT"):
        name = sc.ident()
    if sc.lit("PRIMARY KEY"):
        cols = sc.ident_list()
        _end(sc, txt)
        return ("pk", name, cols)
    if sc.lit("UNIQUE"):
        cols = sc.ident_list()
        _end(sc, txt)
        return ("unique", name, cols)
    if sc.lit("FOREIGN KEY"):
        fk = parse_fk(sc, name)
        _end(sc, txt)
        return ("fk", fk)
    if sc.lit("CHECK"):
        e = sc.parens()
        _end(sc, txt)
        if name is None:
            raise Unparsed("unnamed CHECK in CREATE TABLE: %r" % txt)
        return ("check", name, e)
    raise Unparsed("table element: %r" % txt)


def _end(sc, whole):
    sc.ws()
    if not sc.eof():
        raise Unparsed("trailing text %r in %r" % (sc.rest()[:60], whole[:120]))


def parse_alter_op(txt):
    sc = Scan(txt)
    if sc.lit("ADD COLUMN"):
        if sc.lit("IF NOT EXISTS"):
            raise Unparsed("ADD COLUMN IF NOT EXISTS")
        return {"op": "AAddColumn", "col": parse_coldef(sc.rest())}
    if sc.lit("DROP COLUMN"):
        c = sc.ident()
        _end(sc, txt)
        return {"op": "ADropColumn", "c": c}
    if sc.lit("RENAME COLUMN"):
        a = sc.ident()
        sc.need("TO")
        b = sc.ident()
        _end(sc, txt)
        return {"op": "ARenameColumn", "a": a, "b": b}
    if sc.lit("RENAME TO"):
        b = sc.ident()
        _end(sc, txt)
        return {"op": "ARenameTo", "b": b}
    if sc.lit("ALTER COLUMN"):
        c = sc.ident()
        if sc.lit("TYPE"):
            rest = sc.rest()
            k = find_top(rest, " USING ")
            if k >= 0:
                return {"op": "AAlterType", "c": c, "type": parse_type(rest[:k]), "using": rest[k + len(" USING "):]}
            return {"op": "AAlterType", "c": c, "type": parse_type(rest), "using": None}
        if sc.lit("SET NOT NULL"):
            _end(sc, txt)
            return {"op": "ASetNotNull", "c": c}
        if sc.lit("DROP NOT NULL"):
            _end(sc, txt)
            return {"op": "ADropNotNull", "c": c}
        if sc.lit("SET DEFAULT"):
            e = sc.rest()
            return {"op": "ASetDefault", "c": c, "e": e[1:] if e.startswith(" ") else e}
        if sc.lit("DROP DEFAULT"):
            _end(sc, txt)
            return {"op": "ADropDefault", "c": c}
        raise Unparsed("ALTER COLUMN form: %r" % txt)
    if sc.lit("ADD"):
        name = None
        if sc.lit("CONSTRAINT"):
            name = sc.ident()
        if sc.lit("PRIMARY KEY"):
            cols = sc.ident_list()
            _end(sc, txt)
            return {"op": "AAddPk", "n": name, "cols": cols}
        if sc.lit("UNIQUE"):
            cols = sc.ident_list()
            _end(sc, txt)
            return {"op": "AAddUnique", "n": name, "cols": cols}
        if sc.lit("FOREIGN KEY"):
            fk = parse_fk(sc, name)
            _end(sc, txt)
            return {"op": "AAddFk", "fk": fk}
        if sc.lit("CHECK"):
            e = sc.parens()
            _end(sc, txt)
            if name is None:
                raise Unparsed("unnamed ADD CHECK: %r" % txt)
            return {"op": "AAddCheck", "n": name, "e": e}
        raise Unparsed("ADD form: %r" % txt)
    if sc.lit("DROP CONSTRAINT"):
        if sc.lit("IF EXISTS"):
            raise Unparsed("DROP CONSTRAINT IF EXISTS")
        n = sc.ident()
        _end(sc, txt)
        return {"op": "ADropConstraint", "n": n}
    raise Unparsed("ALTER TABLE sub-command: %r" % txt)


def one_space_off(parts):
    """pieces of a ", "-separated list: drop exactly the one blank that follows each comma (user-supplied
    expressions may legitimately begin or end with blanks)"""
    return [parts[0]] + [p[1:] if p.startswith(" ") else p for p in parts[1:]]


def parse(sql):
    s = sql
    sc = Scan(s)
    if sc.lit("CREATE TYPE"):
        n = sc.ident()
        sc.need("AS ENUM")
        inner = sc.parens()
        _end(sc, s)
        labels = one_space_off(split_top(inner)) if inner.strip() else []
        return {"stmt": "SCreateType", "n": n, "labels": labels}
    if sc.lit("DROP TYPE"):
        if sc.lit("IF EXISTS"):
            raise Unparsed("DROP TYPE IF EXISTS")
        n = sc.ident()
        _end(sc, s)
        return {"stmt": "SDropType", "n": n}
    if sc.lit("ALTER TYPE"):
        a = sc.ident()
        if sc.lit("RENAME TO"):
            b = sc.ident()
            _end(sc, s)
            return {"stmt": "SRenameType", "a": a, "b": b}
        if sc.lit("ADD VALUE"):
            if sc.lit("IF NOT EXISTS"):
                raise Unparsed("ADD VALUE IF NOT EXISTS")
            return {"stmt": "SAddValue", "n": a, "label": sc.rest()[1:]}
        raise Unparsed("ALTER TYPE form: %r" % s)
    if sc.lit("CREATE TABLE"):
        if sc.lit("IF NOT EXISTS"):
            raise Unparsed("CREATE TABLE IF NOT EXISTS")
        t = sc.ident()
        inner = sc.parens()
        _end(sc, s)
        cols, pks, fks, checks = [], [], [], []
        if not (inner.startswith(" ") and inner.endswith(" ")):
            raise Unparsed("CREATE TABLE body layout: %r" % inner[:80])
        for el in one_space_off(split_top(inner[1:-1])):
            if el.startswith('"'):
                cols.append(parse_coldef(el))
            else:
                r = parse_table_element(el)
                if r[0] == "pk":
                    if r[1] is not None:
                        raise Unparsed("named PRIMARY KEY in CREATE TABLE: %r" % el)
                    pks.append(r[2])
                elif r[0] == "fk":
                    fks.append(r[1])
                elif r[0] == "check":
                    checks.append((r[1], r[2]))
                else:
                    raise Unparsed("inline UNIQUE in CREATE TABLE on PostgreSQL: %r" % el)
        return {"stmt": "SCreateTable", "t": t, "cols": cols, "pks": pks, "fks": fks, "checks": checks}
    if sc.lit("DROP TABLE"):
        if sc.lit("IF EXISTS"):
            raise Unparsed("DROP TABLE IF EXISTS")
        t = sc.ident()
        _end(sc, s)   # CASCADE / RESTRICT / several tables are not emitted
        return {"stmt": "SDropTable", "t": t}
    if sc.lit("ALTER TABLE"):
        t = sc.ident()
        rest = sc.rest()
        if not rest.startswith(" "):
            raise Unparsed("ALTER TABLE layout: %r" % s[:80])
        ops = [parse_alter_op(x) for x in one_space_off(split_top(rest[1:]))]
        return {"stmt": "SAlterTable", "t": t, "ops": ops}
    if sc.lit("CREATE UNIQUE INDEX") or sc.lit("CREATE INDEX"):
        unique = s.startswith("CREATE UNIQUE")
        if sc.lit("IF NOT EXISTS"):
            raise Unparsed("CREATE INDEX IF NOT EXISTS")
        n = sc.ident()
        sc.need("ON")
        t = sc.ident()
        cols = sc.ident_list()
        _end(sc, s)
        return {"stmt": "SCreateIndex", "unique": unique, "n": n, "t": t, "cols": cols}
    if sc.lit("DROP INDEX"):
        if sc.lit("IF EXISTS"):
            raise Unparsed("DROP INDEX IF EXISTS")
        n = sc.ident()
        _end(sc, s)
        return {"stmt": "SDropIndex", "n": n}
    if sc.lit("COMMENT ON COLUMN"):
        t = sc.ident()
        sc.need(".")
        c = sc.ident()
        sc.need("IS")
        rest = sc.rest()[1:]
        if rest == "NULL":
            return {"stmt": "SCommentOnColumn", "t": t, "c": c, "text": None}
        if len(rest) >= 2 and rest[0] == "'" and rest[-1] == "'":
            return {"stmt": "SCommentOnColumn", "t": t, "c": c, "text": rest}
        raise Unparsed("COMMENT text: %r" % rest)
    if sc.lit("UPDATE"):
        t = sc.ident()
        sc.need("SET")
        c = sc.ident()
        sc.need("=")
        rest = sc.rest()
        rest = rest[1:] if rest.startswith(" ") else rest
        k = find_top(rest, " WHERE ")
        if k >= 0:
            return {"stmt": "SUpdate", "t": t, "c": c, "e": rest[:k], "where": rest[k + len(" WHERE "):]}
        return {"stmt": "SUpdate", "t": t, "c": c, "e": rest, "where": None}
    raise Unparsed("statement: %r" % s[:160])


# ------------------------------------------------------------------------------- Gallina printing
def gs(s):
    return '"' + s.replace('"', '""') + '"'


def gopt(x, f=gs):
    return "None" if x is None else "(Some %s)" % f(x)


def glist(l, f=gs):
    return "[" + "; ".join(f(x) for x in l) + "]"


def gbool(b):
    return "true" if b else "false"


def gtype(t):
    return "(mkTy %s %s)" % (gs(t["text"]), gbool(t["quoted"]))


def gcol(c):
    return "(mkCd %s %s %s %s %s)" % (gs(c["name"]), gtype(c["type"]), gbool(c["notnull"]), gopt(c["default"]), gbool(c["pk"]))


def gfk(f):
    ident = lambda x: x
    return "(mkFk %s %s %s %s %s %s)" % (gopt(f["name"]), glist(f["cols"]), gs(f["rtable"]), glist(f["rcols"]),
                                         gopt(f["on_delete"], ident), gopt(f["on_update"], ident))


def gop(o):
    k = o["op"]
    if k == "AAddColumn":
        return "(AAddColumn %s)" % gcol(o["col"])
    if k in ("ADropColumn", "ASetNotNull", "ADropNotNull", "ADropDefault"):
        return "(%s %s)" % (k, gs(o["c"]))
    if k == "ARenameColumn":
        return "(ARenameColumn %s %s)" % (gs(o["a"]), gs(o["b"]))
    if k == "ARenameTo":
        return "(ARenameTo %s)" % gs(o["b"])
    if k == "AAlterType":
        return "(AAlterType %s %s %s)" % (gs(o["c"]), gtype(o["type"]), gopt(o["using"]))
    if k == "ASetDefault":
        return "(ASetDefault %s %s)" % (gs(o["c"]), gs(o["e"]))
    if k in ("AAddPk", "AAddUnique"):
        return "(%s %s %s)" % (k, gopt(o["n"]), glist(o["cols"]))
    if k == "AAddFk":
        return "(AAddFk %s)" % gfk(o["fk"])
    if k == "AAddCheck":
        return "(AAddCheck %s %s)" % (gs(o["n"]), gs(o["e"]))
    if k == "ADropConstraint":
        return "(ADropConstraint %s)" % gs(o["n"])
    raise Unparsed("internal: op %s" % k)


def to_gallina(d):
    k = d["stmt"]
    if k == "SCreateType":
        return "(SCreateType %s %s)" % (gs(d["n"]), glist(d["labels"]))
    if k == "SDropType":
        return "(SDropType %s)" % gs(d["n"])
    if k == "SRenameType":
        return "(SRenameType %s %s)" % (gs(d["a"]), gs(d["b"]))
    if k == "SAddValue":
        return "(SAddValue %s %s)" % (gs(d["n"]), gs(d["label"]))
    if k == "SCreateTable":
        return "(SCreateTable %s %s %s %s %s)" % (
            gs(d["t"]), glist(d["cols"], gcol), glist(d["pks"], glist), glist(d["fks"], gfk),
            glist(d["checks"], lambda p: "(%s, %s)" % (gs(p[0]), gs(p[1]))))
    if k == "SDropTable":
        return "(SDropTable %s)" % gs(d["t"])
    if k == "SAlterTable":
        return "(SAlterTable %s %s)" % (gs(d["t"]), glist(d["ops"], gop))
    if k == "SCreateIndex":
        return "(SCreateIndex %s %s %s %s)" % (gbool(d["unique"]), gs(d["n"]), gs(d["t"]), glist(d["cols"]))
    if k == "SDropIndex":
        return "(SDropIndex %s)" % gs(d["n"])
    if k == "SCommentOnColumn":
        return "(SCommentOnColumn %s %s %s)" % (gs(d["t"]), gs(d["c"]), gopt(d["text"]))
    if k == "SUpdate":
        return "(SUpdate %s %s %s %s)" % (gs(d["t"]), gs(d["c"]), gs(d["e"]), gopt(d["where"]))
    if k == "SRaw":
        return "(SRaw %s)" % gs(d["text"])
    raise Unparsed("internal: stmt %s" % k)


def parse_to_gallina(sql):
    return to_gallina(parse(sql))


def raw_to_gallina(sql):
    """statement of a RawSql action: opaque by definition (A4)"""
    return to_gallina({"stmt": "SRaw", "text": sql})


if __name__ == "__main__":
    import sys
    for line in sys.stdin:
        line = line.rstrip("\n")
        if line:
            print(parse_to_gallina(line))
