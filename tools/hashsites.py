#!/usr/bin/env python3
"""HashSites translator (DESIGN.md §5.4): syntactic inventory of every *iteration* over a HashMap / HashSet in
the non-test code (each file cut at its first `#[cfg(test)]`) of the crates core / planner / query / loader /
exporter.

Step 1  hash-typed names of a file: identifiers introduced as
          let [mut] x : …HashSet<…   |  let [mut] x = HashSet::new() / HashMap::new() / ::with_capacity / ::default
          let [mut] x … = <expr> … .collect::<HashSet…>()       (annotation or turbofish mentions Hash*)
          let [mut] x = f(…)    where f is a function of the scanned crates whose return type mentions Hash*
          parameters / struct fields   x : [&][mut] [std::collections::]HashSet<… / HashMap<…
        let-bound names and parameters are scoped to the fn that introduces them (matched when not preceded by
        `.`); struct fields apply to the whole file and are matched only as `<expr>.field`.
Step 2  iteration sites over such a name x:
          for … in [&][mut] x            -> for
          x.iter() x.iter_mut()          -> iter
          x.keys() x.values() x.values_mut() x.into_keys() x.into_values() -> keys / values
          x.into_iter()                  -> into_iter
          x.drain()                      -> drain
          extend(x) / from_iter(x) / extend(&x)  -> extend

Membership-style uses (contains / get / insert / entry / len / is_empty / remove / retain) are *not* sites.
Output: (file, enclosing fn, container name, kind, count) as a Gallina list in Gen/HashSites.v.

usage: hashsites.py [--repo /repo] --out <HashSites.v> [--json <file>]
"""
import collections, json, os, re, sys

sys.path.insert(0, os.path.dirname(os.path.abspath(__file__)))
import rustscan

CRATES = ["vespertide-core", "vespertide-planner", "vespertide-query", "vespertide-loader", "vespertide-exporter"]
HASH = r"(?:std::collections::)?Hash(?:Map|Set)"
ID = r"[A-Za-z_][A-Za-z0-9_]*"


def source_files(repo):
    for crate in CRATES:
        root = os.path.join(repo, "crates", crate, "src")
        for dp, dn, fn in sorted(os.walk(root)):
            dn.sort()
            for f in sorted(fn):
                if f.endswith(".rs") and f != "tests.rs" and not f.startswith("test_"):
                    p = os.path.join(dp, f)
                    yield p, os.path.relpath(p, repo)


def hash_returning_functions(texts):
    names = set()
    for text in texts:
        for name, a, b, hdr in rustscan.functions(text):
            m = re.search(r"->\s*([^{]*)$", hdr, flags=re.S)
            if m and re.search(r"Hash(Map|Set)", m.group(1)):
                names.add(name)
    return names


def statement_end(text, i):
    """offset of the ';' that ends the statement starting at i (depth-0 of () [] {})"""
    depth = 0
    n = len(text)
    while i < n:
        c = text[i]
        if c in "([{":
            depth += 1
        elif c in ")]}":
            depth -= 1
            if depth < 0:
                return i
        elif c == ";" and depth == 0:
            return i
        i += 1
    return n


def hash_names(text, hash_fns, fns):
    """-> (scoped, fields): scoped = {(fn name, body start): {names}} for let-bound names and parameters,
    fields = names of struct fields / module-level items typed Hash* (matched only as `<expr>.field`)."""
    scoped = collections.defaultdict(set)

    def scope_of(pos):
        best = None
        for name, a, b, _ in fns:
            if a <= pos <= b and (best is None or a > best[1]):
                best = (name, a)
        return best

    for m in re.finditer(r"\blet\s+(?:mut\s+)?(%s)\b" % ID, text):
        end = statement_end(text, m.end())
        stmt = text[m.end():end]
        x = m.group(1)
        sc = scope_of(m.start())
        ann = re.match(r"\s*:\s*([^=]*)=", stmt, flags=re.S)
        if ann and re.search(r"Hash(Map|Set)", ann.group(1)):
            scoped[sc].add(x)
            continue
        rhs = stmt.split("=", 1)[1] if "=" in stmt else ""
        if re.match(r"\s*%s\s*::\s*(new|with_capacity|default|from|from_iter)\b" % HASH, rhs) or \
                re.search(r"collect\s*::\s*<\s*%s" % HASH, rhs):
            scoped[sc].add(x)
            continue
        cm = re.match(r"\s*(?:self\s*\.\s*|Self\s*::\s*|%s\s*::\s*)*(%s)\s*\(" % (ID, ID), rhs)
        if cm and cm.group(1) in hash_fns:
            scoped[sc].add(x)
    fields = set()
    for m in re.finditer(r"\b(%s)\s*:\s*&?\s*(?:'%s\s+)?(?:mut\s+)?%s\s*<" % (ID, ID, HASH), text):
        # a parameter if it sits in the header of a function, otherwise a struct field
        owner = None
        for name, a, b, hdr in fns:
            if a - len(hdr) <= m.start() < a:
                owner = (name, a)
        if owner:
            scoped[owner].add(m.group(1))
        elif scope_of(m.start()) is None:
            fields.add(m.group(1))
    return scoped, fields


def site_patterns(alt, field):
    pre = r"\.\s*" if field else r"(?<![A-Za-z0-9_.])"
    ref = (r"(?:&\s*(?:mut\s+)?)?%s\s*\.\s*(%s)" % (ID, alt)) if field else (r"(?:&\s*(?:mut\s+)?)?(%s)" % alt)
    return [
        ("for", re.compile(r"\bfor\b[^;{]*?\bin\s+%s\s*\{" % ref)),
        ("iter", re.compile(r"%s(%s)\s*\.\s*iter(?:_mut)?\s*\(" % (pre, alt))),
        ("keys", re.compile(r"%s(%s)\s*\.\s*(?:keys|into_keys)\s*\(" % (pre, alt))),
        ("values", re.compile(r"%s(%s)\s*\.\s*(?:values|values_mut|into_values)\s*\(" % (pre, alt))),
        ("into_iter", re.compile(r"%s(%s)\s*\.\s*into_iter\s*\(" % (pre, alt))),
        ("drain", re.compile(r"%s(%s)\s*\.\s*drain\s*\(" % (pre, alt))),
        ("extend", re.compile(r"\b(?:extend|from_iter)\s*\(\s*%s\s*\)" % ref)),
    ]


def sites_of(text, scoped, fields, fns):
    sites = []
    spans = {(name, a): b for name, a, b, _ in fns}
    for sc, names in scoped.items():
        if not names:
            continue
        lo, hi = (sc[1], spans[sc]) if sc else (0, len(text))
        alt = "|".join(sorted(re.escape(x) for x in names))
        for kind, rx in site_patterns(alt, False):
            for m in rx.finditer(text, lo, hi):
                sites.append((rustscan.enclosing(fns, m.start()), m.group(1), kind, rustscan.line_of(text, m.start())))
    if fields:
        alt = "|".join(sorted(re.escape(x) for x in fields))
        for kind, rx in site_patterns(alt, True):
            for m in rx.finditer(text):
                sites.append((rustscan.enclosing(fns, m.start()), m.group(1), kind, rustscan.line_of(text, m.start())))
    return sorted(set(sites))


def inventory(repo):
    files = []
    for p, rel in source_files(repo):
        text = rustscan.cut_tests(rustscan.clean(open(p, encoding="utf-8", errors="replace").read()))
        files.append((rel, text))
    hash_fns = hash_returning_functions(t for _, t in files)
    out = []
    for rel, text in files:
        fns = rustscan.functions(text)
        scoped, fields = hash_names(text, hash_fns, fns)
        for fn, name, kind, line in sites_of(text, scoped, fields, fns):
            out.append((rel, fn, name, kind, line))
    return out, sorted(hash_fns)


def aggregate(sites):
    agg = collections.Counter()
    for f, fn, name, kind, _ in sites:
        agg[(f, fn, name, kind)] += 1
    return sorted((f, fn, name, kind, c) for (f, fn, name, kind), c in agg.items())


def to_coq(agg):
    g = rustscan.gstr
    lines = ["(* GENERATED by tools/hashsites.py from the current /repo working tree — do not edit. *)",
             "From Coq Require Import String List.", "Import ListNotations.", "Open Scope string_scope.", "",
             "Definition hash_sites : list (string * string * string * string * nat) := ["]
    lines.append(";\n".join("  (%s, %s, %s, %s, %d)" % (g(f), g(fn), g(nm), g(k), c) for f, fn, nm, k, c in agg))
    lines.append("].")
    return "\n".join(lines) + "\n"


def main(argv):
    repo = "/repo"
    out = js = None
    i = 0
    while i < len(argv):
        if argv[i] == "--repo":
            repo = argv[i + 1]; i += 2
        elif argv[i] == "--out":
            out = argv[i + 1]; i += 2
        elif argv[i] == "--json":
            js = argv[i + 1]; i += 2
        else:
            print(__doc__); return 2
    sites, hash_fns = inventory(repo)
    agg = aggregate(sites)
    if out:
        os.makedirs(os.path.dirname(os.path.abspath(out)), exist_ok=True)
        open(out, "w").write(to_coq(agg))
    if js:
        json.dump({"sites": sites, "aggregated": agg, "hash_returning_fns": hash_fns}, open(js, "w"), indent=0)
    if not out and not js:
        for a in agg:
            print("\t".join(str(x) for x in a))
        print("# hash-returning fns:", hash_fns)
    return 0


if __name__ == "__main__":
    sys.exit(main(sys.argv[1:]))
