//! K-mig runtime support (layer `mig`, C09-C11).
//!
//! The per-history crate `migcase` (harness_mig/template) expands the REAL `vespertide_migration!` macro
//! against a `Conn` defined here.  `Conn` / `Txn` are thin proxies over a real sea-orm
//! `DatabaseConnection` / `DatabaseTransaction` on a real SQLite file (sqlx-sqlite): they expose exactly
//! the methods the generated block calls (`get_database_backend`, `execute_raw`, `begin`,
//! `query_one_raw`, `query_all_raw`, `commit`), log every call, can fail or abort the process at the j-th
//! call, and block before every call until the scheduler grants the instance a step.
use std::cell::{Cell, RefCell};
use std::future::Future;
use std::io::Write;
use std::path::{Path, PathBuf};
use std::pin::Pin;
use std::rc::Rc;
use std::time::Duration;

use sea_orm::sqlx::sqlite::{SqliteConnectOptions, SqlitePoolOptions};
use sea_orm::{
    ConnectionTrait, DatabaseConnection, DatabaseTransaction, DbBackend, DbErr, ExecResult, QueryResult,
    SqlxSqliteConnector, Statement, TransactionTrait,
};
use serde_json::{Value, json};
use tokio::sync::{Notify, oneshot};

pub type BoxFut = Pin<Box<dyn Future<Output = Result<(), vespertide::MigrationError>>>>;
pub type Dispatch = fn(u8, Conn) -> BoxFut;

// ------------------------------------------------------------------------------------ scheduler
struct Slot {
    waiting: Option<oneshot::Sender<()>>,
    finished: bool,
}
struct Sched {
    slots: Vec<Slot>,
    notify: Rc<Notify>,
}

async fn wait_ready(sched: &Rc<RefCell<Sched>>, pid: usize) {
    loop {
        let n = {
            let s = sched.borrow();
            if s.slots[pid].finished || s.slots[pid].waiting.is_some() {
                return;
            }
            s.notify.clone()
        };
        n.notified().await;
    }
}

// ------------------------------------------------------------------------------------ proxy connection
struct ConnInner {
    pid: usize,
    db: DatabaseConnection,
    backend: DbBackend, // what get_database_backend() answers (Sqlite for real runs)
    dry: bool,          // fake backend: migration statements are logged, not executed
    vt_insert_prefix: String,
    faults: Vec<usize>,
    fault_err: (String, String),          // (class, text) of the error returned by call-indexed faults
    sfaults: Vec<(String, String, String)>, // persistent: every execution of this statement fails (sql, class, text)
    abort_at: Option<usize>,
    n: Cell<usize>,
    log: RefCell<Vec<Value>>,
    logfile: Option<PathBuf>,
    sched: Rc<RefCell<Sched>>,
}

#[derive(Clone)]
pub struct Conn {
    inner: Rc<ConnInner>,
}

pub struct Txn {
    conn: Conn,
    txn: DatabaseTransaction,
}

impl Conn {
    async fn gate(&self) {
        let rx = {
            let mut s = self.inner.sched.borrow_mut();
            let (tx, rx) = oneshot::channel();
            s.slots[self.inner.pid].waiting = Some(tx);
            s.notify.notify_one();
            rx
        };
        let _ = rx.await;
    }

    fn record(&self, kind: &str, sql: &str, ok: bool, err: Option<String>, injected: bool) {
        let e = json!({"k": kind, "sql": sql, "ok": ok, "err": err, "injected": injected});
        if let Some(p) = &self.inner.logfile {
            if let Ok(mut f) = std::fs::OpenOptions::new().create(true).append(true).open(p) {
                let _ = writeln!(f, "{}", e);
                let _ = f.flush();
            }
        }
        self.inner.log.borrow_mut().push(e);
    }

    /// wait for a step, count the call, apply fault injection.  Err = the call must fail now.
    async fn pre(&self, kind: &str, sql: &str) -> Result<(), DbErr> {
        self.gate().await;
        let idx = self.inner.n.get();
        self.inner.n.set(idx + 1);
        if self.inner.abort_at == Some(idx) {
            self.record("abort", sql, false, None, true);
            std::process::abort();
        }
        if self.inner.faults.contains(&idx) {
            self.record(kind, sql, false, Some(self.inner.fault_err.1.clone()), true);
            return Err(make_err(&self.inner.fault_err.0, &self.inner.fault_err.1));
        }
        Ok(())
    }

    fn post<T>(&self, kind: &str, sql: &str, r: Result<T, DbErr>) -> Result<T, DbErr> {
        match &r {
            Ok(_) => self.record(kind, sql, true, None, false),
            Err(e) => self.record(kind, sql, false, Some(e.to_string()), false),
        }
        r
    }

    pub fn get_database_backend(&self) -> DbBackend {
        self.inner.backend
    }

    pub async fn execute_raw(&self, stmt: Statement) -> Result<ExecResult, DbErr> {
        let sql = stmt.sql.clone();
        self.pre("pool_exec", &sql).await?;
        let r = self.inner.db.execute_raw(stmt).await;
        self.post("pool_exec", &sql, r)
    }

    pub async fn begin(&self) -> Result<Txn, DbErr> {
        self.pre("begin", "").await?;
        let r = self.inner.db.begin().await;
        let r = self.post("begin", "", r)?;
        Ok(Txn { conn: self.clone(), txn: r })
    }
}

/// error values of different classes: the generated code must not care
fn make_err(class: &str, text: &str) -> DbErr {
    match class {
        "exec" => DbErr::Exec(sea_orm::RuntimeErr::Internal(text.to_string())),
        "query" => DbErr::Query(sea_orm::RuntimeErr::Internal(text.to_string())),
        "conn" => DbErr::Conn(sea_orm::RuntimeErr::Internal(text.to_string())),
        _ => DbErr::Custom(text.to_string()),
    }
}

impl Txn {
    pub fn get_database_backend(&self) -> DbBackend {
        self.conn.inner.backend
    }

    pub async fn execute_raw(&self, stmt: Statement) -> Result<ExecResult, DbErr> {
        let sql = stmt.sql.clone();
        self.conn.pre("txn_exec", &sql).await?;
        if let Some((_, class, text)) = self.conn.inner.sfaults.iter().find(|f| f.0 == sql) {
            // persistent fault: this statement fails every time it is executed
            self.conn.record("txn_exec", &sql, false, Some(text.clone()), true);
            return Err(make_err(class, text));
        }
        let r = if self.conn.inner.dry && !sql.starts_with(&self.conn.inner.vt_insert_prefix) {
            // fake backend: the text is PostgreSQL/MySQL DDL; log it, keep the transaction alive
            self.txn.execute_raw(Statement::from_string(DbBackend::Sqlite, "SELECT 1")).await
        } else {
            self.txn.execute_raw(stmt).await
        };
        self.conn.post("txn_exec", &sql, r)
    }

    pub async fn query_one_raw(&self, stmt: Statement) -> Result<Option<QueryResult>, DbErr> {
        let sql = stmt.sql.clone();
        self.conn.pre("query_one", &sql).await?;
        let r = self.txn.query_one_raw(stmt).await;
        self.conn.post("query_one", &sql, r)
    }

    pub async fn query_all_raw(&self, stmt: Statement) -> Result<Vec<QueryResult>, DbErr> {
        let sql = stmt.sql.clone();
        self.conn.pre("query_all", &sql).await?;
        let r = self.txn.query_all_raw(stmt).await;
        self.conn.post("query_all", &sql, r)
    }

    pub async fn commit(self) -> Result<(), DbErr> {
        self.conn.pre("commit", "").await?;
        let Txn { conn, txn } = self;
        let r = txn.commit().await;
        conn.post("commit", "", r)
    }
}

// ------------------------------------------------------------------------------------ plain database access
async fn open(path: &Path) -> Result<DatabaseConnection, String> {
    // sqlx-sqlite defaults (rollback journal, foreign_keys=ON) except: busy_timeout 0 so that lock
    // conflicts surface as errors, one connection per instance
    let opts = SqliteConnectOptions::new()
        .filename(path)
        .create_if_missing(true)
        .busy_timeout(Duration::ZERO);
    let pool = SqlitePoolOptions::new()
        .max_connections(1)
        .min_connections(1)
        .idle_timeout(None)
        .max_lifetime(None)
        .connect_with(opts)
        .await
        .map_err(|e| format!("open {}: {}", path.display(), e))?;
    Ok(SqlxSqliteConnector::from_sqlx_sqlite_pool(pool))
}

fn st(sql: &str) -> Statement {
    Statement::from_string(DbBackend::Sqlite, sql.to_string())
}

/// (version-table observation, catalog of everything else as a canonical string)
async fn observe(path: &Path, vt: &str) -> Result<Value, String> {
    let db = open(path).await?;
    let rows = db
        .query_all_raw(st("SELECT type, name, tbl_name, sql FROM sqlite_master ORDER BY type, name"))
        .await
        .map_err(|e| e.to_string())?;
    let mut vt_exists = false;
    let mut others = Vec::new();
    for r in &rows {
        let ty: String = r.try_get("", "type").map_err(|e| e.to_string())?;
        let name: String = r.try_get("", "name").map_err(|e| e.to_string())?;
        let tbl: String = r.try_get("", "tbl_name").map_err(|e| e.to_string())?;
        let sql: Option<String> = r.try_get("", "sql").map_err(|e| e.to_string())?;
        if tbl == vt {
            if ty == "table" && name == vt {
                vt_exists = true;
            }
        } else {
            others.push(json!([ty, name, tbl, sql]));
        }
    }
    // the rows of every user table that has any (entry kind "rows"): data written by migration statements is part
    // of what two runs must agree on
    let user_tables: Vec<String> = others.iter().filter(|e| e[0] == "table" && !e[1].as_str().unwrap_or("").starts_with("sqlite_"))
        .map(|e| e[1].as_str().unwrap_or("").to_string()).collect();
    for t in user_tables {
        let tq = t.replace('"', "\"\"");
        let cols = db.query_all_raw(st(&format!("SELECT name FROM pragma_table_info('{}')", t.replace('\'', "''")))).await.map_err(|e| e.to_string())?;
        let mut names = Vec::new();
        for c in &cols {
            let n: String = c.try_get("", "name").map_err(|e| e.to_string())?;
            names.push(format!("quote(\"{}\")", n.replace('"', "\"\"")));
        }
        if names.is_empty() {
            continue;
        }
        let q = format!("SELECT {} AS r FROM \"{}\" ORDER BY rowid", names.join(" || '|' || "), tq);
        if let Ok(rs) = db.query_all_raw(st(&q)).await {
            let mut vals = Vec::new();
            for r in &rs {
                let v: Option<String> = r.try_get("", "r").unwrap_or(None);
                vals.push(v.unwrap_or_default());
            }
            if !vals.is_empty() {
                others.push(json!(["rows", t, t, vals.join("\n")]));
            }
        }
    }
    let mut has_id = false;
    let mut vrows = Vec::new();
    if vt_exists {
        let cols = db
            .query_all_raw(st(&format!("SELECT name FROM pragma_table_info('{}')", vt.replace('\'', "''"))))
            .await
            .map_err(|e| e.to_string())?;
        for c in &cols {
            let n: String = c.try_get("", "name").map_err(|e| e.to_string())?;
            if n == "id" {
                has_id = true;
            }
        }
        let q = if has_id {
            format!("SELECT version, id FROM \"{}\" ORDER BY version", vt)
        } else {
            format!("SELECT version, NULL as id FROM \"{}\" ORDER BY version", vt)
        };
        for r in &db.query_all_raw(st(&q)).await.map_err(|e| e.to_string())? {
            let v: i64 = r.try_get("", "version").map_err(|e| e.to_string())?;
            let id: Option<String> = r.try_get("", "id").map_err(|e| e.to_string())?;
            vrows.push(json!([v, id.unwrap_or_default()]));
        }
    }
    let _ = db.close().await;
    Ok(json!({"vt_exists": vt_exists, "vt_has_id": has_id, "rows": vrows,
              "catalog": serde_json::to_string(&others).unwrap()}))
}

async fn exec_all(path: &Path, stmts: &[String]) -> Result<(), String> {
    let db = open(path).await?;
    for s in stmts {
        db.execute_raw(st(s)).await.map_err(|e| format!("{}: {}", s, e))?;
    }
    let _ = db.close().await;
    Ok(())
}

fn rm_db(path: &Path) {
    let _ = std::fs::remove_file(path);
    let _ = std::fs::remove_file(PathBuf::from(format!("{}-journal", path.display())));
    let _ = std::fs::remove_file(PathBuf::from(format!("{}-wal", path.display())));
    let _ = std::fs::remove_file(PathBuf::from(format!("{}-shm", path.display())));
}

// ------------------------------------------------------------------------------------ what the macro bakes in
/// Re-derivation of the per-migration, per-action, per-backend SQL lists with the same public library
/// calls the macro makes (lib.rs:386-401 and 62-76): loader order, with_prefix, build_plan_queries over
/// the incrementally replayed baseline (apply_action errors ignored).
fn derive(project: &Path) -> Result<(String, Vec<Value>), String> {
    use vespertide_query::DatabaseBackend as B;
    let config = vespertide_loader::load_config_or_default(Some(project.to_path_buf())).map_err(|e| e.to_string())?;
    let prefix = config.prefix().to_string();
    let migrations = vespertide_loader::load_migrations_from_dir(Some(project.to_path_buf())).map_err(|e| e.to_string())?;
    let mut baseline: Vec<vespertide_core::TableDef> = Vec::new();
    let mut out = Vec::new();
    for m in &migrations {
        let pm = m.clone().with_prefix(&prefix);
        let queries = vespertide_query::build_plan_queries(&pm, &baseline).map_err(|e| format!("v{}: {}", pm.version, e))?;
        for a in &pm.actions {
            let _ = vespertide_planner::apply_action(&mut baseline, a);
        }
        let mut actions = Vec::new();
        for q in &queries {
            let pg: Vec<String> = q.postgres.iter().map(|s| s.build(B::Postgres)).collect();
            let my: Vec<String> = q.mysql.iter().map(|s| s.build(B::MySql)).collect();
            let li: Vec<String> = q.sqlite.iter().map(|s| s.build(B::Sqlite)).collect();
            actions.push(json!({"kind": format!("{}", q.action).split_whitespace().next().unwrap_or("").to_string(),
                                "pg": pg, "mysql": my, "sqlite": li}));
        }
        out.push(json!({"version": pm.version, "id": pm.id, "actions": actions}));
    }
    Ok((prefix, out))
}

fn sqlite_stmts(m: &Value) -> Vec<String> {
    let mut v = Vec::new();
    for a in m["actions"].as_array().unwrap() {
        for s in a["sqlite"].as_array().unwrap() {
            let s = s.as_str().unwrap();
            if !s.is_empty() {
                v.push(s.to_string());
            }
        }
    }
    v
}

fn vt_name(prefix: &str, variant: u8) -> String {
    format!("{}{}", prefix, if variant >= 2 { "custom_versions" } else { "vespertide_version" })
}

// ------------------------------------------------------------------------------------ one run
async fn prepare(path: &Path, migs: &[Value], vt: &str, init: &Value) -> Result<Value, String> {
    rm_db(path);
    let k = init["k"].as_u64().unwrap_or(0) as usize;
    let mut stmts: Vec<String> = Vec::new();
    if let Some(given) = init["stmts"].as_array() {
        // explicit preparation list (histories whose statements carry their own transaction control are
        // prepared from the effective components)
        stmts.extend(given.iter().filter_map(|x| x.as_str().map(|s| s.to_string())));
    } else {
        for m in migs.iter().take(k) {
            stmts.extend(sqlite_stmts(m));
        }
    }
    let applied = stmts.clone();
    let layout = init["vt"].as_str().unwrap_or("absent").to_string();
    let mut rows: Vec<(i64, String)> = Vec::new();
    if let Some(r) = init["rows"].as_array() {
        for x in r {
            rows.push((x[0].as_i64().unwrap(), x[1].as_str().unwrap_or("").to_string()));
        }
    } else if layout != "absent" {
        for m in migs.iter().take(k) {
            rows.push((m["version"].as_i64().unwrap(), m["id"].as_str().unwrap_or("").to_string()));
        }
    }
    match layout.as_str() {
        "absent" => {}
        "current" => {
            stmts.push(format!("CREATE TABLE \"{}\" (version INTEGER PRIMARY KEY, id TEXT DEFAULT '', created_at TIMESTAMP DEFAULT CURRENT_TIMESTAMP)", vt));
            for (v, id) in &rows {
                stmts.push(format!("INSERT INTO \"{}\" (version, id) VALUES ({}, '{}')", vt, v, id.replace('\'', "''")));
            }
        }
        "legacy" => {
            stmts.push(format!("CREATE TABLE \"{}\" (version INTEGER PRIMARY KEY, created_at TIMESTAMP DEFAULT CURRENT_TIMESTAMP)", vt));
            for (v, _) in &rows {
                stmts.push(format!("INSERT INTO \"{}\" (version) VALUES ({})", vt, v));
            }
        }
        other => return Err(format!("unknown vt layout {}", other)),
    }
    exec_all(path, &stmts).await?;
    // obstacles: objects created by hand before the run (natural engine failures of pending statements)
    let mut applied = applied;
    let mut obstacle_error = Value::Null;
    if let Some(obs) = init["obstacles"].as_array() {
        let obs: Vec<String> = obs.iter().filter_map(|x| x.as_str().map(|s| s.to_string())).collect();
        match exec_all(path, &obs).await {
            Ok(()) => applied.extend(obs),
            Err(e) => obstacle_error = json!(e),
        }
    }
    Ok(json!({"k": k, "vt": layout, "applied": applied, "obstacle_error": obstacle_error, "obstacles": init["obstacles"].clone()}))
}

async fn do_run(dispatch: Dispatch, migs: &[Value], prefix: &str, work: &Path, run: &Value) -> Result<Value, String> {
    let name = run["name"].as_str().unwrap_or("run").to_string();
    let variant = run["variant"].as_u64().unwrap_or(0) as u8;
    let backend = match run["backend"].as_str().unwrap_or("sqlite") {
        "postgres" => DbBackend::Postgres,
        "mysql" => DbBackend::MySql,
        _ => DbBackend::Sqlite,
    };
    let dry = backend != DbBackend::Sqlite;
    let vt = vt_name(prefix, variant);
    let q = if backend == DbBackend::MySql { '`' } else { '"' };
    let path = match run["db"].as_str() {
        Some(p) => PathBuf::from(p),
        None => work.join(format!("{}.db", name)),
    };
    let init_echo = if run["reuse"].as_bool().unwrap_or(false) {
        json!({"reuse": true})
    } else {
        prepare(&path, migs, &vt, &run["init"]).await?
    };
    let before = observe(&path, &vt).await?;

    let specs: Vec<Value> = run["instances"].as_array().cloned().unwrap_or_else(|| vec![json!({})]);
    let n = specs.len();
    let sched = Rc::new(RefCell::new(Sched {
        slots: (0..n).map(|_| Slot { waiting: None, finished: false }).collect(),
        notify: Rc::new(Notify::new()),
    }));
    let mut conns = Vec::new();
    for (pid, s) in specs.iter().enumerate() {
        let db = open(&path).await?;
        let faults: Vec<usize> = s["faults"].as_array().map(|a| a.iter().map(|x| x.as_u64().unwrap() as usize).collect()).unwrap_or_default();
        let abort_at = s["abort_at"].as_u64().map(|x| x as usize);
        let fault_err = (s["fault_class"].as_str().unwrap_or("custom").to_string(), s["fault_text"].as_str().unwrap_or("injected fault").to_string());
        let sfaults: Vec<(String, String, String)> = s["sfaults"].as_array().map(|a| a.iter().map(|x| (
            x["sql"].as_str().unwrap_or("").to_string(), x["class"].as_str().unwrap_or("custom").to_string(), x["text"].as_str().unwrap_or("injected fault").to_string())).collect()).unwrap_or_default();
        let logfile = s["logfile"].as_str().map(PathBuf::from);
        conns.push(Conn {
            inner: Rc::new(ConnInner {
                pid,
                db,
                backend,
                dry,
                vt_insert_prefix: format!("INSERT INTO {q}{}{q} (version, id)", vt),
                faults,
                fault_err,
                sfaults,
                abort_at,
                n: Cell::new(0),
                log: RefCell::new(Vec::new()),
                logfile,
                sched: sched.clone(),
            }),
        });
    }
    let results: Rc<RefCell<Vec<Option<Value>>>> = Rc::new(RefCell::new(vec![None; n]));
    let mut handles = Vec::new();
    for (pid, c) in conns.iter().enumerate() {
        let c = c.clone();
        let sched = sched.clone();
        let results = results.clone();
        handles.push(tokio::task::spawn_local(async move {
            let r = dispatch(variant, c.clone()).await;
            // sea-orm's Drop only *queues* the rollback on the connection's worker thread: synchronise
            // with it (and give the connection back) before the scheduler lets anybody else move
            let _ = c.inner.db.execute_unprepared("SELECT 1").await;
            let _ = c.inner.db.close_by_ref().await;
            let v = match r {
                Ok(()) => json!({"kind": "ok"}),
                Err(vespertide::MigrationError::DatabaseError(m)) => json!({"kind": "database_error", "msg": m}),
                Err(vespertide::MigrationError::IdMismatch { version, expected, found }) => {
                    json!({"kind": "id_mismatch", "version": version, "expected": expected, "found": found})
                }
                Err(e) => json!({"kind": "other", "msg": e.to_string()}),
            };
            results.borrow_mut()[pid] = Some(v);
            let mut s = sched.borrow_mut();
            s.slots[pid].finished = true;
            s.notify.notify_one();
        }));
    }
    // the scheduler owns every step
    let mut effective: Vec<usize> = Vec::new();
    let given: Vec<usize> = run["schedule"].as_array().map(|a| a.iter().map(|x| x.as_u64().unwrap() as usize).collect()).unwrap_or_default();
    let grant = async |pid: usize, effective: &mut Vec<usize>| {
        if pid >= n {
            return;
        }
        wait_ready(&sched, pid).await;
        let tx = {
            let mut s = sched.borrow_mut();
            if s.slots[pid].finished { None } else { s.slots[pid].waiting.take() }
        };
        if let Some(tx) = tx {
            effective.push(pid);
            let _ = tx.send(());
            // let the instance run until it asks for its next step or finishes
            tokio::task::yield_now().await;
            wait_ready(&sched, pid).await;
        }
    };
    for pid in given {
        grant(pid, &mut effective).await;
    }
    let is_finished = |pid: usize| sched.borrow().slots[pid].finished;
    let sequential = run["mode"].as_str() == Some("sequential");
    let late: Vec<usize> = run["late"].as_array().map(|a| a.iter().map(|x| x.as_u64().unwrap() as usize).collect()).unwrap_or_default();
    let mut mids: Vec<Value> = Vec::new();
    if sequential {
        // one instance after the other, in pid order; the database is observed after each
        for pid in 0..n {
            while !is_finished(pid) {
                grant(pid, &mut effective).await;
            }
            mids.push(observe(&path, &vt).await?);
            // statements run by hand after this instance (e.g. the obstacle is removed before the re-run)
            if let Some(b) = run["between"][pid].as_array() {
                let b: Vec<String> = b.iter().filter_map(|x| x.as_str().map(|s| s.to_string())).collect();
                exec_all(&path, &b).await?;
            }
        }
    } else {
        loop {
            let pending: Vec<usize> = (0..n).filter(|p| !is_finished(*p) && !late.contains(p)).collect();
            if pending.is_empty() {
                break;
            }
            for pid in pending {
                grant(pid, &mut effective).await;
            }
        }
        // late instances (retries) start only when everybody else has finished
        for pid in late.iter().copied().filter(|p| *p < n) {
            while !is_finished(pid) {
                grant(pid, &mut effective).await;
            }
        }
    }
    for h in handles {
        let _ = h.await;
    }
    let after = observe(&path, &vt).await?;
    let insts: Vec<Value> = (0..n)
        .map(|pid| json!({"log": conns[pid].inner.log.borrow().clone(), "result": results.borrow()[pid].clone(),
                          "faults": specs[pid]["faults"].clone(), "sfaults": specs[pid]["sfaults"].clone(),
                          "fault_class": specs[pid]["fault_class"].clone(), "fault_text": specs[pid]["fault_text"].clone()}))
        .collect();
    if !run["keep_db"].as_bool().unwrap_or(false) {
        rm_db(&path);
    }
    Ok(json!({"name": name, "variant": variant, "backend": run["backend"].as_str().unwrap_or("sqlite"), "dry": dry,
              "vt": vt, "init": init_echo, "before": before, "after": after, "instances": insts,
              "schedule": effective, "sequential": sequential, "mids": mids, "between": run["between"].clone(), "tags": run["tags"].clone()}))
}

async fn refcats(migs: &[Value], work: &Path) -> Result<Vec<Value>, String> {
    // catalog of the first i migrations' statements executed directly (no migrator), for i = 0..n
    let mut out = Vec::new();
    for i in 0..=migs.len() {
        let path = work.join(format!("ref_{}.db", i));
        rm_db(&path);
        let mut stmts = Vec::new();
        for m in migs.iter().take(i) {
            stmts.extend(sqlite_stmts(m));
        }
        let r = exec_all(&path, &stmts).await;
        let cat = match r {
            Ok(()) => observe(&path, "\u{0}no-such-table").await?["catalog"].clone(),
            Err(e) => json!(format!("ERROR {}", e)),
        };
        rm_db(&path);
        out.push(json!({"n_migs": i, "stmts": stmts, "catalog": cat}));
    }
    Ok(out)
}

/// `migcase <spec.json> <out.json>`; spec = {"work": dir, "runs": [...]}
pub fn main(dispatch: Dispatch, case_hash: &str, manifest_dir: &str) {
    let args: Vec<String> = std::env::args().collect();
    if args.len() < 3 {
        eprintln!("usage: migcase <spec.json> <out.json>   (case {})", case_hash);
        std::process::exit(2);
    }
    let spec: Value = serde_json::from_str(&std::fs::read_to_string(&args[1]).expect("read spec")).expect("parse spec");
    let project = PathBuf::from(spec["project"].as_str().unwrap_or(manifest_dir));
    let work = PathBuf::from(spec["work"].as_str().expect("work dir"));
    std::fs::create_dir_all(&work).expect("work dir");
    let (prefix, migs) = match derive(&project) {
        Ok(x) => x,
        Err(e) => {
            eprintln!("derive failed: {}", e);
            std::process::exit(3);
        }
    };
    let rt = tokio::runtime::Builder::new_current_thread().enable_all().build().expect("runtime");
    let local = tokio::task::LocalSet::new();
    let out = local.block_on(&rt, async {
        let mut runs = Vec::new();
        let refs = if spec["no_refcats"].as_bool().unwrap_or(false) { Vec::new() } else { refcats(&migs, &work).await.unwrap_or_else(|e| vec![json!({"error": e})]) };
        for run in spec["runs"].as_array().cloned().unwrap_or_default() {
            match do_run(dispatch, &migs, &prefix, &work, &run).await {
                Ok(v) => runs.push(v),
                Err(e) => runs.push(json!({"name": run["name"], "harness_error": e})),
            }
        }
        // catalogs of explicitly given statement lists (direct execution on a fresh database)
        let mut extra = Vec::new();
        for (n, key) in spec["refcat_keys"].as_array().cloned().unwrap_or_default().iter().enumerate() {
            let stmts: Vec<String> = key.as_array().map(|a| a.iter().filter_map(|x| x.as_str().map(|s| s.to_string())).collect()).unwrap_or_default();
            let path = work.join(format!("refx_{}.db", n));
            rm_db(&path);
            let cat = match exec_all(&path, &stmts).await {
                Ok(()) => match observe(&path, "\u{0}no-such-table").await { Ok(o) => o["catalog"].clone(), Err(e) => json!(format!("ERROR {}", e)) },
                Err(e) => json!(format!("ERROR {}", e)),
            };
            rm_db(&path);
            extra.push(json!({"stmts": stmts, "catalog": cat}));
        }
        json!({"case_hash": case_hash, "project": project.display().to_string(), "prefix": prefix, "migs": migs,
               "refcats": refs, "refcats_extra": extra, "runs": runs})
    });
    std::fs::write(&args[2], serde_json::to_string(&out).unwrap()).expect("write out");
}
