//! hexp: correspondence cases and implementation-side oracles for layer EXP (C16, C17, C18).
//!   hexp gen      --seed S --n N --disp R --evolutions E --steps K --out DIR [--corpus DIR] [--per-shard P]
//!   hexp render   --cases DIR/cases.jsonl --out FILE          (fresh process: hash of every render)
//!   hexp render1  --cases DIR/cases.jsonl --case I --table J  (one SeaORM render; may overflow the stack)
//!   hexp c16      --cases DIR/c16cases.jsonl --start I [--skip stage,stage]   (O-C16 batch)
//!   hexp gallina  --models FILE.json | --action FILE.json     (Gallina term of a replay input)
mod advgen;
mod seaparse;

use std::fmt::Write as _;
use std::io::Write as _;
use std::panic::{AssertUnwindSafe, catch_unwind};
use std::path::{Path, PathBuf};

use serde_json::{Value, json};
use vcommon::fill::revision_fill;
use vcommon::gallina::G;
use vcommon::gener::{self, Profile};
use vcommon::rng::Rng;
use vespertide_core::{MigrationAction, MigrationPlan, TableDef};
use vespertide_exporter::{Orm, render_entity_with_schema};
use vespertide_planner::{plan_next_migration, schema_from_plans};
use vespertide_query::{DatabaseBackend, build_plan_queries};

fn arg(args: &[String], k: &str, d: &str) -> String {
    args.iter().position(|a| a == k).and_then(|i| args.get(i + 1).cloned()).unwrap_or_else(|| d.to_string())
}

const ORMS: [(Orm, &str); 3] = [(Orm::SeaOrm, "seaorm"), (Orm::SqlAlchemy, "sqlalchemy"), (Orm::SqlModel, "sqlmodel")];

fn fnv(s: &str) -> u64 {
    let mut h: u64 = 0xcbf29ce484222325;
    for b in s.as_bytes() {
        h ^= *b as u64;
        h = h.wrapping_mul(0x100000001b3);
    }
    h
}

/// Long runs of one character inside the string literals of a Gallina term are written as
/// `rep_str "c" n` (Corr/CorrExp.v): Coq needs minutes to read a 64 KiB literal.
fn compress_literals(g: &str) -> String {
    let b: Vec<char> = g.chars().collect();
    let mut out = String::with_capacity(g.len().min(1 << 16));
    let mut i = 0;
    while i < b.len() {
        if b[i] != '"' {
            out.push(b[i]);
            i += 1;
            continue;
        }
        // literal: up to the closing quote ("" is an escaped quote)
        let mut j = i + 1;
        let mut content: Vec<char> = vec![];
        loop {
            if j >= b.len() {
                break;
            }
            if b[j] == '"' {
                if j + 1 < b.len() && b[j + 1] == '"' {
                    content.push('"');
                    j += 2;
                    continue;
                }
                break;
            }
            content.push(b[j]);
            j += 1;
        }
        let lit = |cs: &[char]| -> String {
            let mut s = String::from("\"");
            for c in cs {
                if *c == '"' {
                    s.push_str("\"\"");
                } else {
                    s.push(*c);
                }
            }
            s.push('"');
            s
        };
        if content.len() < 600 {
            out.push_str(&lit(&content));
        } else {
            let mut segs: Vec<String> = vec![];
            let mut k = 0;
            let mut plain_start = 0;
            while k < content.len() {
                let mut r = k;
                while r < content.len() && content[r] == content[k] {
                    r += 1;
                }
                if r - k >= 256 {
                    if plain_start < k {
                        segs.push(lit(&content[plain_start..k]));
                    }
                    segs.push(format!("rep_str {} {}%N", lit(&content[k..k + 1]), r - k));
                    plain_start = r;
                }
                k = r;
            }
            if plain_start < content.len() {
                segs.push(lit(&content[plain_start..]));
            }
            out.push('(');
            out.push_str(&segs.join(" +++ "));
            out.push(')');
        }
        i = j + 1;
    }
    out
}

/// SeaORM export configuration of a case: vespertide-config's SeaOrmConfig plus the table prefix
#[derive(Clone, Debug, serde::Serialize, serde::Deserialize)]
struct ExportCfg {
    #[serde(default)]
    seaorm: vespertide_config::SeaOrmConfig,
    #[serde(default)]
    prefix: String,
}
impl Default for ExportCfg {
    fn default() -> Self {
        ExportCfg { seaorm: vespertide_config::SeaOrmConfig::default(), prefix: String::new() }
    }
}
impl G for ExportCfg {
    fn g(&self, o: &mut String) {
        let case = match self.seaorm.enum_naming_case {
            vespertide_config::NameCase::Snake => "CaseSnake",
            vespertide_config::NameCase::Camel => "CaseCamel",
            vespertide_config::NameCase::Pascal => "CasePascal",
        };
        let _ = write!(o, "(mkSeaCfg {} {} {} {} {})", self.seaorm.extra_enum_derives.gs(), self.seaorm.extra_model_derives.gs(), case,
            self.seaorm.vespera_schema_type.gs(), self.prefix.gs());
    }
}

const DERIVE_POOL: &[&str] = &["Serialize", "Deserialize", "Hash", "Default", "PartialOrd", "Ord", "vespera::Schema", "utoipa::ToSchema", "Clone", "Eq", "Copy"];

fn gen_derives(rng: &mut Rng) -> Vec<String> {
    let n = match rng.below(4) {
        0 => 0,
        1 => 1,
        _ => rng.range(3, 5),
    };
    let mut v: Vec<String> = (0..n).map(|_| rng.pick(DERIVE_POOL).to_string()).collect();
    // a duplicate (of a configured or of a built-in derive) now and then: the exporter keeps it
    if n >= 3 && rng.chance(1, 3) {
        let d = v[0].clone();
        v.push(d);
    }
    v
}

fn gen_cfg(rng: &mut Rng) -> ExportCfg {
    let mut c = ExportCfg::default();
    if rng.chance(1, 6) {
        return c;
    }
    c.seaorm.extra_model_derives = gen_derives(rng);
    c.seaorm.extra_enum_derives = if rng.chance(1, 3) { vec!["vespera::Schema".to_string()] } else { gen_derives(rng) };
    c.seaorm.enum_naming_case = *rng.pick(&[vespertide_config::NameCase::Snake, vespertide_config::NameCase::Camel, vespertide_config::NameCase::Pascal]);
    c.seaorm.vespera_schema_type = rng.chance(1, 2);
    c.prefix = rng.pick(&["", "", "app_", "x"]).to_string();
    c
}

/// wall-clock cap for one in-process render (an ordinary render takes well under a millisecond)
const RENDER_CAP_MS: u64 = 2000;

/// Run a render on its own thread and wait at most RENDER_CAP_MS: a hang of the exporter (an endless loop) becomes
/// the outcome Err("timeout") of that render instead of a hang of the harness.  The spinning thread is abandoned
/// (it dies with the process).  Stack overflows are not survivable this way: FK-cyclic slices go to a child process.
fn timed<F: FnOnce() -> Result<String, String> + Send + 'static>(f: F) -> Result<String, String> {
    let (tx, rx) = std::sync::mpsc::channel();
    std::thread::spawn(move || {
        let r = catch_unwind(AssertUnwindSafe(f)).unwrap_or_else(|_| Err("panic".into()));
        let _ = tx.send(r);
    });
    match rx.recv_timeout(std::time::Duration::from_millis(RENDER_CAP_MS)) {
        Ok(r) => r,
        Err(_) => Err("timeout".into()),
    }
}

fn render_cfg(t: &TableDef, schema: &[TableDef], cfg: &ExportCfg) -> Result<String, String> {
    let (t, schema, cfg) = (t.clone(), schema.to_vec(), cfg.clone());
    timed(move || Ok(vespertide_exporter::seaorm::render_entity_with_config(&t, &schema, &cfg.seaorm, &cfg.prefix)))
}

fn sea_o17(d: &seaparse::Decl, names: &[String], text: &str) -> Vec<String> {
    let mut o = seaparse::oracle(d, names);
    o.extend(seaparse::text_oracle(text));
    o
}

/// the lines of a SeaORM entity that depend on the export configuration, in output order
fn cfg_lines(text: &str) -> Vec<String> {
    text.split('\n')
        .filter(|l| l.starts_with("#[derive(") || l.starts_with("#[serde(rename_all") || l.starts_with("#[sea_orm(table_name") || l.starts_with("vespera::schema_type!"))
        .map(|l| l.to_string())
        .collect()
}

fn render(orm: Orm, t: &TableDef, schema: &[TableDef]) -> Result<String, String> {
    let (t, schema) = (t.clone(), schema.to_vec());
    timed(move || render_entity_with_schema(orm, &t, &schema).map_err(|e| format!("error: {}", e)))
}

/// non-empty lines before the first `class ` line, and the name of the last class (the table class)
fn py_header(text: &str) -> (Vec<String>, String) {
    let mut imports = vec![];
    let mut in_header = true;
    let mut class = String::new();
    for l in text.split('\n') {
        if l.starts_with("class ") {
            in_header = false;
            class = l["class ".len()..].split('(').next().unwrap_or("").to_string();
        }
        if in_header && !l.is_empty() {
            imports.push(l.to_string());
        }
    }
    (imports, class)
}

fn read_models_corpus(dir: &str) -> Vec<(String, Vec<TableDef>, Option<ExportCfg>)> {
    let mut out = vec![];
    if dir.is_empty() {
        return out;
    }
    let Ok(rd) = std::fs::read_dir(dir) else { return out };
    let mut files: Vec<_> = rd.filter_map(|e| e.ok()).map(|e| e.path()).filter(|p| p.extension().map(|x| x == "json").unwrap_or(false)).collect();
    files.sort();
    for f in files {
        let Ok(txt) = std::fs::read_to_string(&f) else { continue };
        let Ok(v) = serde_json::from_str::<Value>(&txt) else { continue };
        if let Some(ms) = v.get("models").and_then(|m| serde_json::from_value::<Vec<TableDef>>(m.clone()).ok()) {
            let cfg = v.get("config").and_then(|c| serde_json::from_value::<ExportCfg>(c.clone()).ok());
            out.push((f.file_name().unwrap().to_string_lossy().to_string(), ms, cfg));
        }
    }
    out
}

fn read_actions_corpus(dir: &str) -> Vec<(String, MigrationAction)> {
    let mut out = vec![];
    if dir.is_empty() {
        return out;
    }
    let Ok(rd) = std::fs::read_dir(dir) else { return out };
    let mut files: Vec<_> = rd.filter_map(|e| e.ok()).map(|e| e.path()).filter(|p| p.extension().map(|x| x == "json").unwrap_or(false)).collect();
    files.sort();
    for f in files {
        let Ok(txt) = std::fs::read_to_string(&f) else { continue };
        let Ok(v) = serde_json::from_str::<Value>(&txt) else { continue };
        if let Some(a) = v.get("action").and_then(|m| serde_json::from_value::<MigrationAction>(m.clone()).ok()) {
            out.push((f.file_name().unwrap().to_string_lossy().to_string(), a));
        }
    }
    out
}

/// run `hexp render1` on one table in a child process; Some(text) if it returns, None if it dies or hangs
fn render_in_child(cases: &Path, case: usize, table: usize, cap_ms: u64, with_cfg: bool) -> (Option<String>, String) {
    let exe = std::env::current_exe().unwrap();
    let mut child = match std::process::Command::new(exe)
        .args(["render1", "--cases", cases.to_str().unwrap(), "--case", &case.to_string(), "--table", &table.to_string(), "--cfg", if with_cfg { "1" } else { "0" }])
        .stdout(std::process::Stdio::piped())
        .stderr(std::process::Stdio::null())
        .spawn()
    {
        Ok(c) => c,
        Err(e) => return (None, format!("spawn: {}", e)),
    };
    let t0 = std::time::Instant::now();
    loop {
        match child.try_wait() {
            Ok(Some(st)) => {
                let mut s = String::new();
                if let Some(mut o) = child.stdout.take() {
                    use std::io::Read;
                    let _ = o.read_to_string(&mut s);
                }
                if st.success() {
                    return (Some(s), "exit 0".into());
                }
                return (None, format!("{}", st));
            }
            Ok(None) => {
                if t0.elapsed().as_millis() as u64 > cap_ms {
                    let _ = child.kill();
                    let _ = child.wait();
                    return (None, format!("timeout after {} ms", cap_ms));
                }
                std::thread::sleep(std::time::Duration::from_millis(20));
            }
            Err(e) => return (None, format!("wait: {}", e)),
        }
    }
}

fn cmd_gen(args: &[String]) {
    let seed: u64 = arg(args, "--seed", "1").parse().unwrap_or(1);
    let n: usize = arg(args, "--n", "100").parse().unwrap();
    let ndisp: usize = arg(args, "--disp", "200").parse().unwrap();
    let nevo: usize = arg(args, "--evolutions", "40").parse().unwrap();
    let steps: usize = arg(args, "--steps", "3").parse().unwrap();
    let per: usize = arg(args, "--per-shard", "25").parse().unwrap();
    let max_cyclic: usize = arg(args, "--max-cyclic", "3").parse().unwrap();
    // wall-clock cap for one SeaORM render in a child process (an ordinary render takes a few milliseconds)
    let cap_ms: u64 = arg(args, "--cap-ms", "2500").parse().unwrap();
    // renders per table and Python ORM whose import blocks are all handed to K-exp
    let py_reps: usize = arg(args, "--py-reps", "8").parse().unwrap();
    let sea_cfg_reps: usize = arg(args, "--sea-cfg-reps", "6").parse().unwrap();
    let outdir = PathBuf::from(arg(args, "--out", "out"));
    let corpus = arg(args, "--corpus", "");
    std::fs::create_dir_all(&outdir).unwrap();
    let mut rng = Rng::new(seed);
    // panics of the implementation are outcomes here (caught); keep stderr quiet
    std::panic::set_hook(Box::new(|_| {}));

    // ---------------------------------------------------------------- model sets (K-exp, O-C17, O-C18)
    let mut sets: Vec<(String, Vec<TableDef>)> = vec![];
    let mut corpus_cfgs: Vec<Option<ExportCfg>> = vec![];
    for (name, ms, cfg) in read_models_corpus(&corpus) {
        // corpus files hold model files as the user writes them: normalise like `vespertide export`
        let slice = advgen::normalized_slice(&ms).unwrap_or(ms);
        sets.push((format!("corpus:{}", name), slice));
        corpus_cfgs.push(cfg);
    }
    // systematic import coverage: every pair of import features in one table, singles, all-at-once
    if arg(args, "--import-pairs", "1") == "1" {
        for m in advgen::gen_import_sets(6) {
            sets.push(("import-pairs".to_string(), m));
        }
    }
    // systematic single-column FK chains: acyclic, cycles, rho shapes (tail into a cycle)
    let mut n_chain_sets = 0usize;
    if arg(args, "--fk-chains", "1") == "1" {
        for m in advgen::gen_fk_chain_sets() {
            sets.push(("fk-chains".to_string(), m));
            n_chain_sets += 1;
        }
    }
    // systematic column defaults for every branch of the exporters' default handling
    if arg(args, "--default-shapes", "1") == "1" {
        for m in advgen::gen_default_sets() {
            sets.push(("default-shapes".to_string(), m));
        }
    }
    // free text (descriptions, comments) with line breaks, quotes, backslashes ...
    if arg(args, "--text-shapes", "1") == "1" {
        for m in advgen::gen_text_sets() {
            sets.push(("text-shapes".to_string(), m));
        }
    }
    // relation-enum collisions on tables whose name is made of separators / digits / symbols only
    if arg(args, "--relenum", "1") == "1" {
        for m in advgen::gen_relenum_sets() {
            sets.push(("relenum-collide".to_string(), m));
            n_chain_sets += 1;
        }
    }
    // systematic name shapes for every sanitising function
    if arg(args, "--name-shapes", "1") == "1" {
        for m in advgen::gen_name_shape_sets() {
            sets.push(("name-shapes".to_string(), m));
        }
    }
    let mut cyclic_budget = max_cyclic;
    for k in 0..n {
        let odd = rng.chance(1, 3);
        let (tag, m) = if k % 2 == 0 {
            let allow_cycle = cyclic_budget > 0 && rng.chance(1, 6);
            let m = advgen::gen_fk_models(&mut rng, odd, allow_cycle);
            if m.iter().any(|t| advgen::fk_cycle_from(&m, t)) {
                cyclic_budget = cyclic_budget.saturating_sub(1);
            }
            (if odd { "fk-shapes+identifiers" } else { "fk-shapes" }, m)
        } else {
            (if odd { "loader-profile+identifiers" } else { "loader-profile" }, advgen::gen_plain_models(&mut rng, odd))
        };
        if !m.is_empty() {
            sets.push((tag.to_string(), m));
        }
    }
    // the SeaORM export configuration is part of the input: one per model set (a corpus file may fix its own)
    let cfgs: Vec<ExportCfg> = (0..sets.len()).map(|i| match corpus_cfgs.get(i) {
        Some(Some(c)) => c.clone(),
        _ => gen_cfg(&mut rng),
    }).collect();
    let cases_path = outdir.join("cases.jsonl");
    {
        let mut s = String::new();
        for (i, (tag, m)) in sets.iter().enumerate() {
            let cyc: Vec<bool> = m.iter().map(|t| advgen::fk_cycle_from(m, t)).collect();
            let _ = writeln!(s, "{}", json!({"idx": i, "tag": tag, "models": m, "cyclic": cyc, "config": cfgs[i]}));
        }
        std::fs::write(&cases_path, s).unwrap();
    }
    let mut shard_cases: Vec<String> = vec![];
    let mut hung_tables: Vec<(usize, usize)> = vec![];
    let mut obs_lines = String::new();
    let mut texts = String::new();
    for (i, (tag, m)) in sets.iter().enumerate() {
        let names: Vec<String> = m.iter().map(|t| t.name.clone()).collect();
        let mut xts: Vec<String> = vec![];
        let mut tabs: Vec<Value> = vec![];
        for (j, t) in m.iter().enumerate() {
            let cyclic = advgen::fk_cycle_from(m, t);
            // --- SeaORM
            let (sea_g, sea_j, sea_text) = if cyclic {
                let (r, how) = render_in_child(&cases_path, i, j, cap_ms, false);
                match r {
                    Some(text) => match seaparse::parse(&text) {
                        Ok(d) => (format!("(SeaOk {})", d.gs()), json!({"status": "ok", "subprocess": how, "o17": sea_o17(&d, &names, &text)}), Some(text)),
                        Err(e) => ("SeaPanic".to_string(), json!({"status": "unparsed", "why": e}), Some(text)),
                    },
                    None => ("SeaDiverged".to_string(), json!({"status": "diverged", "subprocess": how}), None),
                }
            } else {
                match render(Orm::SeaOrm, t, m) {
                    Ok(text) => match seaparse::parse(&text) {
                        Ok(d) => (format!("(SeaOk {})", d.gs()), json!({"status": "ok", "o17": sea_o17(&d, &names, &text)}), Some(text)),
                        Err(e) => ("SeaPanic".to_string(), json!({"status": "unparsed", "why": e}), Some(text)),
                    },
                    Err(e) if e == "timeout" => ("SeaDiverged".to_string(), json!({"status": "diverged", "subprocess": format!("in-process render thread: no result after {} ms", RENDER_CAP_MS)}), None),
                    Err(e) => ("SeaPanic".to_string(), json!({"status": e}), None),
                }
            };
            // a table whose SeaORM render hung is not rendered for SeaORM again (configuration, repeats, permutations, fresh processes)
            let hung = sea_j["status"] == "diverged" && !cyclic;
            if hung {
                hung_tables.push((i, j));
            }
            let cyclic = cyclic || hung;
            // --- Python ORMs (they ignore the slice)
            let sa = render(Orm::SqlAlchemy, t, m);
            let sm = render(Orm::SqlModel, t, m);
            let (_, sa_class) = sa.as_ref().map(|x| py_header(x)).unwrap_or_default();
            // every distinct import block over the repeated renders goes to K-exp (order inside the lines included)
            let mut sa_variants: Vec<Vec<String>> = vec![];
            let mut sm_variants: Vec<Vec<String>> = vec![];
            let mut py_rep = std::collections::BTreeMap::new();
            for (orm, oname, first, variants) in [(Orm::SqlAlchemy, "sqlalchemy", &sa, &mut sa_variants), (Orm::SqlModel, "sqlmodel", &sm, &mut sm_variants)] {
                let mut same = true;
                for k in 0..py_reps {
                    let x = if k == 0 { first.clone() } else { render(orm, t, m) };
                    if x != *first {
                        same = false;
                    }
                    if let Ok(text) = &x {
                        let h = py_header(text).0;
                        if !variants.contains(&h) {
                            variants.push(h);
                        }
                    }
                }
                py_rep.insert(oname, same);
            }
            let invalid: Vec<String> = sea_j["o17"].as_array().map(|a| a.iter().filter_map(|x| x.as_str()).filter(|x| x.starts_with("invalid-")).map(|x| x.to_string()).collect()).unwrap_or_default();
            // per column, in order: does the SQLModel Field(...) line wrap the default in text("...")?
            let sm_text: Vec<bool> = match &sm {
                Ok(text) => {
                    let ls: Vec<&str> = text.split('\n').collect();
                    let mut at = 0usize;
                    t.columns.iter().map(|c| {
                        let prefix = format!("    {}: ", c.name);
                        let mut hit = false;
                        for k in at..ls.len() {
                            if ls[k].starts_with(&prefix) && ls[k].contains(" = Field(") {
                                hit = ls[k].contains("\"server_default\": text(");
                                at = k + 1;
                                break;
                            }
                        }
                        hit
                    }).collect()
                }
                Err(_) => vec![],
            };
            // per column, in order: the annotation of its field in the two Python outputs
            let ann_of = |text: &Result<String, String>, open: &str, close: &str| -> Vec<String> {
                let Ok(text) = text else { return vec![] };
                let ls: Vec<&str> = text.split('\n').collect();
                let mut at = 0usize;
                t.columns.iter().map(|c| {
                    let prefix = format!("    {}: {}", c.name, open);
                    for k in at..ls.len() {
                        if let Some(rest) = ls[k].strip_prefix(&prefix) {
                            if let Some(e) = rest.find(close) {
                                at = k + 1;
                                return rest[..e].to_string();
                            }
                        }
                    }
                    "<missing>".to_string()
                }).collect()
            };
            let sm_ann = ann_of(&sm, "", " = Field(");
            let sa_ann = ann_of(&sa, "Mapped[", "] = mapped_column(");
            // SeaORM under the case's configuration: repeated renders, byte comparison, configuration lines to K-exp
            let cfg = &cfgs[i];
            let mut cfg_variants: Vec<Vec<String>> = vec![];
            let mut cfg_rep = true;
            let cfg_first: Result<String, String> = if hung {
                Err("diverged".to_string())
            } else if cyclic {
                render_in_child(&cases_path, i, j, cap_ms, true).0.ok_or_else(|| "diverged".to_string())
            } else {
                render_cfg(t, m, cfg)
            };
            for k in 0..(if hung { 0 } else { sea_cfg_reps }) {
                let x = if k == 0 { cfg_first.clone() } else if cyclic { render_in_child(&cases_path, i, j, cap_ms, true).0.ok_or_else(|| "diverged".to_string()) } else { render_cfg(t, m, cfg) };
                if x != cfg_first {
                    cfg_rep = false;
                }
                if let Ok(text) = &x {
                    let ls = cfg_lines(text);
                    if !cfg_variants.contains(&ls) {
                        cfg_variants.push(ls);
                    }
                }
                if cyclic && k >= 1 {
                    break;
                }
            }
            let cfg_obs = json!({"rep": cfg_rep, "perm": true, "hash": cfg_first.as_ref().map(|x| format!("{:016x}", fnv(x))).unwrap_or_else(|e| e.clone()),
                "variants": if cfg_rep { Value::Null } else { json!(cfg_variants) }});
            xts.push(format!("(mkXT {} {} {} {} {} {} {} {} {})", sea_g, sa_variants.gs(), sm_variants.gs(), sa_class.gs(), invalid.gs(), sm_text.gs(), cfg_variants.gs(), sm_ann.gs(), sa_ann.gs()));
            // --- O-C18 in process: repeated renders and permuted slices
            let mut c18 = serde_json::Map::new();
            for (orm, oname) in ORMS {
                if cyclic && oname == "seaorm" {
                    continue;
                }
                let base = render(orm, t, m);
                let mut rep = py_rep.get(oname).copied().unwrap_or(true);
                for _ in 0..3 {
                    if render(orm, t, m) != base {
                        rep = false;
                    }
                }
                let mut perm = true;
                let mut variants: Vec<Vec<TableDef>> = vec![];
                let mut r = m.clone();
                r.reverse();
                variants.push(r);
                if m.len() > 2 {
                    let mut r = m.clone();
                    r.rotate_left(1);
                    variants.push(r);
                    let mut r = m.clone();
                    rng.shuffle(&mut r);
                    variants.push(r);
                }
                let mut other = None;
                for v in &variants {
                    let x = render(orm, t, v);
                    if x != base {
                        perm = false;
                        other = Some((v.iter().map(|t| t.name.clone()).collect::<Vec<_>>(), x.unwrap_or_else(|e| e)));
                    }
                }
                c18.insert(oname.into(), json!({"rep": rep, "perm": perm, "hash": base.as_ref().map(|x| format!("{:016x}", fnv(x))).unwrap_or_else(|e| e.clone()),
                    "perm_diff": other.map(|(o, x)| json!({"order": o, "text": x}))}));
            }
            for (oname, text) in [("seaorm", sea_text.clone()), ("sqlalchemy", sa.clone().ok()), ("sqlmodel", sm.clone().ok())] {
                if let Some(x) = text {
                    let _ = writeln!(texts, "{}", json!({"case": i, "table": j, "orm": oname, "text": x}));
                }
            }
            c18.insert("seaorm_cfg".into(), cfg_obs);
            tabs.push(json!({"name": t.name, "cyclic": cyclic, "sea": sea_j, "c18": Value::Object(c18),
                "py_status": {"sqlalchemy": sa.as_ref().err(), "sqlmodel": sm.as_ref().err()},
                "n_fk": t.constraints.iter().filter(|c| matches!(c, vespertide_core::TableConstraint::ForeignKey{..})).count()}));
        }
        shard_cases.push(compress_literals(&format!("(mkXC {} {} [{}])", m.gs(), cfgs[i].gs(), xts.join("; "))));
        let _ = writeln!(obs_lines, "{}", json!({"idx": i, "tag": tag, "tables": tabs}));
    }
    if !hung_tables.is_empty() {
        // the fresh-process renders must skip the tables that hang: mark them like the FK-cyclic ones
        let mut s = String::new();
        for (i, (tag, m)) in sets.iter().enumerate() {
            let cyc: Vec<bool> = m.iter().enumerate().map(|(j, t)| advgen::fk_cycle_from(m, t) || hung_tables.contains(&(i, j))).collect();
            let _ = writeln!(s, "{}", json!({"idx": i, "tag": tag, "models": m, "cyclic": cyc, "config": cfgs[i]}));
        }
        std::fs::write(&cases_path, s).unwrap();
    }
    let header = "From VV.EXP Require Import CorrExp.\n";
    let tail = "Definition bad := mismatches_from shard_base cases.\nEval vm_compute in bad.\nEval vm_compute in map classify_case cases.\n";
    let names = vcommon::write_shards(&outdir, "cases_exp", header, "exp_case", &shard_cases, per, tail).unwrap();
    std::fs::write(outdir.join("obs.jsonl"), obs_lines).unwrap();
    std::fs::write(outdir.join("texts.jsonl"), texts).unwrap();

    // ---------------------------------------------------------------- actions (K-disp)
    let mut acts: Vec<(String, MigrationAction)> = read_actions_corpus(&corpus).into_iter().map(|(n, a)| (format!("corpus:{}", n), a)).collect();
    for a in advgen::gen_disp_actions(&mut rng, ndisp) {
        acts.push(("generated".into(), a));
    }
    let mut disp_cases = vec![];
    let mut disp_side = String::new();
    for (i, (tag, a)) in acts.iter().enumerate() {
        let r = catch_unwind(AssertUnwindSafe(|| format!("{}", a)));
        let out_g = match &r {
            Ok(s) => format!("(Txt {})", s.gs()),
            Err(_) => "Panic".to_string(),
        };
        let ty = match a {
            MigrationAction::ModifyColumnType { new_type, .. } => match catch_unwind(AssertUnwindSafe(|| new_type.to_display_string())) {
                Ok(s) => format!("(Some {})", s.gs()),
                Err(_) => "None".into(),
            },
            _ => "None".into(),
        };
        disp_cases.push(compress_literals(&format!("(mkDC {} {} {})", a.gs(), out_g, ty)));
        let big = serde_json::to_string(a).map(|s| s.len() > 4000).unwrap_or(false);
        let _ = writeln!(disp_side, "{}", json!({"idx": i, "tag": tag, "panic": r.is_err(), "len": r.as_ref().map(|s| s.len()).unwrap_or(0),
            "action": if big { json!({"omitted": "long string", "kind": format!("{:?}", std::mem::discriminant(a))}) } else { serde_json::to_value(a).unwrap_or(Value::Null) }}));
    }
    let tail = "Definition bad := disp_mismatches_from shard_base cases.\nEval vm_compute in bad.\nEval vm_compute in map classify_disp cases.\n";
    let dnames = vcommon::write_shards(&outdir, "cases_disp", header, "disp_case", &disp_cases, 60, tail).unwrap();
    std::fs::write(outdir.join("disp.jsonl"), disp_side).unwrap();

    // ---------------------------------------------------------------- O-C16 cases: evolutions with adversarial text
    let mut c16 = String::new();
    let mut n16 = 0usize;
    let mut rejected = 0usize;
    let mut push16 = |c16: &mut String, tag: &str, models: &Vec<TableDef>, history: &Vec<MigrationPlan>, tool: bool| {
        let _ = writeln!(c16, "{}", json!({"idx": n16, "tag": tag, "models": models, "history": history, "tool_history": tool}));
        n16 += 1;
    };
    for (name, ms, _) in read_models_corpus(&corpus) {
        push16(&mut c16, &format!("corpus:{}", name), &ms, &vec![], true);
    }
    for (name, a) in read_actions_corpus(&corpus) {
        let hist = vec![MigrationPlan { id: String::new(), comment: None, created_at: None, version: 1, actions: vec![a] }];
        push16(&mut c16, &format!("corpus:{}", name), &vec![], &hist, false);
    }
    for e in 0..nevo {
        let evo = gener::gen_evolution(&mut rng, steps, Profile::Loader, &mut rejected);
        let mut history: Vec<MigrationPlan> = vec![];
        let mut tool = true;
        for m in evo.iter() {
            let mut m2 = m.clone();
            if rng.chance(2, 3) {
                let mut cand = m.clone();
                advgen::adversarialize(&mut rng, &mut cand);
                if gener::loader_accepts(&cand) {
                    m2 = cand;
                }
            }
            // hand-extended history: a raw SQL migration with adversarial text
            if rng.chance(1, 6) {
                let v = history.len() as u32 + 1;
                history.push(MigrationPlan { id: String::new(), comment: Some(advgen::adv_string(&mut rng)), created_at: None, version: v,
                    actions: vec![MigrationAction::RawSql { sql: advgen::adv_string(&mut rng) }] });
                tool = false;
            }
            push16(&mut c16, if e % 2 == 0 { "evolution+adversarial-text" } else { "evolution" }, &m2, &history, tool);
            // extend the history the way `vespertide revision` does
            if let Ok(Ok(p)) = catch_unwind(AssertUnwindSafe(|| plan_next_migration(&m2, &history))) {
                if !p.actions.is_empty() {
                    let base = schema_from_plans(&history).unwrap_or_default();
                    if let Some(f) = revision_fill(&p, &base) {
                        history.push(MigrationPlan { version: p.version, ..f });
                    } else {
                        break;
                    }
                }
            } else {
                break;
            }
        }
    }
    // FK-shaped sets (including cyclic ones) also go through every stage
    for (tag, m) in sets.iter().filter(|(t, _)| !t.starts_with("corpus:") && t != "import-pairs" && t != "name-shapes" && t != "default-shapes" && t != "text-shapes").take(nevo + n_chain_sets) {
        push16(&mut c16, &format!("models:{}", tag), m, &vec![], true);
    }
    std::fs::write(outdir.join("c16cases.jsonl"), c16).unwrap();

    std::fs::write(
        outdir.join("meta.json"),
        json!({"seed": seed, "exp_shards": names, "disp_shards": dnames, "n_sets": sets.len(), "n_actions": acts.len(), "n_c16": n16,
               "per_shard": per, "disp_per_shard": 60, "rejected_edits": rejected}).to_string(),
    )
    .unwrap();
    println!("sets={} actions={} c16={}", sets.len(), acts.len(), n16);
}

fn load_cases(path: &str) -> Vec<Value> {
    std::fs::read_to_string(path).unwrap_or_default().lines().filter_map(|l| serde_json::from_str::<Value>(l).ok()).collect()
}

fn cmd_render(args: &[String]) {
    let cases = load_cases(&arg(args, "--cases", ""));
    let mut out = String::new();
    for c in &cases {
        let i = c["idx"].as_u64().unwrap_or(0);
        let Ok(m) = serde_json::from_value::<Vec<TableDef>>(c["models"].clone()) else { continue };
        for (j, t) in m.iter().enumerate() {
            let cyclic = c["cyclic"][j].as_bool().unwrap_or(false);
            for (orm, oname) in ORMS {
                if cyclic && oname == "seaorm" {
                    continue;
                }
                let r = render(orm, t, &m);
                let _ = writeln!(out, "{} {} {} {}", i, j, oname, r.map(|x| format!("{:016x}", fnv(&x))).unwrap_or_else(|e| e.replace(' ', "_")));
            }
            if !cyclic {
                let cfg: ExportCfg = serde_json::from_value(c["config"].clone()).unwrap_or_default();
                let r = render_cfg(t, &m, &cfg);
                let _ = writeln!(out, "{} {} seaorm_cfg {}", i, j, r.map(|x| format!("{:016x}", fnv(&x))).unwrap_or_else(|e| e.replace(' ', "_")));
            }
        }
    }
    std::fs::write(arg(args, "--out", "renders.txt"), out).unwrap();
}

fn cmd_render1(args: &[String]) {
    let cases = load_cases(&arg(args, "--cases", ""));
    let ci: usize = arg(args, "--case", "0").parse().unwrap();
    let ti: usize = arg(args, "--table", "0").parse().unwrap();
    let c = cases.iter().find(|c| c["idx"].as_u64() == Some(ci as u64)).expect("case");
    let m: Vec<TableDef> = serde_json::from_value(c["models"].clone()).expect("models");
    let s = if arg(args, "--cfg", "0") == "1" {
        let cfg: ExportCfg = serde_json::from_value(c["config"].clone()).unwrap_or_default();
        vespertide_exporter::seaorm::render_entity_with_config(&m[ti], &m, &cfg.seaorm, &cfg.prefix)
    } else {
        render_entity_with_schema(Orm::SeaOrm, &m[ti], &m).expect("render")
    };
    print!("{}", s);
}

/// milliseconds (since process start, +1) at which the running stage began; 0 = no stage is running
static STAGE_STARTED: std::sync::atomic::AtomicU64 = std::sync::atomic::AtomicU64::new(0);

fn now_ms() -> u64 {
    static T0: std::sync::OnceLock<std::time::Instant> = std::sync::OnceLock::new();
    T0.get_or_init(std::time::Instant::now).elapsed().as_millis() as u64 + 1
}

/// wall-clock cap per stage: a hang (e.g. an endless FK-chain walk) ends the batch with exit status 3
fn start_watchdog(cap_ms: u64) {
    let _ = now_ms();
    std::thread::spawn(move || loop {
        std::thread::sleep(std::time::Duration::from_millis(50));
        let s = STAGE_STARTED.load(std::sync::atomic::Ordering::SeqCst);
        if s != 0 && now_ms().saturating_sub(s) > cap_ms {
            println!("TIMEOUT {}", cap_ms);
            let _ = std::io::stdout().flush();
            std::process::exit(3);
        }
    });
}

fn stage<F: FnOnce() -> Result<String, String>>(i: usize, name: &str, skip: &[String], f: F) {
    if skip.iter().any(|s| s == name) {
        return;
    }
    println!("BEGIN {} {}", i, name);
    let _ = std::io::stdout().flush();
    let t0 = std::time::Instant::now();
    STAGE_STARTED.store(now_ms(), std::sync::atomic::Ordering::SeqCst);
    let r = catch_unwind(AssertUnwindSafe(f));
    STAGE_STARTED.store(0, std::sync::atomic::Ordering::SeqCst);
    let ms = t0.elapsed().as_millis();
    match r {
        Ok(Ok(info)) => println!("END {} {} ok {} {}", i, name, ms, info),
        Ok(Err(e)) => println!("END {} {} error {} {}", i, name, ms, json!(e)),
        Err(_) => println!("END {} {} panic {} -", i, name, ms),
    }
    let _ = std::io::stdout().flush();
}

fn cmd_c16(args: &[String]) {
    let cases = load_cases(&arg(args, "--cases", ""));
    let start: usize = arg(args, "--start", "0").parse().unwrap();
    let skip_first: Vec<String> = arg(args, "--skip", "").split(',').filter(|s| !s.is_empty()).map(|s| s.to_string()).collect();
    start_watchdog(arg(args, "--stage-cap-ms", "5000").parse().unwrap());
    // one line per panic on stdout: where and (truncated) why — the driver attaches it to the failing stage
    std::panic::set_hook(Box::new(|info| {
        let loc = info.location().map(|l| format!("{}:{}", l.file(), l.line())).unwrap_or_default();
        let msg = if let Some(s) = info.payload().downcast_ref::<&str>() { s.to_string() } else if let Some(s) = info.payload().downcast_ref::<String>() { s.clone() } else { String::new() };
        let short: String = msg.chars().take(160).collect();
        println!("PANICMSG {} {}", loc, short.replace('\n', " "));
    }));
    for c in &cases {
        let i = c["idx"].as_u64().unwrap_or(0) as usize;
        if i < start {
            continue;
        }
        let skip: Vec<String> = if i == start { skip_first.clone() } else { vec![] };
        let Ok(models) = serde_json::from_value::<Vec<TableDef>>(c["models"].clone()) else { continue };
        let Ok(history) = serde_json::from_value::<Vec<MigrationPlan>>(c["history"].clone()) else { continue };
        let mut plan: Option<MigrationPlan> = None;
        stage(i, "plan", &skip, || match plan_next_migration(&models, &history) {
            Ok(p) => {
                let n = p.actions.len();
                plan = Some(p);
                Ok(format!("{}", n))
            }
            Err(e) => Err(e.to_string()),
        });
        // SQL for the new plan and for every recorded plan against the schema before it
        let mut all: Vec<(Vec<TableDef>, MigrationPlan)> = vec![];
        for k in 0..history.len() {
            if let Ok(Ok(b)) = catch_unwind(AssertUnwindSafe(|| schema_from_plans(&history[..k]))) {
                all.push((b, history[k].clone()));
            }
        }
        if let Some(p) = &plan {
            if let Ok(Ok(b)) = catch_unwind(AssertUnwindSafe(|| schema_from_plans(&history))) {
                all.push((b, p.clone()));
            }
        }
        stage(i, "sql", &skip, || {
            let mut n = 0usize;
            for (b, p) in &all {
                let qs = build_plan_queries(p, b).map_err(|e| e.to_string())?;
                for q in &qs {
                    for (be, list) in [(DatabaseBackend::Postgres, &q.postgres), (DatabaseBackend::MySql, &q.mysql), (DatabaseBackend::Sqlite, &q.sqlite)] {
                        for s in list {
                            n += s.build(be).len();
                        }
                    }
                }
            }
            Ok(format!("{}", n))
        });
        // Display of every action, one stage per action so that the offending one is identified
        let mut k = 0usize;
        for (_, p) in &all {
            for a in &p.actions {
                let name = format!("display:{}", k);
                if !skip.iter().any(|s| *s == name) {
                    let r = catch_unwind(AssertUnwindSafe(|| format!("{}", a)));
                    if r.is_err() {
                        println!("BEGIN {} {}", i, name);
                        println!("END {} {} panic 0 {}", i, name, serde_json::to_string(a).unwrap_or_default());
                    }
                }
                k += 1;
            }
        }
        println!("BEGIN {} display", i);
        println!("END {} display ok 0 {}", i, k);
        // export: the CLI normalises the model files first
        let slice: Vec<TableDef> = models.iter().filter_map(|t| t.normalize().ok()).collect();
        for (j, t) in slice.iter().enumerate() {
            for (orm, oname) in ORMS {
                stage(i, &format!("export:{}:{}", oname, j), &skip, || render_entity_with_schema(orm, t, &slice).map(|s| s.len().to_string()));
            }
        }
        println!("CASEDONE {}", i);
        let _ = std::io::stdout().flush();
    }
    println!("ALLDONE");
}

fn cmd_gallina(args: &[String]) {
    // one O-C16 case as the pair (normalised slice, models as written, history)
    let c16 = arg(args, "--c16", "");
    if !c16.is_empty() {
        let want: Vec<u64> = arg(args, "--idx", "").split(',').filter_map(|x| x.parse().ok()).collect();
        for c in load_cases(&c16) {
            let i = c["idx"].as_u64().unwrap_or(0);
            if !want.contains(&i) {
                continue;
            }
            let models: Vec<TableDef> = serde_json::from_value(c["models"].clone()).unwrap_or_default();
            let history: Vec<MigrationPlan> = serde_json::from_value(c["history"].clone()).unwrap_or_default();
            let slice: Vec<TableDef> = models.iter().filter_map(|t| t.normalize().ok()).collect();
            println!("CASE {} {}\nENDCASE", i, compress_literals(&format!("({}, {}, {})", slice.gs(), models.gs(), history.gs())));
        }
        return;
    }
    let m = arg(args, "--models", "");
    if !m.is_empty() {
        let v: Value = serde_json::from_str(&std::fs::read_to_string(&m).unwrap()).unwrap();
        let ms: Vec<TableDef> = serde_json::from_value(v.get("models").cloned().unwrap_or(v)).unwrap();
        let slice = if arg(args, "--normalize", "1") == "1" { advgen::normalized_slice(&ms).unwrap_or(ms) } else { ms };
        println!("{}", compress_literals(&slice.gs()));
        return;
    }
    let a = arg(args, "--action", "");
    let v: Value = serde_json::from_str(&std::fs::read_to_string(&a).unwrap()).unwrap();
    let act: MigrationAction = serde_json::from_value(v.get("action").cloned().unwrap_or(v)).unwrap();
    println!("{}", compress_literals(&act.gs()));
}

fn main() {
    let args: Vec<String> = std::env::args().collect();
    match args.get(1).map(|s| s.as_str()).unwrap_or("") {
        "gen" => cmd_gen(&args),
        "render" => cmd_render(&args),
        "render1" => cmd_render1(&args),
        "c16" => cmd_c16(&args),
        "gallina" => cmd_gallina(&args),
        _ => {
            eprintln!("usage: hexp gen|render|render1|c16|gallina ...");
            std::process::exit(2);
        }
    }
}
