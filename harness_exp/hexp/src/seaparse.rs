//! Structural parser for the text produced by the SeaORM exporter: the member lines of `pub struct Model`
//! (columns and relation fields with their `#[sea_orm(..)]` attribute) and the `pub enum` blocks.
//! Line based on purpose: it reads declarations, not layout.
use std::collections::BTreeMap;
use vcommon::gallina::{G, app};

#[derive(Debug, Clone, PartialEq)]
pub enum Member {
    Col { field: String, ty: String, optional: bool, pk: bool },
    Rel { field: String, kind: String, entity: String, relation_enum: Option<String>, from: Option<String>, to: Option<String>, via: Option<String> },
}

#[derive(Debug, Clone, Default, PartialEq)]
pub struct Decl {
    pub members: Vec<Member>,
    pub enums: Vec<(String, Vec<String>)>,
}

impl G for Member {
    fn g(&self, o: &mut String) {
        match self {
            Member::Col { field, ty, optional, pk } => app(o, "MCol", &[field, ty, optional, pk]),
            Member::Rel { field, kind, entity, relation_enum, from, to, via } => {
                let k = vcommon::gallina::Raw(
                    match kind.as_str() {
                        "belongs_to" => "BelongsTo",
                        "has_one" => "HasOne",
                        _ => "HasMany",
                    }
                    .to_string(),
                );
                app(o, "MRel", &[field, &k, entity, relation_enum, from, to, via])
            }
        }
    }
}
impl G for Decl {
    fn g(&self, o: &mut String) {
        app(o, "mkDecl", &[&self.members, &self.enums])
    }
}

/// `primary_key, auto_increment = false, default_value = "a, b"` -> flags and key/value pairs
pub fn parse_attr(inner: &str) -> (Vec<String>, BTreeMap<String, String>) {
    let b: Vec<char> = inner.chars().collect();
    let mut flags = vec![];
    let mut kv = BTreeMap::new();
    let mut i = 0;
    while i < b.len() {
        while i < b.len() && (b[i] == ' ' || b[i] == ',') {
            i += 1;
        }
        let mut key = String::new();
        while i < b.len() && b[i] != ',' && b[i] != '=' {
            key.push(b[i]);
            i += 1;
        }
        let key = key.trim().to_string();
        if i < b.len() && b[i] == '=' {
            i += 1;
            while i < b.len() && b[i] == ' ' {
                i += 1;
            }
            let mut val = String::new();
            if i < b.len() && b[i] == '"' {
                i += 1;
                while i < b.len() && b[i] != '"' {
                    if b[i] == '\\' && i + 1 < b.len() {
                        val.push(b[i + 1]);
                        i += 2;
                        continue;
                    }
                    val.push(b[i]);
                    i += 1;
                }
                i += 1;
            } else {
                while i < b.len() && b[i] != ',' {
                    val.push(b[i]);
                    i += 1;
                }
                val = val.trim().to_string();
            }
            kv.insert(key, val);
        } else if !key.is_empty() {
            flags.push(key);
        }
    }
    (flags, kv)
}

pub fn parse(text: &str) -> Result<Decl, String> {
    let lines: Vec<&str> = text.split('\n').collect();
    let mut d = Decl::default();
    let mut i = 0;
    let mut seen_struct = false;
    while i < lines.len() {
        let l = lines[i];
        if let Some(rest) = l.strip_prefix("pub enum ") {
            let name = rest.strip_suffix(" {").ok_or("enum header")?.to_string();
            let mut vars = vec![];
            i += 1;
            while i < lines.len() && lines[i] != "}" {
                let t = lines[i].trim();
                if !t.starts_with("#[") && !t.is_empty() {
                    let t = t.strip_suffix(',').unwrap_or(t);
                    let n = match t.find(" = ") {
                        Some(k) => &t[..k],
                        None => t,
                    };
                    vars.push(n.to_string());
                }
                i += 1;
            }
            d.enums.push((name, vars));
        } else if l == "pub struct Model {" {
            seen_struct = true;
            let mut attr: Option<String> = None;
            i += 1;
            while i < lines.len() && lines[i] != "}" {
                let raw = lines[i];
                let t = raw.trim_start();
                if t.starts_with("///") {
                } else if let Some(a) = t.strip_prefix("#[sea_orm(") {
                    attr = Some(a.strip_suffix(")]").unwrap_or(a).to_string());
                } else if let Some(f) = t.strip_prefix("pub ") {
                    let k = f.find(": ").ok_or("field line")?;
                    let name = f[..k].to_string();
                    let ty = f[k + 2..].strip_suffix(',').unwrap_or(&f[k + 2..]).to_string();
                    let (flags, kv) = parse_attr(attr.as_deref().unwrap_or(""));
                    let rel = ["HasOne<super::", "HasMany<super::"].iter().find(|p| ty.starts_with(**p));
                    if let (Some(p), true) = (rel, ty.ends_with("::Entity>")) {
                        let entity = ty[p.len()..ty.len() - "::Entity>".len()].to_string();
                        let kind = flags.first().cloned().unwrap_or_default();
                        let rust_kind = if p.starts_with("HasOne") { "HasOne" } else { "HasMany" };
                        // the attribute kind and the Rust type must agree (belongs_to / has_one -> HasOne)
                        let agree = matches!((kind.as_str(), rust_kind), ("belongs_to", "HasOne") | ("has_one", "HasOne") | ("has_many", "HasMany"));
                        if !agree {
                            return Err(format!("relation kind {} with type {}", kind, ty));
                        }
                        d.members.push(Member::Rel {
                            field: name,
                            kind,
                            entity,
                            relation_enum: kv.get("relation_enum").cloned(),
                            from: kv.get("from").cloned(),
                            to: kv.get("to").cloned(),
                            via: kv.get("via").cloned(),
                        });
                    } else {
                        let (inner, optional) = match ty.strip_prefix("Option<").and_then(|x| x.strip_suffix('>')) {
                            Some(x) => (x.to_string(), true),
                            None => (ty.clone(), false),
                        };
                        d.members.push(Member::Col { field: name, ty: inner, optional, pk: flags.first().map(|f| f == "primary_key").unwrap_or(false) });
                    }
                    attr = None;
                }
                i += 1;
            }
        }
        i += 1;
    }
    if !seen_struct {
        return Err("no `pub struct Model {`".into());
    }
    Ok(d)
}

/// RUST_KEYWORDS of the reference (strict + reserved), the list the exporter itself uses
const RUST_KEYWORDS: &[&str] = &[
    "as", "async", "await", "break", "const", "continue", "crate", "dyn", "else", "enum", "extern", "false", "fn", "for", "if", "impl", "in",
    "let", "loop", "match", "mod", "move", "mut", "pub", "ref", "return", "self", "Self", "static", "struct", "super", "trait", "true", "type",
    "unsafe", "use", "where", "while", "abstract", "become", "box", "do", "final", "macro", "override", "priv", "try", "typeof", "unsized",
    "virtual", "yield",
];

/// `[A-Za-z_][A-Za-z0-9_]*`; non-ASCII characters are not judged (counted as identifier characters)
fn ident_shape(s: &str) -> bool {
    let mut it = s.chars();
    match it.next() {
        Some(c) if c.is_ascii_alphabetic() || c == '_' || !c.is_ascii() => {}
        _ => return false,
    }
    it.all(|c| c.is_ascii_alphanumeric() || c == '_' || !c.is_ascii())
}
pub fn plain_ident_ok(s: &str) -> bool {
    ident_shape(s) && s != "_" && !RUST_KEYWORDS.contains(&s)
}
/// a field may be a raw identifier; rustc rejects r#self, r#Self, r#crate, r#super
pub fn field_ident_ok(s: &str) -> bool {
    match s.strip_prefix("r#") {
        Some(w) => ident_shape(w) && w != "_" && !["self", "Self", "crate", "super"].contains(&w),
        None => plain_ident_ok(s),
    }
}

/// O-C17 on the implementation's declarations: every name of the generated type is unique and every
/// `super::X::Entity` names a table of the slice.
pub fn oracle(d: &Decl, tables: &[String]) -> Vec<String> {
    let mut bad = vec![];
    let mut seen = std::collections::BTreeSet::new();
    for m in &d.members {
        let n = match m {
            Member::Col { field, .. } | Member::Rel { field, .. } => field,
        };
        if !field_ident_ok(n) {
            bad.push(format!("invalid-field:{}", n));
        }
        if !seen.insert(n.clone()) {
            bad.push(format!("duplicate-field:{}", n));
        }
    }
    let mut re = std::collections::BTreeSet::new();
    for m in &d.members {
        if let Member::Rel { relation_enum: Some(e), .. } = m {
            if !plain_ident_ok(e) {
                bad.push(format!("invalid-relation-enum:{}", e));
            }
            if !re.insert(e.clone()) {
                bad.push(format!("duplicate-relation-enum:{}", e));
            }
        }
        if let Member::Rel { entity, .. } = m {
            if !tables.contains(entity) {
                bad.push(format!("missing-entity:{}", entity));
            }
        }
    }
    let mut en = std::collections::BTreeSet::new();
    for (name, vars) in &d.enums {
        if !en.insert(name.clone()) {
            bad.push(format!("duplicate-enum-type:{}", name));
        }
        if !plain_ident_ok(name) {
            bad.push(format!("invalid-enum-type:{}", name));
        }
        let mut vs = std::collections::BTreeSet::new();
        for v in vars {
            if !plain_ident_ok(v) {
                bad.push(format!("invalid-variant:{}::{}", name, v));
            }
            if !vs.insert(v.clone()) {
                bad.push(format!("duplicate-variant:{}::{}", name, v));
            }
        }
    }
    bad
}

/// Line-level well-formedness of the SeaORM text (O-C17): every line is one of the forms the exporter is meant to
/// emit (so free text — descriptions, comments — can only ever sit behind `///`), and no doc-comment line carries a
/// bare carriage return (rustc: "bare CR not allowed in doc-comment").
pub fn text_oracle(text: &str) -> Vec<String> {
    let mut bad = vec![];
    let mut in_struct = false;
    let mut in_enum = false;
    for l in text.split('\n') {
        let t = l.trim_start();
        if t.starts_with("///") {
            if l.contains('\r') {
                bad.push("bare-cr-in-doc-comment".to_string());
            }
            continue;
        }
        let ok = if in_struct {
            if l == "}" {
                in_struct = false;
                true
            } else {
                t.starts_with("#[sea_orm(") || t.starts_with("pub ")
            }
        } else if in_enum {
            if l == "}" {
                in_enum = false;
                true
            } else {
                l.starts_with("    ")
            }
        } else if l == "pub struct Model {" {
            in_struct = true;
            true
        } else if l.starts_with("pub enum ") && l.ends_with(" {") {
            in_enum = true;
            true
        } else {
            l.is_empty() || l.starts_with("use ") || l.starts_with("#[") || l.starts_with("// ") || l.starts_with("vespera::schema_type!(")
                || l == "impl ActiveModelBehavior for ActiveModel {}"
        };
        if !ok {
            let short: String = l.chars().take(60).collect();
            bad.push(format!("stray-line:{}", short));
        }
    }
    bad.sort();
    bad.dedup();
    bad
}
