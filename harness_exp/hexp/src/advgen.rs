//! Generators of layer EXP: model sets with the foreign-key and identifier shapes C17 quantifies over,
//! adversarial text for C16, and the action stream for K-disp.  Every choice comes from the one Rng.
use vcommon::gener::{self, Profile, col};
use vcommon::rng::Rng;
use vespertide_core::*;

pub const T_NAMES: &[&str] = &[
    "user", "post", "role", "media", "category", "org", "team", "tag", "key", "address", "order", "item",
];
pub const T_ODD: &[&str] = &["type", "class", "User", "orderItem", "2fa", "사용자", "self", "match", "day", "mod"];
pub const C_NAMES: &[&str] = &["name", "title", "status", "kind", "email", "created_at", "score", "body", "user", "posts", "users", "role", "owner"];
pub const C_ODD: &[&str] = &[
    "type", "class", "from", "import", "None", "def", "pass", "self", "fn", "match", "async", "yield", "1st", "Name", "userId",
    "이름", "in", "is", "lambda", "struct", "r", "_", "__x", "a_", "crate", "Self", "super",
];

fn int() -> ColumnType {
    ColumnType::Simple(SimpleColumnType::Integer)
}

fn pk_of(t: &TableDef) -> Vec<String> {
    for c in &t.constraints {
        if let TableConstraint::PrimaryKey { columns, .. } = c {
            return columns.clone();
        }
    }
    vec![]
}

/// Normalise every table (as `vespertide export` does) and drop the inline spellings, so that renames
/// only have to touch table-level constraints.
pub fn normalized_slice(models: &[TableDef]) -> Option<Vec<TableDef>> {
    let mut out = vec![];
    for t in models {
        let mut n = t.normalize().ok()?;
        for c in n.columns.iter_mut() {
            c.primary_key = None;
            c.unique = None;
            c.index = None;
            c.foreign_key = None;
        }
        out.push(n);
    }
    Some(out)
}

/// FK-shaped model sets: several FKs to one table, self references, chains through key columns, junction
/// tables, one-to-one, columns whose names equal derived relation names, (rarely) FK cycles.
pub fn gen_fk_models(rng: &mut Rng, odd_names: bool, allow_cycle: bool) -> Vec<TableDef> {
    for _ in 0..60 {
        let nt = rng.range(2, 5);
        let mut pool: Vec<&str> = T_NAMES.to_vec();
        if odd_names {
            pool.extend_from_slice(T_ODD);
        }
        rng.shuffle(&mut pool);
        let mut ts: Vec<TableDef> = vec![];
        for n in pool.iter().take(nt) {
            let mut t = TableDef { name: n.to_string(), description: None, columns: vec![], constraints: vec![] };
            let pkn = rng.pick(&["id", "id", "id", "idx"]).to_string();
            t.columns.push(col(&pkn, int(), false));
            t.constraints.push(TableConstraint::PrimaryKey { auto_increment: rng.chance(1, 2), columns: vec![pkn] });
            let ne = rng.below(4);
            for _ in 0..ne {
                let cn = if odd_names && rng.chance(1, 3) { rng.pick(C_ODD) } else { rng.pick(C_NAMES) };
                if t.columns.iter().any(|c| c.name == *cn) {
                    continue;
                }
                let ty = gener::gen_type(rng, Profile::Loader);
                let mut c = col(cn, ty.clone(), rng.chance(1, 2));
                c.default = gener::gen_default(rng, &ty, Profile::Loader);
                t.columns.push(c);
            }
            ts.push(t);
        }
        // foreign keys
        for i in 0..ts.len() {
            let nfk = rng.below(4);
            for _ in 0..nfk {
                let j = if rng.chance(1, 8) { i } else { rng.below(ts.len()) };
                let target = ts[j].clone();
                let tpk = pk_of(&target);
                if tpk.len() != 1 {
                    continue;
                }
                // usually the key; sometimes another column of the target (chains, cycles)
                let rcol = if rng.chance(1, 6) && target.columns.len() > 1 {
                    let c = rng.pick(&target.columns[1..]);
                    if !matches!(c.r#type, ColumnType::Simple(SimpleColumnType::Integer)) {
                        continue;
                    }
                    c.name.clone()
                } else {
                    tpk[0].clone()
                };
                let role = rng.pick(&["owner", "author", "creator", "parent", "editor"]).to_string();
                let cname = match rng.below(8) {
                    0 | 1 | 2 => format!("{}_{}", target.name, rcol),
                    3 => format!("{}_{}_{}", role, target.name, rcol),
                    4 => format!("{}_{}", role, rcol),
                    5 => target.name.clone(),
                    6 => format!("{}Id", target.name),
                    _ => format!("{}_id", role),
                };
                let existing = ts[i].columns.iter().position(|c| c.name == cname);
                if let Some(k) = existing {
                    // reuse an existing integer column (the key itself: chain through a key column)
                    if !matches!(ts[i].columns[k].r#type, ColumnType::Simple(SimpleColumnType::Integer)) || !rng.chance(1, 3) {
                        continue;
                    }
                } else {
                    ts[i].columns.push(col(&cname, int(), rng.chance(1, 2)));
                }
                ts[i].constraints.push(TableConstraint::ForeignKey {
                    name: None,
                    columns: vec![cname.clone()],
                    ref_table: target.name.clone(),
                    ref_columns: vec![rcol],
                    on_delete: None,
                    on_update: None,
                });
                if rng.chance(1, 5) {
                    ts[i].constraints.push(TableConstraint::Unique { name: None, columns: vec![cname] });
                }
            }
            // key column that is itself a foreign key (shared-key one-to-one / chain)
            if rng.chance(1, 8) && ts.len() > 1 {
                let j = (i + 1 + rng.below(ts.len() - 1)) % ts.len();
                let tpk = pk_of(&ts[j]);
                let mypk = pk_of(&ts[i]);
                if tpk.len() == 1 && mypk.len() == 1 {
                    let (rt, rc) = (ts[j].name.clone(), tpk[0].clone());
                    ts[i].constraints.push(TableConstraint::ForeignKey { name: None, columns: mypk, ref_table: rt, ref_columns: vec![rc], on_delete: None, on_update: None });
                }
            }
        }
        // junction tables
        if ts.len() >= 2 && rng.chance(1, 2) {
            let a = rng.below(ts.len());
            let mut b = rng.below(ts.len());
            if a == b {
                b = (a + 1) % ts.len();
            }
            let (ta, tb) = (ts[a].clone(), ts[b].clone());
            let (pa, pb) = (pk_of(&ta), pk_of(&tb));
            if pa.len() == 1 && pb.len() == 1 {
                let jn = if rng.chance(1, 2) { format!("{}_{}", ta.name, tb.name) } else { format!("{}_{}_role", ta.name, tb.name) };
                if !ts.iter().any(|t| t.name == jn) {
                    let ca = format!("{}_{}", ta.name, pa[0]);
                    let cb = format!("{}_{}", tb.name, pb[0]);
                    let mut j = TableDef { name: jn, description: None, columns: vec![col(&ca, int(), false), col(&cb, int(), false)], constraints: vec![] };
                    j.constraints.push(TableConstraint::PrimaryKey { auto_increment: false, columns: vec![ca.clone(), cb.clone()] });
                    j.constraints.push(TableConstraint::ForeignKey { name: None, columns: vec![ca], ref_table: ta.name.clone(), ref_columns: pa.clone(), on_delete: None, on_update: None });
                    j.constraints.push(TableConstraint::ForeignKey { name: None, columns: vec![cb], ref_table: tb.name.clone(), ref_columns: pb.clone(), on_delete: None, on_update: None });
                    if rng.chance(1, 4) && ts.len() > 2 {
                        // a third leg
                        let c = (0..ts.len()).find(|k| *k != a && *k != b).unwrap();
                        let pc = pk_of(&ts[c]);
                        if pc.len() == 1 {
                            let cc = format!("{}_{}", ts[c].name, pc[0]);
                            j.columns.push(col(&cc, int(), false));
                            if let TableConstraint::PrimaryKey { columns, .. } = &mut j.constraints[0] {
                                columns.push(cc.clone());
                            }
                            j.constraints.push(TableConstraint::ForeignKey { name: None, columns: vec![cc], ref_table: ts[c].name.clone(), ref_columns: pc, on_delete: None, on_update: None });
                        }
                    }
                    ts.push(j);
                }
            }
        }
        // a deliberate single-column FK cycle (D15): a.cx -> b.cy, b.cy -> a.cx, or a.cx -> a.cx
        if allow_cycle && !ts.is_empty() {
            let a = rng.below(ts.len());
            let b = if rng.chance(1, 3) { a } else { rng.below(ts.len()) };
            let (an, bn) = (ts[a].name.clone(), ts[b].name.clone());
            let (ca, cb) = if a == b { ("cx".to_string(), "cx".to_string()) } else { ("cx".to_string(), "cy".to_string()) };
            for (k, c) in [(a, &ca), (b, &cb)] {
                if !ts[k].columns.iter().any(|x| x.name == *c) {
                    ts[k].columns.push(col(c, int(), true));
                }
            }
            ts[a].constraints.push(TableConstraint::ForeignKey { name: None, columns: vec![ca.clone()], ref_table: bn, ref_columns: vec![cb.clone()], on_delete: None, on_update: None });
            if a != b {
                ts[b].constraints.push(TableConstraint::ForeignKey { name: None, columns: vec![cb], ref_table: an, ref_columns: vec![ca], on_delete: None, on_update: None });
            }
        }
        if rng.chance(1, 3) {
            rng.shuffle(&mut ts);
        }
        if !gener::loader_accepts(&ts) {
            continue;
        }
        let Some(n) = normalized_slice(&ts) else { continue };
        if !allow_cycle && n.iter().any(|t| fk_cycle_from(&n, t)) {
            continue;
        }
        return n;
    }
    vec![]
}

/// vcommon's loader-profile model sets, optionally with identifier renames, as a normalised slice.
pub fn gen_plain_models(rng: &mut Rng, odd_names: bool) -> Vec<TableDef> {
    for _ in 0..40 {
        let m = gener::gen_models(rng, Profile::Loader);
        let Some(mut n) = normalized_slice(&m) else { continue };
        if odd_names {
            let k = rng.below(3);
            for _ in 0..k {
                let ti = rng.below(n.len().max(1));
                if n.is_empty() {
                    break;
                }
                let ci = rng.below(n[ti].columns.len());
                let new = rng.pick(C_ODD).to_string();
                rename_column(&mut n, ti, ci, &new);
            }
        }
        if gener::loader_accepts(&n) && !n.iter().any(|t| fk_cycle_from(&n, t)) {
            return n;
        }
    }
    vec![]
}

pub fn rename_column(m: &mut [TableDef], ti: usize, ci: usize, new: &str) {
    if m[ti].columns.iter().any(|c| c.name == new) {
        return;
    }
    let old = m[ti].columns[ci].name.clone();
    let tname = m[ti].name.clone();
    m[ti].columns[ci].name = new.to_string();
    let fix = |v: &mut Vec<String>| {
        for x in v.iter_mut() {
            if *x == old {
                *x = new.to_string();
            }
        }
    };
    for c in m[ti].constraints.iter_mut() {
        match c {
            TableConstraint::PrimaryKey { columns, .. } | TableConstraint::Unique { columns, .. } | TableConstraint::Index { columns, .. } => fix(columns),
            TableConstraint::ForeignKey { columns, .. } => fix(columns),
            TableConstraint::Check { .. } => {}
        }
    }
    for t in m.iter_mut() {
        for c in t.constraints.iter_mut() {
            if let TableConstraint::ForeignKey { ref_table, ref_columns, .. } = c {
                if *ref_table == tname {
                    fix(ref_columns);
                }
            }
        }
    }
}

/// The harness's own walk along single-column FK chains, with a visited set: does the chain that starts at
/// some FK of `t` come back to a node it has seen?  (Used only to decide which renders must run in a
/// subprocess; the verdict about the implementation comes from that subprocess.)
pub fn fk_cycle_from(schema: &[TableDef], t: &TableDef) -> bool {
    for c in &t.constraints {
        if let TableConstraint::ForeignKey { ref_table, ref_columns, .. } = c {
            let mut seen: Vec<(String, String)> = vec![];
            let (mut rt, mut rcs) = (ref_table.clone(), ref_columns.clone());
            loop {
                if schema.is_empty() || rcs.len() != 1 {
                    break;
                }
                let Some(target) = schema.iter().find(|x| x.name == rt) else { break };
                let node = (rt.clone(), rcs[0].clone());
                if seen.contains(&node) {
                    return true;
                }
                seen.push(node);
                let mut next = None;
                for k in &target.constraints {
                    if let TableConstraint::ForeignKey { columns, ref_table, ref_columns, .. } = k {
                        if columns.len() == 1 && columns[0] == rcs[0] {
                            next = Some((ref_table.clone(), ref_columns.clone()));
                            break;
                        }
                    }
                }
                match next {
                    Some((a, b)) => {
                        rt = a;
                        rcs = b;
                    }
                    None => break,
                }
            }
        }
    }
    false
}

// ------------------------------------------------------------------ adversarial text (C16)
pub fn adv_string(rng: &mut Rng) -> String {
    let multi = ["é", "한", "😀", "ß", "—"];
    match rng.below(14) {
        0 => String::new(),
        1 => "'".into(),
        2 => "it's \"quoted\" \\ back\\slash".into(),
        3 => {
            // a multi-byte character at every offset around the truncation widths
            let k = rng.range(20, 56);
            format!("{}{}{}", "x".repeat(k), rng.pick(&multi), "y".repeat(rng.range(0, 12)))
        }
        4 => rng.pick(&multi).repeat(rng.range(1, 60)),
        5 => "a".repeat(65536),
        6 => "한".repeat(21846),
        7 => "line1\nline2\r\nline3".into(),
        8 => "); DROP TABLE x; --".into(),
        9 => "()".into(),
        10 => " leading and trailing ".into(),
        11 => "\u{0}\u{7f}\t".into(),
        12 => format!("{}é", "x".repeat(46)) + "abc",
        _ => "/* c */ 100% {} {0} $1 ?".into(),
    }
}

/// Replace free-text fields of a model set by adversarial strings; keeps the set loader-accepted
/// (the caller re-checks).
pub fn adversarialize(rng: &mut Rng, m: &mut [TableDef]) {
    if m.is_empty() {
        return;
    }
    let n = rng.range(1, 4);
    for _ in 0..n {
        let ti = rng.below(m.len());
        let t = &mut m[ti];
        match rng.below(7) {
            0 => t.description = Some(adv_string(rng)),
            1 => {
                let ci = rng.below(t.columns.len());
                t.columns[ci].comment = Some(adv_string(rng));
            }
            2 => {
                let ci = rng.below(t.columns.len());
                if !matches!(t.columns[ci].r#type, ColumnType::Complex(ComplexColumnType::Enum { .. })) {
                    t.columns[ci].default = Some(DefaultValue::String(adv_string(rng)));
                }
            }
            3 => {
                let e = adv_string(rng);
                t.constraints.push(TableConstraint::Check { name: format!("ck{}", rng.below(100)), expr: e });
            }
            4 => {
                let ci = rng.below(t.columns.len());
                if t.columns[ci].default.is_none() && !t.constraints.iter().any(|c| c.columns().contains(&t.columns[ci].name)) {
                    let mut labels = vec![adv_string(rng), "plain".to_string()];
                    labels.dedup();
                    t.columns[ci].r#type = ColumnType::Complex(ComplexColumnType::Enum { name: rng.pick(&["status", "kind"]).to_string(), values: EnumValues::String(labels) });
                }
            }
            5 => {
                let ci = rng.below(t.columns.len());
                if t.columns[ci].default.is_none() && !t.constraints.iter().any(|c| c.columns().contains(&t.columns[ci].name)) {
                    t.columns[ci].r#type = ColumnType::Complex(ComplexColumnType::Custom { custom_type: adv_string(rng) });
                }
            }
            _ => {
                for c in t.constraints.iter_mut() {
                    if let TableConstraint::Index { name, .. } | TableConstraint::Unique { name, .. } = c {
                        if rng.chance(1, 2) {
                            *name = Some(adv_string(rng));
                            break;
                        }
                    }
                }
            }
        }
    }
}

// ------------------------------------------------------------------ actions for K-disp
fn some_column(rng: &mut Rng, name: String) -> ColumnDef {
    let ty = gener::gen_type(rng, Profile::Loader);
    col(&name, ty, rng.chance(1, 2))
}

fn some_constraint(rng: &mut Rng) -> TableConstraint {
    let name = match rng.below(3) {
        0 => None,
        1 => Some("k1".to_string()),
        _ => Some(adv_string(rng)),
    };
    let cols = vec!["a".to_string(), adv_string(rng)];
    match rng.below(5) {
        0 => TableConstraint::PrimaryKey { auto_increment: rng.chance(1, 2), columns: cols },
        1 => TableConstraint::Unique { name, columns: cols },
        2 => TableConstraint::ForeignKey { name, columns: cols, ref_table: adv_string(rng), ref_columns: vec!["id".into()], on_delete: None, on_update: None },
        3 => TableConstraint::Check { name: name.unwrap_or_else(|| "ck".into()), expr: adv_string(rng) },
        _ => TableConstraint::Index { name, columns: cols },
    }
}

pub fn gen_disp_actions(rng: &mut Rng, random: usize) -> Vec<MigrationAction> {
    use MigrationAction::*;
    let mut out = vec![];
    let multi = ["é", "한", "😀"];
    // systematic: every offset 40..=55 x every width of multi-byte character, for both truncating arms
    for k in 40..=55usize {
        for ch in &multi {
            let s = format!("{}{}{}", "x".repeat(k), ch, "tail tail");
            out.push(RawSql { sql: s.clone() });
            out.push(ModifyColumnComment { table: "t".into(), column: "c".into(), new_comment: Some(s) });
        }
    }
    for k in 20..=35usize {
        for ch in &multi {
            let s = format!("{}{}{}", "x".repeat(k), ch.repeat(3), "zz");
            out.push(ModifyColumnComment { table: "t".into(), column: "c".into(), new_comment: Some(s.clone()) });
            out.push(RawSql { sql: s });
        }
    }
    for s in ["", "'", "\"", "x", &"a".repeat(50), &"a".repeat(51), &"é".repeat(25), &"é".repeat(26), &"한".repeat(17), &"a".repeat(65536), &"한".repeat(21846), &"😀".repeat(16384)] {
        out.push(RawSql { sql: s.to_string() });
        out.push(ModifyColumnComment { table: "t".into(), column: "c".into(), new_comment: Some(s.to_string()) });
        out.push(ModifyColumnDefault { table: s.to_string(), column: "c".into(), new_default: Some(s.to_string()) });
    }
    for _ in 0..random {
        let t = if rng.chance(1, 3) { adv_string(rng) } else { rng.pick(T_NAMES).to_string() };
        let c = if rng.chance(1, 3) { adv_string(rng) } else { rng.pick(C_NAMES).to_string() };
        out.push(match rng.below(13) {
            0 => CreateTable { table: t, columns: vec![some_column(rng, c)], constraints: vec![] },
            1 => DeleteTable { table: t },
            2 => AddColumn { table: t, column: Box::new(some_column(rng, c)), fill_with: None },
            3 => RenameColumn { table: t, from: c, to: adv_string(rng) },
            4 => DeleteColumn { table: t, column: c },
            5 => ModifyColumnType { table: t, column: c, new_type: gener::gen_type(rng, Profile::Loader), fill_with: None },
            6 => ModifyColumnNullable { table: t, column: c, nullable: rng.chance(1, 2), fill_with: None },
            7 => ModifyColumnDefault { table: t, column: c, new_default: if rng.chance(1, 3) { None } else { Some(adv_string(rng)) } },
            8 => ModifyColumnComment { table: t, column: c, new_comment: if rng.chance(1, 4) { None } else { Some(adv_string(rng)) } },
            9 => AddConstraint { table: t, constraint: some_constraint(rng) },
            10 => RemoveConstraint { table: t, constraint: some_constraint(rng) },
            11 => RenameTable { from: t, to: adv_string(rng) },
            _ => RawSql { sql: adv_string(rng) },
        });
    }
    out
}

// ------------------------------------------------------------------ systematic import coverage (C18)
/// One way of making the Python exporters import a name (or set a `needs_*` flag).
#[derive(Clone, Copy, Debug, PartialEq)]
pub enum Feature {
    Ty(&'static str),   // a NOT NULL column of that type
    Nullable,           // typing.Optional
    FkSelf,             // ForeignKey
    Index,              // Index (sqlalchemy) / index=True (sqlmodel)
    CompositeIndex,     // Index (both)
    CompositeUnique,    // UniqueConstraint (both)
    ServerDefault,      // the lower-case helper `text`
}

pub fn import_features() -> Vec<Feature> {
    let mut v: Vec<Feature> = ["smallint", "bigint", "real", "text", "boolean", "date", "time", "timestamp", "timestamptz", "interval", "bytea", "uuid",
        "json", "inet", "xml", "varchar", "char", "numeric", "custom", "enum_str", "enum_int"].iter().map(|t| Feature::Ty(t)).collect();
    v.extend([Feature::Nullable, Feature::FkSelf, Feature::Index, Feature::CompositeIndex, Feature::CompositeUnique, Feature::ServerDefault]);
    v
}

fn feature_type(name: &str) -> ColumnType {
    use SimpleColumnType::*;
    let s = |x| ColumnType::Simple(x);
    match name {
        "smallint" => s(SmallInt), "bigint" => s(BigInt), "real" => s(Real), "text" => s(Text), "boolean" => s(Boolean), "date" => s(Date),
        "time" => s(Time), "timestamp" => s(Timestamp), "timestamptz" => s(Timestamptz), "interval" => s(Interval), "bytea" => s(Bytea),
        "uuid" => s(Uuid), "json" => s(Json), "inet" => s(Inet), "xml" => s(Xml),
        "varchar" => ColumnType::Complex(ComplexColumnType::Varchar { length: 32 }),
        "char" => ColumnType::Complex(ComplexColumnType::Char { length: 2 }),
        "numeric" => ColumnType::Complex(ComplexColumnType::Numeric { precision: 10, scale: 2 }),
        "custom" => ColumnType::Complex(ComplexColumnType::Custom { custom_type: "citext".into() }),
        "enum_str" => ColumnType::Complex(ComplexColumnType::Enum { name: "level_s".into(), values: EnumValues::String(vec!["low".into(), "high".into()]) }),
        _ => ColumnType::Complex(ComplexColumnType::Enum { name: "level_i".into(), values: EnumValues::Integer(vec![NumValue { name: "low".into(), value: 1 }, NumValue { name: "high".into(), value: 2 }]) }),
    }
}

fn apply_feature(t: &mut TableDef, f: Feature) {
    let has = |t: &TableDef, n: &str| t.columns.iter().any(|c| c.name == n);
    match f {
        Feature::Ty(name) => {
            let cn = format!("c_{}", name);
            if !has(t, &cn) {
                t.columns.push(col(&cn, feature_type(name), false));
            }
        }
        Feature::Nullable => {
            if !has(t, "opt") {
                t.columns.push(col("opt", int(), true));
            }
        }
        Feature::FkSelf => {
            if !has(t, "parent_id") {
                t.columns.push(col("parent_id", int(), false));
                let n = t.name.clone();
                t.constraints.push(TableConstraint::ForeignKey { name: None, columns: vec!["parent_id".into()], ref_table: n, ref_columns: vec!["id".into()], on_delete: None, on_update: None });
            }
        }
        Feature::Index => {
            if !has(t, "ix") {
                t.columns.push(col("ix", int(), false));
                t.constraints.push(TableConstraint::Index { name: None, columns: vec!["ix".into()] });
            }
        }
        Feature::CompositeIndex => {
            if !has(t, "ci_a") {
                t.columns.push(col("ci_a", int(), false));
                t.columns.push(col("ci_b", int(), false));
                t.constraints.push(TableConstraint::Index { name: None, columns: vec!["ci_a".into(), "ci_b".into()] });
            }
        }
        Feature::CompositeUnique => {
            if !has(t, "cu_a") {
                t.columns.push(col("cu_a", int(), false));
                t.columns.push(col("cu_b", int(), false));
                t.constraints.push(TableConstraint::Unique { name: None, columns: vec!["cu_a".into(), "cu_b".into()] });
            }
        }
        Feature::ServerDefault => {
            if !has(t, "sd") {
                let mut c = col("sd", int(), false);
                c.default = Some(DefaultValue::String("abs(1)".into()));
                t.columns.push(c);
            }
        }
    }
}

fn base_table(name: String) -> TableDef {
    let mut t = TableDef { name, description: None, columns: vec![col("id", int(), false)], constraints: vec![] };
    t.constraints.push(TableConstraint::PrimaryKey { auto_increment: false, columns: vec!["id".into()] });
    t
}

/// For every pair of import features one table in which they co-occur (so every pair of importable names of every
/// import line meets in some table), single-feature tables, and all-at-once tables; packed a few tables per set.
/// Deterministic: no random choice.
pub fn gen_import_sets(per_set: usize) -> Vec<Vec<TableDef>> {
    let fs = import_features();
    let mut tables: Vec<TableDef> = vec![];
    for (i, f) in fs.iter().enumerate() {
        let mut t = base_table(format!("one_{}", i));
        apply_feature(&mut t, *f);
        tables.push(t);
        for (j, g) in fs.iter().enumerate().skip(i + 1) {
            let mut t = base_table(format!("pair_{}_{}", i, j));
            apply_feature(&mut t, *f);
            apply_feature(&mut t, *g);
            tables.push(t);
        }
    }
    let mut all = base_table("all_features".into());
    for f in &fs {
        apply_feature(&mut all, *f);
    }
    tables.push(all);
    // the same features inserted in the opposite order (another insertion history of the hash sets)
    let mut rev = base_table("all_features_reversed".into());
    for f in fs.iter().rev() {
        apply_feature(&mut rev, *f);
    }
    tables.push(rev);
    let mut out = vec![];
    for chunk in tables.chunks(per_set.max(1)) {
        if let Some(n) = normalized_slice(chunk) {
            if gener::loader_accepts(&n) {
                out.push(n);
                continue;
            }
        }
        // should not happen: keep the tables one per set so that nothing is silently dropped
        for t in chunk {
            out.push(vec![t.clone()]);
        }
    }
    out
}

// ------------------------------------------------------------------ systematic name shapes (C17)
/// Shapes for every name-sanitising function of the exporters (sanitize_field_name, to_pascal_case,
/// enum_variant_name, pluralize, to_snake_case, infer_field_name_from_fk_column, generate_relation_enum_name and the
/// Python to_pascal_case / to_screaming_snake_case): leading / trailing / double separators, a separator followed
/// by a digit, digits only, mixed case, Rust and Python keywords, non-ASCII, empty after sanitising.
pub const NAME_SHAPES: &[&str] = &[
    "_x", "x_", "__x", "x__y", "_x_", "-x", "x-", "x--y", "-x-", "x-y_z", "_-x",
    "_2fa", "-5c", "__9", "x_2", "x-2y", "a_1_b",
    "2fa", "123", "0", "7_up", "9-to-5",
    "MixedCase", "camelCase", "UPPER", "UPPER_SNAKE", "Title_Case", "xY", "aB_cD",
    "type", "match", "self", "Self", "crate", "super", "fn", "async", "yield", "box", "try", "dyn", "mod",
    "class", "from", "import", "None", "def", "lambda", "pass", "True", "global",
    "이름", "été", "ß", "naïve_id", "x_이름",
    "", "_", "-", "__", "--", "_-_", "!", "a b", "a.b", "y", "key", "category", "status_id", "id",
];

/// One model set per shape `s`: a table with a column named `s`, a string enum and an integer enum that both have
/// the label `s` and are named after `s`; a table named `s`; a child table with two foreign keys `<s>_id` and
/// `owner_<s>_id` to it (forward, reverse and relation-enum names derived from `s`).  Deterministic.
pub fn gen_name_shape_sets() -> Vec<Vec<TableDef>> {
    let mut out = vec![];
    for (i, s) in NAME_SHAPES.iter().enumerate() {
        let mut sets: Vec<TableDef> = vec![];
        let mut a = base_table(format!("shape{}", i));
        if *s != "id" {
            a.columns.push(col(s, ColumnType::Simple(SimpleColumnType::Text), true));
        }
        let ename = if s.is_empty() { "e".to_string() } else { s.to_string() };
        let other = if *s == "plain" { "other" } else { "plain" };
        a.columns.push(col("es", ColumnType::Complex(ComplexColumnType::Enum { name: ename.clone(), values: EnumValues::String(vec![s.to_string(), other.to_string()]) }), false));
        a.columns.push(col("ei", ColumnType::Complex(ComplexColumnType::Enum { name: format!("{}_n", ename),
            values: EnumValues::Integer(vec![NumValue { name: s.to_string(), value: 1 }, NumValue { name: other.to_string(), value: 2 }]) }), true));
        sets.push(a);
        if !s.is_empty() {
            let b = base_table(s.to_string());
            let mut c = base_table(format!("child{}", i));
            for cn in [format!("{}_id", s), format!("owner_{}_id", s)] {
                c.columns.push(col(&cn, int(), false));
                c.constraints.push(TableConstraint::ForeignKey { name: None, columns: vec![cn], ref_table: s.to_string(), ref_columns: vec!["id".into()], on_delete: None, on_update: None });
            }
            sets.push(b);
            sets.push(c);
        }
        match normalized_slice(&sets) {
            Some(n) if gener::loader_accepts(&n) => out.push(n),
            _ => {
                // keep what the loader accepts of it (the label table alone)
                if let Some(n) = normalized_slice(&sets[..1]) {
                    if gener::loader_accepts(&n) {
                        out.push(n);
                    }
                }
            }
        }
    }
    out
}

// ------------------------------------------------------------------ systematic FK-chain shapes (C16 / K-exp)
fn chain_table(name: &str, cols: &[&str]) -> TableDef {
    let mut t = base_table(name.to_string());
    for c in cols {
        t.columns.push(col(c, int(), true));
    }
    t
}
fn add_fk1(t: &mut TableDef, c: &str, rt: &str, rc: &str) {
    t.constraints.push(TableConstraint::ForeignKey { name: None, columns: vec![c.into()], ref_table: rt.into(), ref_columns: vec![rc.into()], on_delete: None, on_update: None });
}

/// Single-column FK chains of every shape the chain walk of the SeaORM exporter can meet: a head table whose FK
/// points at a tail of `tail` (0..=3) FK columns that leads into a cycle of `cycle` (0..=3; 0 = the chain just ends
/// at a key) FK columns — acyclic chains, pure cycles entered on the cycle, and rho shapes (tail INTO a cycle the
/// first referenced column is not part of).  Each shape in two table orders, plus the same shapes folded into
/// one table (columns of one table referencing each other) and chains through key columns.  Deterministic.
pub fn gen_fk_chain_sets() -> Vec<Vec<TableDef>> {
    let mut out: Vec<Vec<TableDef>> = vec![];
    for tail in 0..=3usize {
        for cycle in 0..=3usize {
            // nodes: t1..t<tail> then c1..c<cycle>; every node is column `k` of its own table
            let mut names: Vec<String> = (1..=tail).map(|i| format!("t{}", i)).collect();
            names.extend((1..=cycle).map(|i| format!("c{}", i)));
            let mut ts: Vec<TableDef> = names.iter().map(|n| chain_table(n, &["k"])).collect();
            ts.push(base_table("base".into()));
            let n = names.len();
            for i in 0..n {
                // every node points at the next one; the last node closes the cycle at its entry, or ends at a key
                let (rt, rc) = if i + 1 < n {
                    (names[i + 1].clone(), "k".to_string())
                } else if cycle > 0 {
                    (names[tail].clone(), "k".to_string())
                } else {
                    ("base".to_string(), "id".to_string())
                };
                add_fk1(&mut ts[i], "k", &rt, &rc);
            }
            let mut head = chain_table("head", &["ref"]);
            let first = if n > 0 { (names[0].clone(), "k".to_string()) } else { ("base".to_string(), "id".to_string()) };
            add_fk1(&mut head, "ref", &first.0, &first.1);
            ts.insert(0, head);
            let mut rev = ts.clone();
            rev.reverse();
            out.push(ts);
            out.push(rev);
        }
    }
    // the same shapes inside ONE table: columns x1..x<tail> then y1..y<cycle> reference each other
    for (tail, cycle) in [(1usize, 1usize), (1, 2), (2, 1), (3, 3), (2, 0)] {
        let mut cols: Vec<String> = (1..=tail).map(|i| format!("x{}", i)).collect();
        cols.extend((1..=cycle).map(|i| format!("y{}", i)));
        let refs: Vec<&str> = cols.iter().map(|c| c.as_str()).collect();
        let mut a = chain_table("node", &refs);
        for i in 0..cols.len() {
            if i + 1 < cols.len() {
                let nxt = cols[i + 1].clone();
                add_fk1(&mut a, &cols[i], "node", &nxt);
            } else if cycle > 0 {
                let entry = cols[tail].clone();
                add_fk1(&mut a, &cols[i], "node", &entry);
            } else {
                add_fk1(&mut a, &cols[i], "node", "id");
            }
        }
        let mut head = chain_table("head", &["ref"]);
        add_fk1(&mut head, "ref", "node", &cols[0]);
        out.push(vec![head, a]);
    }
    // chains through KEY columns (the key itself is a foreign key), tail into a key cycle
    {
        let mut session = chain_table("session", &["account_ref"]);
        add_fk1(&mut session, "account_ref", "account", "user_ref");
        let mut account = chain_table("account", &["user_ref"]);
        add_fk1(&mut account, "user_ref", "user", "id");
        let mut user = base_table("user".into());
        add_fk1(&mut user, "id", "profile", "user_id");
        let mut profile = chain_table("profile", &["user_id"]);
        add_fk1(&mut profile, "user_id", "user", "id");
        out.push(vec![session, account, user, profile]);
    }
    out.into_iter().filter_map(|m| normalized_slice(&m).filter(|n| gener::loader_accepts(n))).collect()
}

// ------------------------------------------------------------------ systematic column defaults (C17)
/// Default strings for every branch of the default handling of the three exporters: function calls, bare
/// expressions, booleans, numbers in every f64 spelling, quoted literals — among them quoted literals that contain
/// `(` / `)` / both (a call-looking text inside a string) — and unquoted text.
pub const DEFAULT_SHAPES: &[&str] = &[
    "now()", "gen_random_uuid()", "CURRENT_TIMESTAMP", "(1)", "abs(-1)", "nextval('seq')",
    "'N/A (legacy)'", "'(none)'", "'open ('", "'close )'", "')('", "\"x (y)\"", "\"(\"", "'a' || lower('B')",
    "'x'", "''", "'two words'", "\"dq\"", "'it''s'",
    "true", "false", "TRUE", "False",
    "0", "42", "-7", "+3", "1.5", ".5", "5.", "1e3", "1E-2", "-2.5e+10", "inf", "-inf", "Infinity", "NaN", "nan", "1e", "e5", ".", "1.2.3", "0x10", "1_000",
    "null", "NULL", "plain", "two words", "a+b", "-", "+",
];

/// For every default shape `d`: a table where `d` is the only default; a table where it sits next to a `now()`
/// column; one where it sits next to a `CURRENT_TIMESTAMP` column.  Also the typed spellings (bool / integer /
/// float defaults).  Deterministic.
pub fn gen_default_sets() -> Vec<Vec<TableDef>> {
    let text = || ColumnType::Simple(SimpleColumnType::Text);
    let ts = || ColumnType::Simple(SimpleColumnType::Timestamp);
    let mut out = vec![];
    for (i, d) in DEFAULT_SHAPES.iter().enumerate() {
        let mut set = vec![];
        for (k, neighbour) in [None, Some("now()"), Some("CURRENT_TIMESTAMP")].iter().enumerate() {
            let mut t = base_table(format!("dflt{}_{}", i, k));
            let mut c = col("v", text(), false);
            c.default = Some(DefaultValue::String(d.to_string()));
            t.columns.push(c);
            if let Some(n) = neighbour {
                let mut c2 = col("at", ts(), false);
                c2.default = Some(DefaultValue::String(n.to_string()));
                t.columns.push(c2);
            }
            set.push(t);
        }
        out.push(set);
    }
    let mut typed = base_table("dflt_typed".into());
    for (n, ty, d) in [
        ("b1", ColumnType::Simple(SimpleColumnType::Boolean), DefaultValue::Bool(true)),
        ("b0", ColumnType::Simple(SimpleColumnType::Boolean), DefaultValue::Bool(false)),
        ("i", int(), DefaultValue::Integer(-5)),
        ("f", ColumnType::Simple(SimpleColumnType::DoublePrecision), DefaultValue::Float(2.5)),
        ("big", ColumnType::Simple(SimpleColumnType::DoublePrecision), DefaultValue::Float(1e21)),
    ] {
        let mut c = col(n, ty, false);
        c.default = Some(d);
        typed.columns.push(c);
    }
    out.push(vec![typed]);
    // nullable x default (none / literal / number / function call / bare expression), and the same on key columns
    let mut matrix = base_table("dflt_matrix".into());
    for (ni, nullable) in [false, true].iter().enumerate() {
        for (di, d) in [None, Some("'en'"), Some("42"), Some("now()"), Some("CURRENT_TIMESTAMP"), Some("true")].iter().enumerate() {
            let mut c = col(&format!("c{}_{}", ni, di), text(), *nullable);
            c.default = d.map(|x| DefaultValue::String(x.to_string()));
            matrix.columns.push(c);
        }
    }
    out.push(vec![matrix]);
    for (k, (nullable, d)) in [(false, Some("0")), (true, None), (true, Some("7")), (false, Some("abs(1)"))].iter().enumerate() {
        let mut t = TableDef { name: format!("dflt_pk{}", k), description: None, columns: vec![], constraints: vec![] };
        let mut c = col("id", int(), *nullable);
        c.default = d.map(|x| DefaultValue::String(x.to_string()));
        t.columns.push(c);
        t.columns.push(col("other", text(), true));
        t.constraints.push(TableConstraint::PrimaryKey { auto_increment: false, columns: vec!["id".into()] });
        t.constraints.push(TableConstraint::Unique { name: None, columns: vec!["other".into()] });
        t.constraints.push(TableConstraint::Index { name: None, columns: vec!["id".into()] });
        out.push(vec![t]);
    }
    out.into_iter().filter_map(|m| normalized_slice(&m).filter(|n| gener::loader_accepts(n))).collect()
}

// ------------------------------------------------------------------ relation-enum collisions (C16 / C17)
/// Table names whose PascalCase form is empty or odd, each on a table that carries foreign keys whose relation enums
/// collide: `owner_id` and `owner` to one table (both give `Owner`), a third one `owner-id`, and two composite FKs
/// sharing their leading column ([org_id, user_id] / [org_id, team_id]) to one table.  Deterministic.
pub const ODD_TABLE_NAMES: &[&str] = &["_", "__", "-", "_-_", "--", "2", "9x", "!", "_1", "a", "Self"];

pub fn gen_relenum_sets() -> Vec<Vec<TableDef>> {
    let mut out = vec![];
    for n in ODD_TABLE_NAMES {
        for variant in 0..3usize {
            let user = base_table("user".into());
            let mut pair = TableDef { name: "pair".into(), description: None, columns: vec![col("a", int(), false), col("b", int(), false)], constraints: vec![] };
            pair.constraints.push(TableConstraint::PrimaryKey { auto_increment: false, columns: vec!["a".into(), "b".into()] });
            let mut t = base_table(n.to_string());
            let single: &[&str] = match variant {
                0 => &["owner_id", "owner"],
                1 => &["owner_id", "owner", "owner-id"],
                _ => &[],
            };
            for c in single {
                t.columns.push(col(c, int(), true));
                add_fk1(&mut t, c, "user", "id");
            }
            if variant != 0 {
                for c in ["org_id", "user_id", "team_id"] {
                    t.columns.push(col(c, int(), true));
                }
                for second in ["user_id", "team_id"] {
                    t.constraints.push(TableConstraint::ForeignKey { name: None, columns: vec!["org_id".into(), second.into()], ref_table: "pair".into(),
                        ref_columns: vec!["a".into(), "b".into()], on_delete: None, on_update: None });
                }
            }
            out.push(vec![user, pair, t]);
        }
    }
    out.into_iter().filter_map(|m| normalized_slice(&m).filter(|x| gener::loader_accepts(x))).collect()
}

// ------------------------------------------------------------------ free text in comments and descriptions (C17)
/// Texts for every way a column comment / table description is spliced into the three outputs (`# ...`, docstring,
/// `/// ...`): line breaks of every kind, trailing / leading break, a leading '#', triple quotes, a trailing quote, a
/// backslash (also at a line end), tabs, non-ASCII, empty and blank.
pub const TEXT_SHAPES: &[&str] = &[
    "line1\nline2", "a\r\nb", "a\rb", "trailing\n", "\nleading", "trailing cr\r", "two\n\nblank", "a\n# b", "x\\\ny",
    "# hash first", "has \"\"\" triple", "ends with quote\"", "'single' and \"double\"", "back\\slash", "line end backslash\\",
    "tab\there", "\u{c8fc}\u{c11d} \u{e9} \u{df}", "", "   ", "*/ not a block", "/// slashes", "}", "pub x: i32,", "class X:", "    indented",
];

/// Per text: one table that carries it as its description, one whose column carries it as comment, one with both.
pub fn gen_text_sets() -> Vec<Vec<TableDef>> {
    let mut out = vec![];
    for (i, s) in TEXT_SHAPES.iter().enumerate() {
        let mut a = base_table(format!("txt{}_d", i));
        a.description = Some(s.to_string());
        a.columns.push(col("v", ColumnType::Simple(SimpleColumnType::Text), true));
        let mut b = base_table(format!("txt{}_c", i));
        let mut c = col("v", ColumnType::Simple(SimpleColumnType::Text), true);
        c.comment = Some(s.to_string());
        b.columns.push(c.clone());
        let mut both = base_table(format!("txt{}_b", i));
        both.description = Some(s.to_string());
        both.columns.push(c);
        both.columns.push(col("after", int(), false));
        out.push(vec![a, b, both]);
    }
    out.into_iter().filter_map(|m| normalized_slice(&m).filter(|x| gener::loader_accepts(x))).collect()
}
