//! hsqlite: SQLite SQL-generation cases for the `sqlite` layer (C02 / C05 / C14 / C19).
//!   hsqlite gen --seed S --histories N --steps K --out DIR [--corpus DIR] [--prefix P]
//! For every migration of every history it prints one JSON line (cases.jsonl) holding
//!   * the replayed baseline before the migration (real `schema_from_plans`) as JSON and as a Gallina term,
//!   * the plan (JSON + Gallina action list),
//!   * the replayed baseline after the migration (JSON; the catalog the tool believes in),
//!   * per action the SQLite statements of the real `build_plan_queries(..).sqlite[*].build(Sqlite)`
//!     (empty strings dropped the way every consumer drops them), or the panic / error outcome.
//! Nothing is judged here: the Python side executes the statements on libsqlite3 and writes the
//! Coq shards.
mod assume;
use std::collections::BTreeSet;
use std::fmt::Write as _;
use std::panic::{AssertUnwindSafe, catch_unwind};
use std::path::PathBuf;

use serde_json::{Value, json};
use vcommon::fill::revision_fill;
use vcommon::gallina::G;
use vcommon::gener::{self, Profile};
use vcommon::rng::Rng;
use vespertide_core::schema::foreign_key::ForeignKeySyntax;
use vespertide_core::{
    ColumnDef, ColumnType, ComplexColumnType, MigrationAction, MigrationPlan, SimpleColumnType, TableConstraint,
    TableDef,
};
use vespertide_planner::{plan_next_migration, schema_from_plans, validate_migration_plan};
use vespertide_query::{DatabaseBackend, build_plan_queries};

fn arg(args: &[String], k: &str, d: &str) -> String {
    args.iter().position(|a| a == k).and_then(|i| args.get(i + 1).cloned()).unwrap_or_else(|| d.to_string())
}

fn kind_of(a: &MigrationAction) -> &'static str {
    use MigrationAction::*;
    match a {
        CreateTable { .. } => "CreateTable",
        DeleteTable { .. } => "DeleteTable",
        AddColumn { .. } => "AddColumn",
        RenameColumn { .. } => "RenameColumn",
        DeleteColumn { .. } => "DeleteColumn",
        ModifyColumnType { .. } => "ModifyColumnType",
        ModifyColumnNullable { .. } => "ModifyColumnNullable",
        ModifyColumnDefault { .. } => "ModifyColumnDefault",
        ModifyColumnComment { .. } => "ModifyColumnComment",
        AddConstraint { .. } => "AddConstraint",
        RemoveConstraint { .. } => "RemoveConstraint",
        RenameTable { .. } => "RenameTable",
        RawSql { .. } => "RawSql",
    }
}

fn normalized(s: &[TableDef]) -> Vec<TableDef> {
    s.iter().map(|t| t.normalize().unwrap_or_else(|_| t.clone())).collect()
}

/// One migration: baseline (replay of `history`), `plan`; returns the JSON record.
fn emit(history: &[MigrationPlan], plan: &MigrationPlan, tag: &str, hist: usize, step: usize, how: &str, models: Option<&[TableDef]>) -> Value {
    let baseline = schema_from_plans(history).unwrap_or_default();
    let mut h2 = history.to_vec();
    h2.push(plan.clone());
    let post = schema_from_plans(&h2);
    // the real generator, whole plan; each statement rendered separately so that a sea-query panic
    // is attributed to its action
    let built = catch_unwind(AssertUnwindSafe(|| build_plan_queries(plan, &baseline)));
    let mut actions: Vec<Value> = vec![];
    let mut build_error: Option<String> = None;
    let mut build_panic = false;
    match built {
        Err(_) => build_panic = true,
        Ok(Err(e)) => build_error = Some(e.to_string()),
        Ok(Ok(pqs)) => {
            for pq in &pqs {
                let mut sqls: Vec<String> = vec![];
                let mut panicked = false;
                for q in &pq.sqlite {
                    match catch_unwind(AssertUnwindSafe(|| q.build(DatabaseBackend::Sqlite))) {
                        Ok(s) => {
                            if !s.is_empty() {
                                sqls.push(s)
                            }
                        }
                        Err(_) => {
                            panicked = true;
                            break;
                        }
                    }
                }
                actions.push(json!({"kind": kind_of(&pq.action), "sql": sqls, "panic": panicked}));
            }
        }
    }
    let kinds: BTreeSet<&str> = plan.actions.iter().map(kind_of).collect();
    json!({
        "hist": hist, "step": step, "tag": tag, "how": how,
        "baseline": normalized(&baseline),
        "baseline_raw_differs": normalized(&baseline) != baseline,
        "plan": plan,
        "post": post.as_ref().ok().map(|p| normalized(p)),
        "post_error": post.as_ref().err().map(|e| e.to_string()),
        "actions": actions, "build_error": build_error, "build_panic": build_panic,
        "g_baseline": baseline.gs(), "g_actions": plan.actions.gs(),
        "n_actions": plan.actions.len(), "action_kinds": kinds, "n_tables": baseline.len(),
        "models": models,
    })
}

// ------------------------------------------------------------------ hand-extended migrations
const NEW_TABLES: &[&str] = &["account", "member", "entry", "doc", "t2", "grp"];
const NEW_COLS: &[&str] = &["label", "note", "code", "ref_id", "flag", "pos", "title"];

/// quoted literals and casts for text columns (defaults and fill values never coincide: disjoint pools)
const TEXT_DEFAULTS: &[&str] = &["'::1'", "'a::b'", "'x'::text", "'a''b'::varchar", "'it''s'", "'ends::'", "'(p)'", "'d::e'::text", " 'sp' "];
const TEXT_FILLS: &[&str] = &["'::2'", "'::'", "'std::string'", "'y'::text", "'q''r'::varchar", "'o''k'", "'z::'", "'(x)'::text", "'f::g'::varchar", "'''::'"];

fn int_like(t: &ColumnType) -> bool {
    matches!(t, ColumnType::Simple(SimpleColumnType::Integer | SimpleColumnType::BigInt | SimpleColumnType::SmallInt))
}

/// A hand-written plan over `baseline` (1–3 actions of the kinds the planner never emits, sometimes mixed
/// with an AddColumn so that rebuilds meet explicit constraint actions). Returns the plan and the renames
/// it performs (table renames, column renames) so that later model sets can follow.
fn hand_plan(rng: &mut Rng, baseline: &[TableDef], version: u32) -> Option<(MigrationPlan, Vec<(String, String)>, Vec<(String, String, String)>)> {
    if baseline.is_empty() {
        return None;
    }
    let mut cur = baseline.to_vec();
    let mut actions = vec![];
    let mut trenames = vec![];
    let mut crenames = vec![];
    let n = rng.range(1, 3);
    for _ in 0..n {
        if cur.is_empty() {
            break;
        }
        let ti = rng.below(cur.len());
        let t = cur[ti].clone();
        let a: Option<MigrationAction> = match rng.below(14) {
            0 | 1 => {
                // RenameTable
                let mut pool = NEW_TABLES.to_vec();
                rng.shuffle(&mut pool);
                pool.into_iter().find(|n| !cur.iter().any(|x| x.name == *n)).map(|to| {
                    trenames.push((t.name.clone(), to.to_string()));
                    MigrationAction::RenameTable { from: t.name.clone(), to: to.to_string() }
                })
            }
            2 | 3 => {
                // RenameColumn
                let ci = rng.below(t.columns.len().max(1));
                let mut pool = NEW_COLS.to_vec();
                rng.shuffle(&mut pool);
                match (t.columns.get(ci), pool.into_iter().find(|n| !t.columns.iter().any(|c| c.name == *n))) {
                    (Some(c), Some(to)) => {
                        crenames.push((t.name.clone(), c.name.clone(), to.to_string()));
                        Some(MigrationAction::RenameColumn { table: t.name.clone(), from: c.name.clone(), to: to.to_string() })
                    }
                    _ => None,
                }
            }
            4 | 5 => {
                // explicit AddConstraint: index / unique
                let names: Vec<String> = t.columns.iter().map(|c| c.name.clone()).collect();
                if names.is_empty() {
                    None
                } else {
                    let k = rng.range(1, names.len().min(2));
                    let mut p = names;
                    rng.shuffle(&mut p);
                    let cols: Vec<String> = p.into_iter().take(k).collect();
                    let name = if rng.chance(1, 3) { Some(rng.pick(gener::NAME_POOL).to_string()) } else { None };
                    let c = if rng.chance(1, 2) { TableConstraint::Index { name, columns: cols } } else { TableConstraint::Unique { name, columns: cols } };
                    if t.constraints.contains(&c) { None } else { Some(MigrationAction::AddConstraint { table: t.name.clone(), constraint: c }) }
                }
            }
            6 => {
                // explicit AddConstraint: check over an integer column
                t.columns.iter().find(|c| int_like(&c.r#type)).map(|c| MigrationAction::AddConstraint {
                    table: t.name.clone(),
                    constraint: TableConstraint::Check { name: rng.pick(&["chk_pos", "ck1", "ck2"]).to_string(), expr: format!("{} > 0", c.name) },
                })
            }
            7 => {
                // explicit AddConstraint: foreign key to another table's single-column primary key
                if cur.len() < 2 {
                    None
                } else {
                    let oi = (ti + 1 + rng.below(cur.len() - 1)) % cur.len();
                    let target = cur[oi].clone();
                    let tpk = gener::pk_columns(&target);
                    if tpk.len() != 1 {
                        None
                    } else {
                        let rty = target.columns.iter().find(|c| c.name == tpk[0]).map(|c| c.r#type.clone());
                        let local = t.columns.iter().find(|c| Some(&c.r#type) == rty.as_ref() && !gener::pk_columns(&t).contains(&c.name)
                            && !t.constraints.iter().any(|k| matches!(k, TableConstraint::ForeignKey { columns, .. } if columns.contains(&c.name))));
                        local.map(|c| MigrationAction::AddConstraint {
                            table: t.name.clone(),
                            constraint: TableConstraint::ForeignKey {
                                name: if rng.chance(1, 3) { Some("k1".into()) } else { None },
                                columns: vec![c.name.clone()],
                                ref_table: target.name.clone(),
                                ref_columns: tpk.clone(),
                                on_delete: if rng.chance(1, 2) { Some(rng.pick(&gener::ref_actions()).clone()) } else { None },
                                on_update: None,
                            },
                        })
                    }
                }
            }
            8 | 9 => {
                // explicit RemoveConstraint of something that exists (primary keys rarely)
                if t.constraints.is_empty() {
                    None
                } else {
                    let k = rng.pick(&t.constraints).clone();
                    // A1: a key that a foreign key of some table targets is not removed by hand
                    let targeted = matches!(k, TableConstraint::PrimaryKey { .. } | TableConstraint::Unique { .. })
                        && cur.iter().any(|o| o.constraints.iter().any(|f| matches!(f, TableConstraint::ForeignKey { ref_table, ref_columns, .. } if *ref_table == t.name && ref_columns.as_slice() == k.columns())));
                    if targeted || (matches!(k, TableConstraint::PrimaryKey { .. }) && !rng.chance(1, 4)) { None } else { Some(MigrationAction::RemoveConstraint { table: t.name.clone(), constraint: k }) }
                }
            }
            10 => Some(MigrationAction::RawSql { sql: "SELECT 1".into() }),
            _ => {
                // an AddColumn next to the explicit actions: nullable plain, NOT NULL with default (a rebuild), and — as a
                // hand-written plan or `revision --fill-with` may — a column that declares a default AND carries a fill_with
                // that differs from it (integer / text / enum, NOT NULL and nullable), so that the backfill precedence
                // (fill_with, then default, then NULL) is observable in the SQL and in the rows
                let mut pool = NEW_COLS.to_vec();
                rng.shuffle(&mut pool);
                pool.into_iter().find(|n| !t.columns.iter().any(|c| c.name == *n)).map(|cn| {
                    let notnull = rng.chance(1, 2);
                    let kind = rng.below(3);
                    let ty = match kind {
                        0 => ColumnType::Simple(SimpleColumnType::Integer),
                        1 => ColumnType::Simple(SimpleColumnType::Text),
                        _ => ColumnType::Complex(vespertide_core::ComplexColumnType::Enum {
                            name: "tier".into(),
                            values: vespertide_core::EnumValues::String(vec!["basic".into(), "legacy".into(), "gold".into()]),
                        }),
                    };
                    let mut c: ColumnDef = gener::col(cn, ty, !notnull);
                    let both = rng.chance(1, 2);
                    let with_default = notnull || both || rng.chance(1, 3);
                    // text defaults / fills: half of them are literals the PostgreSQL-cast parser of convert_default_for_backend
                    // has to look at — `::` inside a quoted literal (not a cast), a literal that ends in `::`, doubled quotes,
                    // parentheses — and genuine casts ('x'::text, 'a''b'::varchar, 7::integer), whose cast SQLite drops
                    let tricky = rng.chance(1, 2);
                    if with_default {
                        c.default = Some(match kind {
                            0 => vespertide_core::DefaultValue::Integer(0),
                            1 if tricky => vespertide_core::DefaultValue::String((*rng.pick(TEXT_DEFAULTS)).to_string()),
                            _ => vespertide_core::DefaultValue::String("'basic'".into()),
                        });
                    }
                    let fill_with = if both || (!with_default && rng.chance(1, 2)) {
                        Some(match kind {
                            0 if tricky => (*rng.pick(&["7::integer", " 7 :: bigint ", "7"])).to_string(),
                            0 => "7".to_string(),
                            1 if tricky => (*rng.pick(TEXT_FILLS)).to_string(),
                            _ => "'legacy'".to_string(),
                        })
                    } else {
                        None
                    };
                    if kind == 0 && rng.chance(1, 2) {
                        c.index = Some(vespertide_core::StrOrBoolOrArray::Bool(true));
                    }
                    MigrationAction::AddColumn { table: t.name.clone(), column: Box::new(c), fill_with }
                })
            }
        };
        if let Some(a) = a {
            let mut next = cur.clone();
            if vespertide_planner::apply_action(&mut next, &a).is_ok() {
                cur = next;
                actions.push(a);
            }
        }
    }
    if actions.is_empty() {
        return None;
    }
    Some((MigrationPlan { id: String::new(), comment: Some("hand".into()), created_at: None, version, actions }, trenames, crenames))
}

fn rename_table_in_models(m: &mut [TableDef], from: &str, to: &str) {
    if m.iter().any(|t| t.name == to) {
        return;
    }
    for t in m.iter_mut() {
        if t.name == from {
            t.name = to.to_string();
        }
        for k in t.constraints.iter_mut() {
            if let TableConstraint::ForeignKey { ref_table, .. } = k {
                if ref_table == from {
                    *ref_table = to.to_string();
                }
            }
        }
        for c in t.columns.iter_mut() {
            match &mut c.foreign_key {
                Some(ForeignKeySyntax::String(s)) => {
                    if let Some(rest) = s.strip_prefix(&format!("{}.", from)) {
                        *s = format!("{}.{}", to, rest);
                    }
                }
                Some(ForeignKeySyntax::Reference(r)) => {
                    if let Some(rest) = r.references.strip_prefix(&format!("{}.", from)) {
                        r.references = format!("{}.{}", to, rest);
                    }
                }
                Some(ForeignKeySyntax::Object(o)) => {
                    if o.ref_table == from {
                        o.ref_table = to.to_string();
                    }
                }
                None => {}
            }
        }
    }
}

fn rename_column_in_models(m: &mut [TableDef], table: &str, from: &str, to: &str) {
    let Some(ti) = m.iter().position(|t| t.name == table) else { return };
    if m[ti].columns.iter().any(|c| c.name == to) || !m[ti].columns.iter().any(|c| c.name == from) {
        return;
    }
    for c in m[ti].columns.iter_mut() {
        if c.name == from {
            c.name = to.to_string();
        }
    }
    let ren = |l: &mut Vec<String>| {
        for x in l.iter_mut() {
            if x == from {
                *x = to.to_string();
            }
        }
    };
    for k in m[ti].constraints.iter_mut() {
        match k {
            TableConstraint::PrimaryKey { columns, .. } | TableConstraint::Unique { columns, .. } | TableConstraint::Index { columns, .. } => ren(columns),
            TableConstraint::ForeignKey { columns, .. } => ren(columns),
            TableConstraint::Check { .. } => {}
        }
    }
    // references from other tables (and self references)
    for t in m.iter_mut() {
        for k in t.constraints.iter_mut() {
            if let TableConstraint::ForeignKey { ref_table, ref_columns, .. } = k {
                if ref_table == table {
                    ren(ref_columns);
                }
            }
        }
        for c in t.columns.iter_mut() {
            match &mut c.foreign_key {
                Some(ForeignKeySyntax::String(s)) if *s == format!("{}.{}", table, from) => *s = format!("{}.{}", table, to),
                Some(ForeignKeySyntax::Reference(r)) if r.references == format!("{}.{}", table, from) => r.references = format!("{}.{}", table, to),
                Some(ForeignKeySyntax::Object(o)) if o.ref_table == table => ren(&mut o.ref_columns),
                _ => {}
            }
        }
    }
}

/// types the SQLite backend of sea-query cannot render (it panics): kept rare, not excluded
fn has_unrenderable(m: &[TableDef]) -> bool {
    m.iter().any(|t| {
        t.columns.iter().any(|c| match &c.r#type {
            ColumnType::Simple(SimpleColumnType::Interval) => true,
            ColumnType::Complex(ComplexColumnType::Numeric { precision, .. }) => *precision > 16,
            _ => false,
        })
    })
}

// ------------------------------------------------------------------ the `pending constraints` family
/// Evolutions (and hand-written plans) in which the pending set of build_plan_queries (builder.rs:30-58) matters:
/// two or three tables with the same column names and IDENTICAL index / unique constraints (same optional name, same
/// column list); one step adds a rebuilding constraint (CHECK / FOREIGN KEY) to one table and the shared index / unique to
/// another; plus the same-table shape (AddColumn with an inline index + a rebuilding AddConstraint + the index's own
/// AddConstraint).  Returns the model sets and, optionally, an explicit hand-ordered plan for the last step.
fn pending_family(rng: &mut Rng) -> (Vec<Vec<TableDef>>, Option<Vec<MigrationAction>>) {
    let mut names: Vec<&str> = vec!["a", "b", "item", "post", "tag", "user"];
    rng.shuffle(&mut names);
    let mut tn: Vec<String> = names.into_iter().take(rng.range(2, 3)).map(|s| s.to_string()).collect();
    tn.sort();
    let int = ColumnType::Simple(SimpleColumnType::Integer);
    let mk = |name: &str| -> TableDef {
        let mut t = TableDef { name: name.to_string(), description: None, columns: vec![], constraints: vec![] };
        t.columns.push(gener::col("id", int.clone(), false));
        for c in ["x", "y", "z", "p_id"] {
            t.columns.push(gener::col(c, int.clone(), true));
        }
        t.constraints.push(TableConstraint::PrimaryKey { auto_increment: false, columns: vec!["id".into()] });
        t
    };
    let mut parent = TableDef { name: "p".into(), description: None, columns: vec![gener::col("id", int.clone(), false)], constraints: vec![] };
    parent.constraints.push(TableConstraint::PrimaryKey { auto_increment: false, columns: vec!["id".into()] });
    // the shared constraints
    let mut shared: Vec<TableConstraint> = vec![];
    for _ in 0..rng.range(1, 2) {
        let mut cols = vec!["x", "y", "z"];
        rng.shuffle(&mut cols);
        let cols: Vec<String> = cols.into_iter().take(rng.range(1, 2)).map(|s| s.to_string()).collect();
        let name = if rng.chance(1, 2) { Some(rng.pick(&["k1", "k2", "main"]).to_string()) } else { None };
        let k = if rng.chance(1, 2) { TableConstraint::Index { name, columns: cols } } else { TableConstraint::Unique { name, columns: cols } };
        if !shared.iter().any(|s| s.columns() == k.columns() || (matches!((s, &k), (TableConstraint::Index { name: Some(a), .. }, TableConstraint::Index { name: Some(b), .. }) | (TableConstraint::Unique { name: Some(a), .. }, TableConstraint::Unique { name: Some(b), .. }) if a == b))) {
            shared.push(k);
        }
    }
    let rebuilder = |rng: &mut Rng| -> TableConstraint {
        match rng.below(3) {
            0 => TableConstraint::Check { name: rng.pick(&["ck1", "ck2"]).to_string(), expr: "id > 0".into() },
            _ => TableConstraint::ForeignKey {
                name: None,
                columns: vec!["p_id".into()],
                ref_table: "p".into(),
                ref_columns: vec!["id".into()],
                on_delete: if rng.chance(1, 2) { Some(rng.pick(&gener::ref_actions()).clone()) } else { None },
                on_update: None,
            },
        }
    };
    let shape = rng.below(4);
    let mut m1: Vec<TableDef> = vec![parent.clone()];
    let mut m2: Vec<TableDef> = vec![parent.clone()];
    let who_has = rng.below(tn.len()); // the table that already owns the shared constraints
    let mut hand: Vec<MigrationAction> = vec![];
    for (i, n) in tn.iter().enumerate() {
        let mut t1 = mk(n);
        let mut t2 = mk(n);
        if shape == 3 {
            // same-table shape: a new column with an inline index, a rebuilding constraint, the index's own AddConstraint
            if i == who_has {
                let mut c = gener::col("w", int.clone(), true);
                c.index = Some(vespertide_core::StrOrBoolOrArray::Bool(true));
                t2.columns.push(c);
                t2.constraints.push(rebuilder(rng));
                t1.constraints.extend(shared.clone());
                t2.constraints.extend(shared.clone());
            }
        } else if i == who_has {
            t1.constraints.extend(shared.clone());
            t2.constraints.extend(shared.clone());
            let k = rebuilder(rng);
            t2.constraints.push(k.clone());
            hand.insert(0, MigrationAction::AddConstraint { table: n.clone(), constraint: k });
        } else {
            // the others receive the shared constraints (all or one) in the second step; sometimes a rebuild of their own
            let take = if shape == 0 { shared.len() } else { 1 };
            for k in shared.iter().take(take) {
                t2.constraints.push(k.clone());
                hand.push(MigrationAction::AddConstraint { table: n.clone(), constraint: k.clone() });
            }
            if shape == 2 {
                let k = rebuilder(rng);
                t2.constraints.push(k.clone());
                hand.push(MigrationAction::AddConstraint { table: n.clone(), constraint: k });
            }
        }
        m1.push(t1);
        m2.push(t2);
    }
    // half of the time the last step is the hand-ordered plan (rebuild first, whatever the table names), else the planner's order
    let explicit = if shape != 3 && rng.chance(1, 2) { Some(hand) } else { None };
    (vec![m1, m2], explicit)
}

struct Out {
    lines: Vec<Value>,
}

fn run_history(out: &mut Out, rng: &mut Rng, evo: &mut Vec<Vec<TableDef>>, hist: usize, tag: &str, hand: bool) {
    let mut history: Vec<MigrationPlan> = vec![];
    let mut step = 0usize;
    let n = evo.len();
    for si in 0..n {
        let models = evo[si].clone();
        let r = catch_unwind(AssertUnwindSafe(|| plan_next_migration(&models, &history)));
        let Ok(Ok(p)) = r else { break };
        let baseline = schema_from_plans(&history).unwrap_or_default();
        let Some(filled) = revision_fill(&p, &baseline) else { continue };
        let filled = MigrationPlan { version: p.version, ..filled };
        if filled.actions.is_empty() {
            continue;
        }
        if validate_migration_plan(&filled).is_err() {
            continue;
        }
        let mut h2 = history.clone();
        h2.push(filled.clone());
        if schema_from_plans(&h2).is_err() {
            break;
        }
        out.lines.push(emit(&history, &filled, tag, hist, step, "grown", Some(&models)));
        history = h2;
        step += 1;
        // hand-extended migration in between
        if hand && rng.chance(1, 2) {
            let baseline = schema_from_plans(&history).unwrap_or_default();
            if let Some((hp, tr, cr)) = hand_plan(rng, &baseline, history.len() as u32 + 1) {
                let mut h3 = history.clone();
                h3.push(hp.clone());
                if validate_migration_plan(&hp).is_ok() && schema_from_plans(&h3).is_ok() {
                    out.lines.push(emit(&history, &hp, tag, hist, step, "hand", None));
                    history = h3;
                    step += 1;
                    for later in evo.iter_mut().skip(si + 1) {
                        for (f, t) in &tr {
                            rename_table_in_models(later, f, t);
                        }
                        for (t, f, to) in &cr {
                            // the table may itself have been renamed by this plan
                            let tn = tr.iter().find(|(a, _)| a == t).map(|(_, b)| b.clone()).unwrap_or(t.clone());
                            rename_column_in_models(later, &tn, f, to);
                        }
                    }
                }
            }
        }
    }
}

fn main() {
    let args: Vec<String> = std::env::args().collect();
    let cmd = args.get(1).cloned().unwrap_or_default();
    if cmd != "gen" {
        eprintln!("usage: hsqlite gen --seed S --histories N --steps K --out DIR [--corpus DIR]");
        std::process::exit(2);
    }
    // a panic inside catch_unwind is an outcome; keep stderr quiet
    std::panic::set_hook(Box::new(|_| {}));
    let seed: u64 = arg(&args, "--seed", "1").parse().unwrap_or(1);
    let n: usize = arg(&args, "--histories", "50").parse().unwrap();
    let steps: usize = arg(&args, "--steps", "4").parse().unwrap();
    let outdir = PathBuf::from(arg(&args, "--out", "out"));
    let corpus = arg(&args, "--corpus", "");
    let n_pending: usize = arg(&args, "--pending", "0").parse().unwrap_or(0);
    let mut rng = Rng::new(seed);
    let mut out = Out { lines: vec![] };
    let mut hist = 0usize;
    let mut rejected = 0usize;
    let mut outside = 0usize;

    // corpus first. A file holds either {"history":[plan…]} (explicit migrations, possibly hand-written)
    // or {"models":[[TableDef…]…]} (an evolution, grown by the real planner).
    if !corpus.is_empty() {
        if let Ok(rd) = std::fs::read_dir(&corpus) {
            let mut files: Vec<_> = rd.filter_map(|e| e.ok()).map(|e| e.path()).filter(|p| p.extension().map(|x| x == "json").unwrap_or(false)).collect();
            files.sort();
            for f in files {
                let Ok(txt) = std::fs::read_to_string(&f) else { continue };
                let Ok(v) = serde_json::from_str::<Value>(&txt) else { continue };
                let tag = format!("corpus:{}", f.file_name().unwrap().to_string_lossy());
                if let Some(h) = v.get("history").and_then(|h| serde_json::from_value::<Vec<MigrationPlan>>(h.clone()).ok()) {
                    let mut history: Vec<MigrationPlan> = vec![];
                    for (si, p) in h.iter().enumerate() {
                        out.lines.push(emit(&history, p, &tag, hist, si, "corpus", None));
                        history.push(p.clone());
                    }
                    hist += 1;
                } else if let Some(ms) = v.get("models").and_then(|m| serde_json::from_value::<Vec<Vec<TableDef>>>(m.clone()).ok()) {
                    let mut evo = ms;
                    run_history(&mut out, &mut rng, &mut evo, hist, &tag, false);
                    hist += 1;
                }
            }
        }
    }
    for _ in 0..n {
        let mut evo = gener::gen_evolution(&mut rng, steps, Profile::Engine, &mut rejected);
        // types sea-query cannot render on SQLite make every statement of the table panic: keep 1 in 8
        if evo.iter().any(|m| has_unrenderable(m)) && !rng.chance(1, 8) {
            for m in evo.iter_mut() {
                for t in m.iter_mut() {
                    for c in t.columns.iter_mut() {
                        match &mut c.r#type {
                            ColumnType::Simple(s @ SimpleColumnType::Interval) => *s = SimpleColumnType::Time,
                            ColumnType::Complex(ComplexColumnType::Numeric { precision, .. }) if *precision > 16 => *precision = 12,
                            _ => {}
                        }
                    }
                }
            }
        }
        // explicit CHECK constraints stop almost every history at its first CREATE TABLE (DESIGN D11): keep them in 1 of 6
        if !rng.chance(1, 6) {
            for m in evo.iter_mut() {
                for t in m.iter_mut() {
                    t.constraints.retain(|k| !matches!(k, TableConstraint::Check { .. }));
                }
            }
        }
        // keep the longest prefix of the evolution that satisfies A1–A7 (DESIGN.md §4.2)
        let mut keep = 0;
        // A3 across the whole history: every table name ever used is distinct, case-insensitively, from every other one
        let mut seen_names: Vec<TableDef> = vec![];
        for i in 0..evo.len() {
            if assume::violated(&evo[i]).is_some()
                || (i > 0 && assume::retypes_fk_endpoint(&evo[i - 1], &evo[i]))
                || assume::case_clash(&seen_names, &evo[i])
            {
                break;
            }
            for t in &evo[i] {
                if !seen_names.iter().any(|x| x.name == t.name) {
                    seen_names.push(TableDef { name: t.name.clone(), description: None, columns: vec![], constraints: vec![] });
                }
            }
            keep = i + 1;
        }
        if keep < evo.len() {
            outside += 1;
        }
        evo.truncate(keep);
        if evo.is_empty() {
            continue;
        }
        let hand = rng.chance(1, 2);
        run_history(&mut out, &mut rng, &mut evo, hist, if hand { "hand-extended" } else { "grown" }, hand);
        hist += 1;
    }
    // the pending-constraints family
    for _ in 0..n_pending {
        let (mut evo, explicit) = pending_family(&mut rng);
        match explicit {
            None => run_history(&mut out, &mut rng, &mut evo, hist, "pending-family", false),
            Some(acts) => {
                let last = evo.pop();
                run_history(&mut out, &mut rng, &mut evo, hist, "pending-family", false);
                // replay what was emitted for this history and append the hand-ordered plan
                let history: Vec<MigrationPlan> = out.lines.iter().filter(|l| l["hist"] == hist).filter_map(|l| serde_json::from_value(l["plan"].clone()).ok()).collect();
                let hp = MigrationPlan { id: String::new(), comment: Some("hand".into()), created_at: None, version: history.len() as u32 + 1, actions: acts };
                let mut h2 = history.clone();
                h2.push(hp.clone());
                if validate_migration_plan(&hp).is_ok() && schema_from_plans(&h2).is_ok() {
                    out.lines.push(emit(&history, &hp, "pending-family", hist, history.len(), "hand", last.as_deref()));
                }
            }
        }
        hist += 1;
    }
    std::fs::create_dir_all(&outdir).unwrap();
    let mut s = String::new();
    for v in &out.lines {
        let _ = writeln!(s, "{}", v);
    }
    std::fs::write(outdir.join("cases.jsonl"), s).unwrap();
    std::fs::write(outdir.join("meta.json"), json!({"seed": seed, "n_cases": out.lines.len(), "histories": hist, "rejected_edits": rejected, "truncated_outside_assumptions": outside}).to_string()).unwrap();
    println!("cases={} histories={} rejected_edits={}", out.lines.len(), hist, rejected);
}
