//! DESIGN.md §4.2: sanity assumptions A1–A7 as executable predicates over a loader-accepted model set
//! (and, for A6's second half, over two consecutive model sets).
use vespertide_core::{ColumnDef, ColumnType, ComplexColumnType, EnumValues, TableConstraint, TableDef};

fn plain_ident(s: &str) -> bool {
    let mut ch = s.chars();
    match ch.next() {
        Some(c) if c.is_ascii_alphabetic() || c == '_' => {}
        _ => return false,
    }
    ch.all(|c| c.is_ascii_alphanumeric() || c == '_') && s.len() <= 20
}

fn col<'a>(t: &'a TableDef, n: &str) -> Option<&'a ColumnDef> {
    t.columns.iter().find(|c| c.name == n)
}

fn distinct_ci(names: &[String]) -> bool {
    let mut seen = std::collections::BTreeSet::new();
    names.iter().all(|n| seen.insert(n.to_ascii_lowercase()))
}

/// None = all assumptions hold; Some(tag) names the first one violated.
pub fn violated(models: &[TableDef]) -> Option<&'static str> {
    let norm: Vec<TableDef> = match models.iter().map(|t| t.normalize()).collect::<Result<Vec<_>, _>>() {
        Ok(n) => n,
        Err(_) => return Some("loader"),
    };
    // A3
    if !distinct_ci(&norm.iter().map(|t| t.name.clone()).collect::<Vec<_>>()) {
        return Some("A3");
    }
    for t in &norm {
        if !plain_ident(&t.name) || !distinct_ci(&t.columns.iter().map(|c| c.name.clone()).collect::<Vec<_>>()) {
            return Some("A3");
        }
        if t.columns.iter().any(|c| !plain_ident(&c.name)) {
            return Some("A3");
        }
        if let Some(base) = t.name.strip_suffix("_temp") {
            if norm.iter().any(|x| x.name == base) {
                return Some("A3");
            }
        }
        if t.name == "vespertide_version" {
            return Some("A3");
        }
        let pks: Vec<&TableConstraint> = t.constraints.iter().filter(|k| matches!(k, TableConstraint::PrimaryKey { .. })).collect();
        // A2
        if pks.len() != 1 {
            return Some("A2");
        }
        if let TableConstraint::PrimaryKey { columns, auto_increment } = pks[0] {
            for c in columns {
                match col(t, c) {
                    Some(cd) if !cd.nullable => {}
                    _ => return Some("A2"),
                }
            }
            // inline and table-level spellings do not disagree
            let inline: Vec<&str> = t.columns.iter().filter(|c| c.primary_key.is_some()).map(|c| c.name.as_str()).collect();
            if !inline.is_empty() && inline != columns.iter().map(|s| s.as_str()).collect::<Vec<_>>() {
                return Some("A2");
            }
            // A5
            if *auto_increment && !(columns.len() == 1 && col(t, &columns[0]).map(|c| c.r#type.supports_auto_increment()).unwrap_or(false)) {
                return Some("A5");
            }
        }
        for k in &t.constraints {
            // user-chosen names plain
            match k {
                TableConstraint::Unique { name: Some(n), .. } | TableConstraint::Index { name: Some(n), .. } | TableConstraint::ForeignKey { name: Some(n), .. } => {
                    if !plain_ident(n) {
                        return Some("A3");
                    }
                }
                TableConstraint::Check { name, .. } if !plain_ident(name) => return Some("A3"),
                _ => {}
            }
            for c in k.columns() {
                if col(t, c).is_none() {
                    return Some("loader");
                }
            }
            // A1, A6
            if let TableConstraint::ForeignKey { columns, ref_table, ref_columns, .. } = k {
                let Some(rt) = norm.iter().find(|x| x.name == *ref_table) else { return Some("A1") };
                if columns.len() != ref_columns.len() || columns.is_empty() {
                    return Some("A1");
                }
                let is_key = rt.constraints.iter().any(|rk| match rk {
                    TableConstraint::PrimaryKey { columns: c, .. } | TableConstraint::Unique { columns: c, .. } => c == ref_columns,
                    _ => false,
                });
                if !is_key {
                    return Some("A1");
                }
                for (a, b) in columns.iter().zip(ref_columns.iter()) {
                    match (col(t, a), col(rt, b)) {
                        (Some(x), Some(y)) if x.r#type == y.r#type => {}
                        _ => return Some("A6"),
                    }
                }
            }
        }
        // A4: a string default of a non-enum column is a literal or a niladic function
        for c in &t.columns {
            if let (Some(vespertide_core::DefaultValue::String(d)), false) = (&c.default, matches!(c.r#type, ColumnType::Complex(ComplexColumnType::Enum { .. }))) {
                let x = d.trim();
                let ok = x.is_empty()
                    || x.starts_with('\'')
                    || x.parse::<f64>().is_ok()
                    || ["true", "false", "null", "current_timestamp", "current_date", "current_time", "now()", "gen_random_uuid()", "uuid()"]
                        .contains(&x.to_ascii_lowercase().as_str());
                if !ok {
                    return Some("A4");
                }
            }
        }
        // A7
        for c in &t.columns {
            if let ColumnType::Complex(ComplexColumnType::Enum { values, .. }) = &c.r#type {
                match values {
                    EnumValues::String(l) => {
                        if l.is_empty() || l.iter().any(|s| s.contains('\'') || s.contains('\\') || s.is_empty()) {
                            return Some("A7");
                        }
                    }
                    EnumValues::Integer(l) => {
                        let mut seen = std::collections::BTreeSet::new();
                        if l.is_empty() || !l.iter().all(|v| seen.insert(v.value)) {
                            return Some("A7");
                        }
                    }
                }
            }
        }
    }
    None
}

fn fk_endpoints(models: &[TableDef]) -> Vec<(String, String)> {
    let mut out = vec![];
    for t in models {
        let Ok(n) = t.normalize() else { continue };
        for k in &n.constraints {
            if let TableConstraint::ForeignKey { columns, ref_table, ref_columns, .. } = k {
                for c in columns {
                    out.push((n.name.clone(), c.clone()));
                }
                for c in ref_columns {
                    out.push((ref_table.clone(), c.clone()));
                }
            }
        }
    }
    out
}

/// A6, second half: a type change never targets an FK endpoint (in the old or the new model set).
pub fn retypes_fk_endpoint(old: &[TableDef], new: &[TableDef]) -> bool {
    let mut eps = fk_endpoints(old);
    eps.extend(fk_endpoints(new));
    for (tn, cn) in eps {
        let a = old.iter().find(|t| t.name == tn).and_then(|t| col(t, &cn));
        let b = new.iter().find(|t| t.name == tn).and_then(|t| col(t, &cn));
        if let (Some(a), Some(b)) = (a, b) {
            if a.r#type != b.r#type {
                return true;
            }
        }
    }
    false
}

/// A3 across one step: the tables of two consecutive model sets, taken together, are distinct case-insensitively (a table
/// re-created under a name that differs only by case exists twice for SQLite while the plan runs)
pub fn case_clash(old: &[TableDef], new: &[TableDef]) -> bool {
    let mut names: std::collections::BTreeSet<String> = old.iter().map(|t| t.name.clone()).collect();
    names.extend(new.iter().map(|t| t.name.clone()));
    let v: Vec<String> = names.into_iter().collect();
    !distinct_ci(&v)
}
