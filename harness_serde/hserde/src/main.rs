//! hserde: K-serde correspondence cases and the implementation-side oracles of C12 / C15.
//!   hserde gen --seed S --evolutions N --steps K --wild W --mutations M --per-shard P --out DIR [--corpus DIR]
//!   hserde parse            (stdin: one {"kind":"plan"|"table"|"config","doc":<json>} per line;
//!                            stdout: one {"ok":bool,"err":..} per line)
mod j;
mod mutate;
mod wild;

use std::collections::HashSet;
use std::fmt::Write as _;
use std::io::BufRead;
use std::path::PathBuf;

use j::J;
use serde::Serialize;
use serde::de::DeserializeOwned;
use serde_json::{Value, json};
use vcommon::fill::revision_fill;
use vcommon::gallina::{G, app};
use vcommon::gener::{self, Profile};
use vcommon::kinds::VErr;
use vcommon::rng::Rng;
use vespertide_config::{FileFormat, NameCase, VespertideConfig};
use vespertide_core::{MigrationPlan, TableDef};
use vespertide_planner::{find_missing_fill_with, plan_next_migration, schema_from_plans, validate_migration_plan};

const SCHEMA_URL: &str = "https://raw.githubusercontent.com/dev-five-git/vespertide/refs/heads/main/schemas/migration.schema.json";

fn arg(args: &[String], k: &str, d: &str) -> String {
    args.iter().position(|a| a == k).and_then(|i| args.get(i + 1).cloned()).unwrap_or_else(|| d.to_string())
}

struct Cfg<'a>(&'a VespertideConfig);
fn nc(n: NameCase) -> &'static str {
    match n {
        NameCase::Snake => "NCSnake",
        NameCase::Camel => "NCCamel",
        NameCase::Pascal => "NCPascal",
    }
}
fn ff(f: FileFormat) -> &'static str {
    match f {
        FileFormat::Json => "FFJson",
        FileFormat::Yaml => "FFYaml",
        FileFormat::Yml => "FFYml",
    }
}
struct Raw0(&'static str);
impl G for Raw0 {
    fn g(&self, o: &mut String) {
        o.push_str(self.0)
    }
}
impl G for Cfg<'_> {
    fn g(&self, o: &mut String) {
        let c = self.0;
        let p = |p: &std::path::Path| p.to_string_lossy().to_string();
        let mut so = String::new();
        app(
            &mut so,
            "mkSeaOrm",
            &[&c.seaorm.extra_enum_derives, &c.seaorm.extra_model_derives, &Raw0(nc(c.seaorm.enum_naming_case)), &c.seaorm.vespera_schema_type],
        );
        app(
            o,
            "mkConfig",
            &[
                &p(&c.models_dir),
                &p(&c.migrations_dir),
                &Raw0(nc(c.table_naming_case)),
                &Raw0(nc(c.column_naming_case)),
                &Raw0(ff(c.model_format)),
                &Raw0(ff(c.migration_format)),
                &c.migration_filename_pattern,
                &p(&c.model_export_dir),
                &vcommon::gallina::Raw(so),
                &c.prefix,
            ],
        );
    }
}

/// Uniform access to the three document kinds.
trait Doc: Serialize + DeserializeOwned {
    const KIND: &'static str;
    const CTOR: &'static str;
    fn gal(&self) -> String;
    /// the loader's plan validation (plans only)
    fn validated(&self) -> Option<String> {
        None
    }
}
impl Doc for TableDef {
    const KIND: &'static str = "table";
    const CTOR: &'static str = "Table";
    fn gal(&self) -> String {
        self.gs()
    }
}
impl Doc for MigrationPlan {
    const KIND: &'static str = "plan";
    const CTOR: &'static str = "Plan";
    fn gal(&self) -> String {
        self.gs()
    }
    fn validated(&self) -> Option<String> {
        Some(match validate_migration_plan(self) {
            Ok(()) => "(Ok tt)".to_string(),
            Err(e) => format!("(Err {})", VErr(&e).gs()),
        })
    }
}
impl Doc for VespertideConfig {
    const KIND: &'static str = "config";
    const CTOR: &'static str = "Config";
    fn gal(&self) -> String {
        Cfg(self).gs()
    }
}

fn gopt(o: &Option<String>) -> String {
    match o {
        Some(s) => format!("(Some {})", s),
        None => "None".to_string(),
    }
}

struct Out {
    cases: Vec<String>,
    side: Vec<Value>,
    seen: HashSet<String>,
    /// (kind, struct-order JSON tree) of every round-trip document: bases for mutation
    docs: Vec<(&'static str, J)>,
}

/// what `vespertide revision` / `vespertide new` write for JSON: to_value (keys sorted, serde_json
/// without preserve_order), "$schema" inserted, to_string_pretty (revision.rs:478-488)
fn file_form<T: Serialize>(v: &T) -> String {
    let mut value = serde_json::to_value(v).unwrap();
    if let Value::Object(ref mut map) = value {
        map.insert("$schema".to_string(), Value::String(SCHEMA_URL.to_string()));
    }
    serde_json::to_string_pretty(&value).unwrap()
}
/// revision.rs:490-503
fn yaml_file_form<T: Serialize>(v: &T) -> Result<String, String> {
    let mut value = serde_yaml::to_value(v).map_err(|e| e.to_string())?;
    if let serde_yaml::Value::Mapping(ref mut map) = value {
        map.insert(serde_yaml::Value::String("$schema".to_string()), serde_yaml::Value::String(SCHEMA_URL.to_string()));
    }
    serde_yaml::to_string(&value).map_err(|e| e.to_string())
}

fn emit_rt<T: Doc>(out: &mut Out, v: &T, tag: &str) {
    let text = match serde_json::to_string(v) {
        Ok(t) => t,
        Err(e) => {
            out.cases.push(String::new());
            out.side.push(json!({"kind": format!("rt_{}", T::KIND), "tag": tag, "serialize_error": e.to_string(), "oracle": {"ok": false, "why": "serialize error"}}));
            return;
        }
    };
    if !out.seen.insert(format!("{}:{}", T::KIND, text)) {
        return;
    }
    let vg = v.gal();
    let j1 = J::parse(&text).expect("serde_json output parses");
    let b1: Option<String> = serde_json::from_str::<T>(&text).ok().map(|x| x.gal());
    let file = file_form(v);
    let j2 = J::parse(&file).expect("file form parses");
    let b2: Option<String> = serde_json::from_str::<T>(&file).ok().map(|x| x.gal());
    // from_value path (what `to_value` / `from_value` callers see)
    let b3: Option<String> = serde_json::to_value(v).ok().and_then(|x| serde_json::from_value::<T>(x).ok()).map(|x| x.gal());
    // YAML text round trips (oracle only: the YAML text layer is not modelled)
    let (ytext, y1) = match serde_yaml::to_string(v) {
        Ok(t) => {
            let r = serde_yaml::from_str::<T>(&t).map(|x| x.gal()).map_err(|e| e.to_string());
            (Some(t), r)
        }
        Err(e) => (None, Err(format!("serialize: {}", e))),
    };
    let y2 = match yaml_file_form(v) {
        Ok(t) => serde_yaml::from_str::<T>(&t).map(|x| x.gal()).map_err(|e| e.to_string()),
        Err(e) => Err(format!("serialize: {}", e)),
    };
    let json_ok = b1.as_deref() == Some(&vg) && b2.as_deref() == Some(&vg) && b3.as_deref() == Some(&vg);
    let yaml_ok = y1.as_deref() == Ok(&vg) && y2.as_deref() == Ok(&vg);
    let mut why = vec![];
    if b1.as_deref() != Some(&vg) {
        why.push("json text round trip differs");
    }
    if b2.as_deref() != Some(&vg) {
        why.push("json file form ($schema, sorted keys) round trip differs");
    }
    if b3.as_deref() != Some(&vg) {
        why.push("to_value/from_value round trip differs");
    }
    if y1.as_deref() != Ok(&vg) {
        why.push("yaml text round trip differs");
    }
    if y2.as_deref() != Ok(&vg) {
        why.push("yaml file form round trip differs");
    }
    let g = format!("(Rt{} {} {} {} {} {})", T::CTOR, vg, j1.gs(), gopt(&b1), j2.gs(), gopt(&b2));
    out.docs.push((T::KIND, j1));
    out.cases.push(g);
    out.side.push(json!({
        "kind": format!("rt_{}", T::KIND), "tag": tag, "text": text, "file": file, "yaml": ytext,
        "json_ok": json_ok, "yaml_ok": yaml_ok,
        "yaml_err": y1.as_ref().err().or(y2.as_ref().err()),
        "oracle": {"ok": json_ok && yaml_ok, "why": why},
    }));
    if let Some(vr) = v.validated() {
        out.cases.push(format!("(ValPlan {} {})", vg, vr));
        out.side.push(json!({"kind": "val_plan", "tag": tag, "text": serde_json::to_string(v).unwrap_or_default()}));
    }
}

fn emit_mut<T: Doc>(out: &mut Out, doc: &J, labels: &[&str]) {
    let text = doc.text();
    if !out.seen.insert(format!("mut_{}:{}", T::KIND, text)) {
        return;
    }
    let jj = J::parse(&text).expect("mutated text parses as JSON");
    let r = serde_json::from_str::<T>(&text);
    let b: Option<String> = r.as_ref().ok().map(|x| x.gal());
    let g = format!("(Mut{} {} {})", T::CTOR, jj.gs(), gopt(&b));
    out.cases.push(g);
    out.side.push(json!({
        "kind": format!("mut_{}", T::KIND), "tag": "mutation", "text": text, "labels": labels,
        "serde_ok": r.is_ok(), "serde_err": r.as_ref().err().map(|e| e.to_string()), "has_dup": jj.has_dup(),
    }));
}

fn emit_yaml<T: Doc>(out: &mut Out, text: &str) {
    let jj: J = serde_yaml::from_str::<J>(text).expect("yaml probe reads as a tree");
    let r = serde_yaml::from_str::<T>(text);
    let b: Option<String> = r.as_ref().ok().map(|x| x.gal());
    out.cases.push(format!("(Mut{} {} {})", T::CTOR, jj.gs(), gopt(&b)));
    out.side.push(json!({
        "kind": format!("mut_{}", T::KIND), "tag": "yaml-probe", "text": jj.text(), "yaml_text": text, "labels": ["yaml-probe"],
        "serde_ok": r.is_ok(), "serde_err": r.as_ref().err().map(|e| e.to_string()), "has_dup": jj.has_dup(),
    }));
}

/// One evolution: model sets T1..Tn; after each step the plan is computed, filled the way
/// `revision` fills it, stamped (id / comment / created_at as cmd_revision does) and "written".
fn emit_evolution(out: &mut Out, rng: &mut Rng, evo: &[Vec<TableDef>], tag: &str, evo_id: usize, history0: Vec<MigrationPlan>, supply: Option<&Vec<(String, String, String)>>) {
    let mut history: Vec<MigrationPlan> = history0;
    for (si, models) in evo.iter().enumerate() {
        for t in models {
            emit_rt(out, t, tag);
        }
        let Ok(np) = plan_next_migration(models, &history) else { break };
        if np.actions.is_empty() {
            continue;
        }
        let Ok(baseline) = schema_from_plans(&history) else { break };
        // `revision --fill-with table.column=value`: user-supplied values are applied first
        // (revision.rs:190-215, 395-399), whatever they are (empty, spaces, SQL keywords ...).
        // Enum-typed columns are left to the default answer: an arbitrary string there is rejected by
        // validate_enum_value, which the proved statement (revision_output_loadable_partial) does not cover.
        let mut np = np;
        let mut supplied: Vec<(String, String, String)> = vec![];
        if supply.is_some() || rng.chance(1, 2) {
            let mut fv: std::collections::HashMap<(String, String), String> = std::collections::HashMap::new();
            for item in find_missing_fill_with(&np, &baseline) {
                let fixed = supply.and_then(|l| l.iter().find(|(t, c, _)| *t == item.table && *c == item.column).map(|x| x.2.clone()));
                if item.enum_values.is_none() && (fixed.is_some() || (supply.is_none() && rng.chance(3, 4))) {
                    let v = fixed.unwrap_or_else(|| rng.pick(&["", "", " ", "0", "''", "'x'", "a b", "NULL", "now()", "true", "~", "활성"]).to_string());
                    supplied.push((item.table.clone(), item.column.clone(), v.clone()));
                    fv.insert((item.table.clone(), item.column.clone()), v);
                }
            }
            for action in &mut np.actions {
                match action {
                    vespertide_core::MigrationAction::AddColumn { table, column, fill_with } => {
                        if fill_with.is_none() && let Some(v) = fv.get(&(table.clone(), column.name.clone())) {
                            *fill_with = Some(v.clone());
                        }
                    }
                    vespertide_core::MigrationAction::ModifyColumnNullable { table, column, fill_with, .. } => {
                        if fill_with.is_none() && let Some(v) = fv.get(&(table.clone(), column.clone())) {
                            *fill_with = Some(v.clone());
                        }
                    }
                    _ => {}
                }
            }
        }
        let filled = revision_fill(&np, &baseline);
        let written = filled.as_ref().map(|f| MigrationPlan {
            id: format!("{:08x}-0000-4000-8000-{:012x}", rng.next() as u32, evo_id * 100 + si),
            comment: Some(rng.pick(wild::EDGE).to_string()),
            created_at: Some("2026-10-01T00:00:00Z".to_string()),
            ..f.clone()
        });
        let valid = written.as_ref().map(validate_migration_plan);
        let fill_g = match &filled {
            Some(p) => format!("(Filled {})", p.actions.gs()),
            None => "Refused".to_string(),
        };
        let valid_g = match &valid {
            Some(Err(e)) => format!("(Err {})", VErr(e).gs()),
            _ => "(Ok tt)".to_string(),
        };
        let ok = !matches!(&valid, Some(Err(_)));
        out.cases.push(format!("(Rev {} {} {} {})", np.gs(), baseline.gs(), fill_g, valid_g));
        out.side.push(json!({
            "kind": "rev", "tag": tag, "evolution": evo_id, "step": si,
            "models": models, "history": history, "baseline": baseline, "plan": np, "written": written, "supplied_fill_with": supplied,
            "n_actions": np.actions.len(),
            "oracle": {"ok": ok, "why": valid.as_ref().and_then(|r| r.as_ref().err()).map(|e| e.to_string())},
        }));
        match written {
            Some(w) => {
                emit_rt(out, &w, tag);
                if !ok {
                    break; // the project no longer loads: every later command fails
                }
                history.push(w);
            }
            None => break,
        }
    }
}

fn parse_mode() {
    let stdin = std::io::stdin();
    for line in stdin.lock().lines() {
        let Ok(line) = line else { break };
        if line.trim().is_empty() {
            continue;
        }
        let v: Value = match serde_json::from_str(&line) {
            Ok(v) => v,
            Err(e) => {
                println!("{}", json!({"ok": false, "err": format!("request: {}", e)}));
                continue;
            }
        };
        let kind = v.get("kind").and_then(|k| k.as_str()).unwrap_or("");
        let text = match v.get("text").and_then(|t| t.as_str()) {
            Some(t) => t.to_string(),
            None => v.get("doc").map(|d| d.to_string()).unwrap_or_default(),
        };
        if kind == "json2gallina" {
            // the document as serde_json's generic parser sees it (own tree type, independent of the vespertide
            // crates), printed as a Gallina term of coq/serde/Model/Json.v
            match J::parse(&text) {
                Ok(j) => println!("{}", json!({"ok": true, "gallina": j.gs(), "has_dup": j.has_dup()})),
                Err(e) => println!("{}", json!({"ok": false, "err": e})),
            }
            continue;
        }
        if kind == "yaml2json" {
            // the YAML text as the tool's own YAML library reads it, handed back as JSON
            match serde_yaml::from_str::<Value>(&text) {
                Ok(j) => println!("{}", json!({"ok": true, "json": j})),
                Err(e) => println!("{}", json!({"ok": false, "err": e.to_string()})),
            }
            continue;
        }
        let r: Result<(), String> = match kind {
            "table_yaml" => serde_yaml::from_str::<TableDef>(&text).map(|_| ()).map_err(|e| e.to_string()),
            "plan_yaml" => serde_yaml::from_str::<MigrationPlan>(&text).map(|_| ()).map_err(|e| e.to_string()),
            "plan" => serde_json::from_str::<MigrationPlan>(&text).map(|_| ()).map_err(|e| e.to_string()),
            "table" => serde_json::from_str::<TableDef>(&text).map(|_| ()).map_err(|e| e.to_string()),
            "config" => serde_json::from_str::<VespertideConfig>(&text).map(|_| ()).map_err(|e| e.to_string()),
            "plan_validated" => serde_json::from_str::<MigrationPlan>(&text)
                .map_err(|e| e.to_string())
                .and_then(|p| validate_migration_plan(&p).map_err(|e| format!("validate: {}", e))),
            _ => Err("unknown kind".into()),
        };
        println!("{}", json!({"ok": r.is_ok(), "err": r.err()}));
    }
}

fn main() {
    let args: Vec<String> = std::env::args().collect();
    let cmd = args.get(1).cloned().unwrap_or_default();
    if cmd == "parse" {
        parse_mode();
        return;
    }
    if cmd != "gen" {
        eprintln!("usage: hserde gen --seed S --evolutions N --steps K --wild W --mutations M --out DIR | hserde parse");
        std::process::exit(2);
    }
    let seed: u64 = arg(&args, "--seed", "1").parse().unwrap_or(1);
    let n: usize = arg(&args, "--evolutions", "40").parse().unwrap();
    let steps: usize = arg(&args, "--steps", "3").parse().unwrap();
    let nwild: usize = arg(&args, "--wild", "40").parse().unwrap();
    let nmut: usize = arg(&args, "--mutations", "200").parse().unwrap();
    let per: usize = arg(&args, "--per-shard", "40").parse().unwrap();
    let outdir = PathBuf::from(arg(&args, "--out", "out"));
    let corpus = arg(&args, "--corpus", "");
    let mut rng = Rng::new(seed);
    let mut out = Out { cases: vec![], side: vec![], seen: HashSet::new(), docs: vec![] };
    let mut rejected = 0usize;
    let mut evo_id = 0usize;

    // corpus first: {"models": [[TableDef..]..]} evolutions, {"plan": MigrationPlan}, {"table": TableDef}
    if !corpus.is_empty() {
        if let Ok(rd) = std::fs::read_dir(&corpus) {
            let mut files: Vec<_> = rd.filter_map(|e| e.ok()).map(|e| e.path()).filter(|p| p.extension().map(|x| x == "json").unwrap_or(false)).collect();
            files.sort();
            for f in files {
                let Ok(txt) = std::fs::read_to_string(&f) else { continue };
                let Ok(v) = serde_json::from_str::<Value>(&txt) else { continue };
                let tag = format!("corpus:{}", f.file_name().unwrap().to_string_lossy());
                if let Some(ms) = v.get("models").and_then(|m| serde_json::from_value::<Vec<Vec<TableDef>>>(m.clone()).ok()) {
                    let supply: Option<Vec<(String, String, String)>> = v.get("supply").and_then(|x| serde_json::from_value(x.clone()).ok());
                    emit_evolution(&mut out, &mut rng, &ms, &tag, evo_id, vec![], supply.as_ref());
                    evo_id += 1;
                }
                // one revision step on top of a stored history (replay files)
                if let (Some(now), Some(h)) = (
                    v.get("models_now").and_then(|m| serde_json::from_value::<Vec<TableDef>>(m.clone()).ok()),
                    v.get("history").and_then(|m| serde_json::from_value::<Vec<MigrationPlan>>(m.clone()).ok()),
                ) {
                    let supply: Option<Vec<(String, String, String)>> = v.get("supply").and_then(|x| serde_json::from_value(x.clone()).ok());
                    emit_evolution(&mut out, &mut rng, &[now], &tag, evo_id, h, supply.as_ref());
                    evo_id += 1;
                }
                if let Some(t) = v.get("table_yaml").and_then(|m| m.as_str()).and_then(|y| serde_yaml::from_str::<TableDef>(y).ok()) {
                    emit_rt(&mut out, &t, &tag);
                }
                if let Some(t) = v.get("config").and_then(|m| serde_json::from_value::<VespertideConfig>(m.clone()).ok()) {
                    emit_rt(&mut out, &t, &tag);
                }
                if let Some(p) = v.get("plan").and_then(|m| serde_json::from_value::<MigrationPlan>(m.clone()).ok()) {
                    emit_rt(&mut out, &p, &tag);
                }
                if let Some(t) = v.get("table").and_then(|m| serde_json::from_value::<TableDef>(m.clone()).ok()) {
                    emit_rt(&mut out, &t, &tag);
                }
            }
        }
    }
    // the built-in witnesses of the non-injective spots (always run)
    for t in wild_witnesses() {
        emit_rt(&mut out, &t, "witness");
    }
    // fixed probes of the deserialisation quirks the model states (always run)
    for (kind, text) in PROBES {
        let doc = J::parse(text).expect("probe parses");
        match *kind {
            "table" => emit_mut::<TableDef>(&mut out, &doc, &["probe"]),
            "plan" => emit_mut::<MigrationPlan>(&mut out, &doc, &["probe"]),
            _ => emit_mut::<VespertideConfig>(&mut out, &doc, &["probe"]),
        }
    }
    for (kind, text) in YAML_PROBES {
        match *kind {
            "table" => emit_yaml::<TableDef>(&mut out, text),
            _ => emit_yaml::<MigrationPlan>(&mut out, text),
        }
    }
    for _ in 0..n {
        let profile = if rng.chance(1, 2) { Profile::Engine } else { Profile::Loader };
        let evo = gener::gen_evolution(&mut rng, steps, profile, &mut rejected);
        emit_evolution(&mut out, &mut rng, &evo, "evolution", evo_id, vec![], None);
        evo_id += 1;
    }
    emit_rt(&mut out, &VespertideConfig::default(), "wild");
    for i in 0..nwild {
        let t = wild::table(&mut rng);
        emit_rt(&mut out, &t, "wild");
        let p = wild::plan(&mut rng, i);
        emit_rt(&mut out, &p, "wild");
        if i % 3 == 0 {
            let c = wild::config(&mut rng);
            emit_rt(&mut out, &c, "wild");
        }
    }
    let bases = out.docs.clone();
    for _ in 0..nmut {
        let (kind, base) = rng.pick(&bases).clone();
        let mut doc = base;
        let k = if rng.chance(2, 3) { 1 } else { 2 };
        let mut labels = vec![];
        for _ in 0..k {
            labels.push(mutate::mutate_once(&mut rng, &mut doc));
        }
        match kind {
            "table" => emit_mut::<TableDef>(&mut out, &doc, &labels),
            "plan" => emit_mut::<MigrationPlan>(&mut out, &doc, &labels),
            _ => emit_mut::<VespertideConfig>(&mut out, &doc, &labels),
        }
    }

    let mut idx_map = vec![];
    let mut cases = vec![];
    for (i, c) in out.cases.iter().enumerate() {
        if !c.is_empty() {
            idx_map.push(i);
            cases.push(c.clone());
        }
    }
    let header = "From VV.SERDE Require Import CorrSerde.\n";
    let tail = "Definition bad := mismatches_from shard_base cases.\nEval vm_compute in bad.\nEval vm_compute in classes_from shard_base cases.\n";
    let names = vcommon::write_shards(&outdir, "cases_serde", header, "scase", &cases, per, tail).unwrap();
    let mut s = String::new();
    for v in &out.side {
        let _ = writeln!(s, "{}", v);
    }
    std::fs::write(outdir.join("cases.jsonl"), s).unwrap();
    std::fs::write(
        outdir.join("meta.json"),
        json!({"seed": seed, "shards": names, "n_cases": out.side.len(), "idx_map": idx_map, "rejected_edits": rejected, "per_shard": per}).to_string(),
    )
    .unwrap();
    println!("cases={} shards={}", out.side.len(), names.len());
}

const PROBES: &[(&str, &str)] = &[
    // unit variant as {"v": {}}: accepted only out of an owned ContentDeserializer (fields of a tagged variant)
    ("table", r#"{"name":"t","columns":[],"constraints":[{"type":"foreign_key","columns":["a"],"ref_table":"u","ref_columns":["id"],"on_delete":{"cascade":{}},"on_update":null}]}"#),
    ("table", r#"{"name":"t","columns":[],"constraints":[{"type":"foreign_key","columns":["a"],"ref_table":"u","ref_columns":["id"],"on_delete":{"cascade":null},"on_update":{"set_null":0}}]}"#),
    ("table", r#"{"name":"t","columns":[{"name":"c","type":{"integer":{}},"nullable":true}]}"#),
    ("table", r#"{"name":"t","columns":[{"name":"c","type":{"integer":null},"nullable":true}]}"#),
    ("table", r#"{"name":"t","columns":[{"name":"c","type":"integer","nullable":true,"foreign_key":{"references":"a.b","on_delete":{"cascade":{}}}}]}"#),
    ("table", r#"{"name":"t","columns":[{"name":"c","type":"integer","nullable":true,"foreign_key":{"references":"a.b","on_delete":{"cascade":null}}}]}"#),
    ("plan", r#"{"version":1,"actions":[{"type":"add_column","table":"t","column":{"name":"c","type":{"integer":{}},"nullable":true},"fill_with":null}]}"#),
    // integer variant index as tag: only below buffered Content
    ("plan", r#"{"version":1,"actions":[{"type":"add_constraint","table":"t","constraint":{"type":2,"columns":["a"],"ref_table":"u","ref_columns":["id"],"on_delete":{"cascade":{}}}}]}"#),
    ("plan", r#"{"version":1,"actions":[{"type":"add_constraint","table":"t","constraint":{"type":5,"columns":["a"]}}]}"#),
    ("plan", r#"{"version":1,"actions":[{"type":1,"table":"t"}]}"#),
    ("table", r#"{"name":"t","columns":[{"name":"c","type":{"kind":0,"length":3},"nullable":true}],"constraints":[{"type":4,"columns":["c"]}]}"#),
    ("table", r#"{"name":"t","columns":[{"name":"c","type":{"kind":0,"length":3},"nullable":true}]}"#),
    ("table", r#"{"name":"t","columns":[{"name":"c","type":{"kind":4,"name":"e","values":[["a",1],{"value":2,"name":"b"}]},"nullable":true}]}"#),
    ("config", r#"{"modelsDir":"m","migrationsDir":"g","tableNamingCase":{"snake":{}},"columnNamingCase":"snake"}"#),
    ("config", r#"{"modelsDir":"m","migrationsDir":"g","tableNamingCase":{"snake":null},"columnNamingCase":"snake"}"#),
    ("config", r#"["m","g","snake","pascal"]"#),
    ("config", r#"["m","g","snake"]"#),
    // positional forms and defaults
    ("table", r#"{"name":"t","columns":[{"name":"c","type":"integer","nullable":true,"primary_key":[]}]}"#),
    ("table", r#"{"name":"t","columns":[{"name":"c","type":"integer","nullable":true,"primary_key":[true,1]}]}"#),
    ("table", r#"{"name":"t","columns":[["c","integer",true]]}"#),
    ("table", r#"{"name":"t","columns":[["c","integer",true,null,null,null,null,null,null]]}"#),
    ("table", r#"["t",null,[]]"#),
    ("table", r#"["t",null,[],[],1]"#),
    ("plan", r#"["i",null,null,1,[["delete_table","t"],["add_column","t",{"name":"c","type":"text","nullable":true},null],["modify_column_type","t","c","text"]]]"#),
    ("plan", r#"{"version":1,"actions":[["add_column","t",{"name":"c","type":"text","nullable":true}]]}"#),
    // missing / null / duplicate members
    ("plan", r#"{"version":1,"actions":[]}"#),
    ("plan", r#"{"id":null,"version":1,"actions":[]}"#),
    ("plan", r#"{"version":1,"version":1,"actions":[]}"#),
    ("plan", r#"{"version":1,"actions":[],"$schema":"a","$schema":"b"}"#),
    ("plan", r#"{"version":1,"actions":[{"type":"delete_table","type":"delete_table","table":"t"}]}"#),
    ("plan", r#"{"version":1,"actions":[{"table":"t","type":"delete_table","zz":1,"zz":2}]}"#),
    ("plan", r#"{"version":1,"actions":[{"type":"modify_column_type","table":"t","column":"c","new_type":"text","fill_with":{"b":"1","a":"2","b":"3"}}]}"#),
    ("plan", r#"{"version":1,"actions":[{"type":"modify_column_type","table":"t","column":"c","new_type":"text","fill_with":null}]}"#),
    ("plan", r#"{"version":1,"actions":[{"type":"modify_column_type","table":"t","column":"c","new_type":"text","fill_with":{"a":1}}]}"#),
    ("plan", r#"{"version":4294967296,"actions":[]}"#),
    ("plan", r#"{"version":1.0,"actions":[]}"#),
    ("plan", r#"{"version":-0,"actions":[]}"#),
    ("table", r#"{"name":"t","columns":[{"name":"c","type":{"kind":"varchar","length":4294967296},"nullable":true}]}"#),
    ("table", r#"{"name":"t","columns":[{"name":"c","type":{"kind":"enum","name":"e","values":[{"name":"a","value":2147483648}]},"nullable":true}]}"#),
    ("table", r#"{"name":"t","columns":[{"name":"c","type":"real","nullable":true,"default":1.0}]}"#),
    ("table", r#"{"name":"t","columns":[{"name":"c","type":"real","nullable":true,"default":-9223372036854775809}]}"#),
    ("table", r#"{"name":"t","columns":[{"name":"c","type":"real","nullable":true,"default":[1]}]}"#),
    // numeric defaults at the i64 / u64 / f64 boundaries: Integer if it fits i64, else Float (z as f64)
    ("table", r#"{"name":"t","columns":[{"name":"c","type":"big_int","nullable":true,"default":9223372036854775807}]}"#),
    ("table", r#"{"name":"t","columns":[{"name":"c","type":"big_int","nullable":true,"default":9223372036854775808}]}"#),
    ("table", r#"{"name":"t","columns":[{"name":"c","type":"big_int","nullable":true,"default":9223372036854776833}]}"#),
    ("table", r#"{"name":"t","columns":[{"name":"c","type":"big_int","nullable":true,"default":18446744073709551615}]}"#),
    ("table", r#"{"name":"t","columns":[{"name":"c","type":"big_int","nullable":true,"default":18446744073709550591}]}"#),
    ("table", r#"{"name":"t","columns":[{"name":"c","type":"big_int","nullable":true,"default":18446744073709551616}]}"#),
    ("table", r#"{"name":"t","columns":[{"name":"c","type":"big_int","nullable":true,"default":-9223372036854775808}]}"#),
    ("table", r#"{"name":"t","columns":[{"name":"c","type":"real","nullable":true,"default":1.7976931348623157e308}]}"#),
    ("table", r#"{"name":"t","columns":[{"name":"c","type":"real","nullable":true,"default":5e-324}]}"#),
    ("plan", r#"{"version":1,"actions":[{"type":"add_column","table":"t","column":{"name":"c","type":"big_int","nullable":true,"default":18446744073709551615},"fill_with":null}]}"#),
    ("plan", r#"{"version":1,"actions":[{"type":"create_table","table":"t","columns":[{"name":"c","type":"big_int","nullable":true,"default":9223372036854775808}],"constraints":[]}]}"#),
];

/// The same boundaries in YAML documents: the tree is what serde_yaml hands to a visitor (read through the
/// generic J visitor), the verdict is serde_yaml's typed parse; the model decodes the tree.
const YAML_PROBES: &[(&str, &str)] = &[
    ("table", "name: t\ncolumns:\n- name: c\n  type: big_int\n  nullable: true\n  default: 9223372036854775807\n"),
    ("table", "name: t\ncolumns:\n- name: c\n  type: big_int\n  nullable: true\n  default: 9223372036854775808\n"),
    ("table", "name: t\ncolumns:\n- name: c\n  type: big_int\n  nullable: true\n  default: 18446744073709551615\n"),
    ("table", "name: t\ncolumns:\n- name: c\n  type: big_int\n  nullable: true\n  default: -9223372036854775808\n"),
    ("table", "name: t\ncolumns:\n- name: c\n  type: real\n  nullable: true\n  default: 1.5\n"),
    ("table", "name: t\ncolumns:\n- name: c\n  type: text\n  nullable: true\n  default: 'true'\n"),
    ("plan", "version: 1\nactions:\n- type: add_column\n  table: t\n  column:\n    name: c\n    type: big_int\n    nullable: true\n    default: 18446744073709551615\n  fill_with: null\n"),
    ("plan", "version: 1\nactions:\n- type: create_table\n  table: t\n  columns:\n  - name: c\n    type: big_int\n    nullable: true\n    default: 9223372036854775808\n  constraints: []\n"),
];

/// Minimal witnesses of the spots where Serialize is not injective (replayed on the real serde on
/// every run; they match the `_refuted` lemmas of Properties/C12.v).
fn wild_witnesses() -> Vec<TableDef> {
    use vespertide_core::*;
    let mk = |name: &str, ty: ColumnType, d: Option<DefaultValue>| TableDef {
        name: name.to_string(),
        description: None,
        columns: vec![ColumnDef { name: "c".into(), r#type: ty, nullable: true, default: d, comment: None, primary_key: None, unique: None, index: None, foreign_key: None }],
        constraints: vec![],
    };
    vec![
        mk("w_empty_int_enum", ColumnType::Complex(ComplexColumnType::Enum { name: "e".into(), values: EnumValues::Integer(vec![]) }), None),
        mk("w_nan", ColumnType::Simple(SimpleColumnType::Real), Some(DefaultValue::Float(f64::NAN))),
        mk("w_inf", ColumnType::Simple(SimpleColumnType::Real), Some(DefaultValue::Float(f64::INFINITY))),
        mk("w_float_integral", ColumnType::Simple(SimpleColumnType::Real), Some(DefaultValue::Float(1.0))),
        mk("w_string_true", ColumnType::Simple(SimpleColumnType::Text), Some(DefaultValue::String("true".into()))),
        mk("w_empty_str_enum", ColumnType::Complex(ComplexColumnType::Enum { name: "e".into(), values: EnumValues::String(vec![]) }), None),
    ]
}
