//! An order-preserving JSON tree that keeps repeated keys and serde_json's own number
//! classification (u64 / i64 / f64), its parser (through serde_json's Deserializer, so the
//! classification is serde_json's), its text printer and its Gallina printer
//! (terms of coq/serde/Model/Json.v).
use serde::de::{Deserialize, Deserializer, MapAccess, SeqAccess, Visitor};
use std::fmt;
use vcommon::G;

#[derive(Clone, Debug, PartialEq)]
pub enum J {
    Null,
    Bool(bool),
    U(u64),
    I(i64),
    F(f64),
    S(String),
    A(Vec<J>),
    O(Vec<(String, J)>),
}

struct JV;
impl<'de> Visitor<'de> for JV {
    type Value = J;
    fn expecting(&self, f: &mut fmt::Formatter) -> fmt::Result {
        f.write_str("any JSON value")
    }
    fn visit_unit<E>(self) -> Result<J, E> {
        Ok(J::Null)
    }
    fn visit_none<E>(self) -> Result<J, E> {
        Ok(J::Null)
    }
    fn visit_some<D: Deserializer<'de>>(self, d: D) -> Result<J, D::Error> {
        J::deserialize(d)
    }
    fn visit_bool<E>(self, b: bool) -> Result<J, E> {
        Ok(J::Bool(b))
    }
    fn visit_u64<E>(self, v: u64) -> Result<J, E> {
        Ok(J::U(v))
    }
    fn visit_i64<E>(self, v: i64) -> Result<J, E> {
        Ok(if v >= 0 { J::U(v as u64) } else { J::I(v) })
    }
    fn visit_f64<E>(self, v: f64) -> Result<J, E> {
        Ok(J::F(v))
    }
    fn visit_str<E>(self, v: &str) -> Result<J, E> {
        Ok(J::S(v.to_string()))
    }
    fn visit_string<E>(self, v: String) -> Result<J, E> {
        Ok(J::S(v))
    }
    fn visit_seq<A: SeqAccess<'de>>(self, mut a: A) -> Result<J, A::Error> {
        let mut v = Vec::new();
        while let Some(x) = a.next_element::<J>()? {
            v.push(x);
        }
        Ok(J::A(v))
    }
    fn visit_map<A: MapAccess<'de>>(self, mut a: A) -> Result<J, A::Error> {
        let mut v = Vec::new();
        while let Some((k, x)) = a.next_entry::<String, J>()? {
            v.push((k, x));
        }
        Ok(J::O(v))
    }
}
impl<'de> Deserialize<'de> for J {
    fn deserialize<D: Deserializer<'de>>(d: D) -> Result<J, D::Error> {
        d.deserialize_any(JV)
    }
}

impl J {
    pub fn parse(text: &str) -> Result<J, String> {
        serde_json::from_str::<J>(text).map_err(|e| e.to_string())
    }
    pub fn text(&self) -> String {
        let mut o = String::new();
        self.write(&mut o);
        o
    }
    fn write(&self, o: &mut String) {
        match self {
            J::Null => o.push_str("null"),
            J::Bool(b) => o.push_str(if *b { "true" } else { "false" }),
            J::U(v) => o.push_str(&v.to_string()),
            J::I(v) => o.push_str(&v.to_string()),
            J::F(f) => {
                // only finite floats are ever put into a tree
                o.push_str(&serde_json::to_string(f).unwrap())
            }
            J::S(s) => o.push_str(&serde_json::to_string(s).unwrap()),
            J::A(l) => {
                o.push('[');
                for (i, x) in l.iter().enumerate() {
                    if i > 0 {
                        o.push(',');
                    }
                    x.write(o);
                }
                o.push(']');
            }
            J::O(l) => {
                o.push('{');
                for (i, (k, x)) in l.iter().enumerate() {
                    if i > 0 {
                        o.push(',');
                    }
                    o.push_str(&serde_json::to_string(k).unwrap());
                    o.push(':');
                    x.write(o);
                }
                o.push('}');
            }
        }
    }
    /// does some object repeat a key?
    pub fn has_dup(&self) -> bool {
        match self {
            J::A(l) => l.iter().any(|x| x.has_dup()),
            J::O(l) => {
                let mut seen = std::collections::HashSet::new();
                l.iter().any(|(k, v)| !seen.insert(k.as_str()) || v.has_dup())
            }
            _ => false,
        }
    }
    /// all node paths (index lists), root first
    pub fn paths(&self) -> Vec<Vec<usize>> {
        fn go(j: &J, cur: &mut Vec<usize>, out: &mut Vec<Vec<usize>>) {
            out.push(cur.clone());
            match j {
                J::A(l) => {
                    for (i, x) in l.iter().enumerate() {
                        cur.push(i);
                        go(x, cur, out);
                        cur.pop();
                    }
                }
                J::O(l) => {
                    for (i, (_, x)) in l.iter().enumerate() {
                        cur.push(i);
                        go(x, cur, out);
                        cur.pop();
                    }
                }
                _ => {}
            }
        }
        let mut out = vec![];
        go(self, &mut vec![], &mut out);
        out
    }
    pub fn at(&self, p: &[usize]) -> &J {
        match p.split_first() {
            None => self,
            Some((i, r)) => match self {
                J::A(l) => l[*i].at(r),
                J::O(l) => l[*i].1.at(r),
                _ => self,
            },
        }
    }
    pub fn at_mut(&mut self, p: &[usize]) -> &mut J {
        match p.split_first() {
            None => self,
            Some((i, r)) => match self {
                J::A(l) => l[*i].at_mut(r),
                J::O(l) => l[*i].1.at_mut(r),
                _ => unreachable!(),
            },
        }
    }
}

impl G for J {
    fn g(&self, o: &mut String) {
        match self {
            J::Null => o.push_str("JNull"),
            J::Bool(b) => {
                o.push_str("(JBool ");
                b.g(o);
                o.push(')')
            }
            J::U(v) => o.push_str(&format!("(JInt ({})%Z)", v)),
            J::I(v) => o.push_str(&format!("(JInt ({})%Z)", v)),
            J::F(f) => {
                o.push_str("(JFloat ");
                f.to_string().g(o);
                o.push(')')
            }
            J::S(s) => {
                o.push_str("(JStr ");
                s.g(o);
                o.push(')')
            }
            J::A(l) => {
                o.push_str("(JArr ");
                l.g(o);
                o.push(')')
            }
            J::O(l) => {
                o.push_str("(JObj [");
                for (i, (k, x)) in l.iter().enumerate() {
                    if i > 0 {
                        o.push_str("; ");
                    }
                    o.push('(');
                    k.g(o);
                    o.push_str(", ");
                    x.g(o);
                    o.push(')');
                }
                o.push_str("])")
            }
        }
    }
}
