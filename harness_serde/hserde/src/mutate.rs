//! Mutations of JSON documents: drop / add / duplicate members, other union branches, wrong types,
//! boundary numbers, positional (array) form of structs, integer tags.
use crate::j::J;
use vcommon::Rng;

/// Scalars and small shapes substituted for a node.  Integer literals in [2^63, 2^64) are left out
/// on purpose: at a DefaultValue position serde turns them into a float by arithmetic the model does
/// not have (stated MODEL GAP in coq/serde/Model/Serde.v).
fn pool(rng: &mut Rng) -> J {
    match rng.below(26) {
        0 => J::Null,
        1 => J::Bool(true),
        2 => J::Bool(false),
        3 => J::U(0),
        4 => J::U(1),
        5 => J::I(-1),
        6 => J::U(4294967295),
        7 => J::U(4294967296),
        8 => J::U(2147483647),
        9 => J::U(2147483648),
        10 => J::I(-2147483648),
        11 => J::I(-2147483649),
        12 => J::U(9223372036854775807),
        13 => J::I(i64::MIN),
        14 => J::F(1.5),
        15 => J::F(1.0),
        16 => J::F(1e3),
        17 => J::S("x".into()),
        18 => J::S("".into()),
        19 => J::S("integer".into()),
        20 => J::A(vec![]),
        21 => J::O(vec![]),
        22 => J::A(vec![J::S("a".into())]),
        23 => J::O(vec![("a".into(), J::U(1))]),
        24 => J::S("cascade".into()),
        _ => J::A(vec![J::Bool(true)]),
    }
}

const TAGS_TYPE: &[&str] = &[
    "create_table", "delete_table", "add_column", "rename_column", "delete_column", "modify_column_type",
    "modify_column_nullable", "modify_column_default", "modify_column_comment", "add_constraint",
    "remove_constraint", "rename_table", "raw_sql", "primary_key", "unique", "foreign_key", "check", "index", "nope",
];
const TAGS_KIND: &[&str] = &["varchar", "numeric", "char", "custom", "enum", "nope"];
const KNOWN_KEYS: &[&str] = &[
    "name", "type", "nullable", "default", "comment", "primary_key", "unique", "index", "foreign_key", "columns",
    "constraints", "table", "column", "fill_with", "auto_increment", "on_delete", "on_update", "ref_table",
    "ref_columns", "references", "id", "created_at", "version", "actions", "length", "kind", "values", "value",
    "description", "new_type", "new_default", "from", "to", "sql", "expr", "prefix", "seaorm", "modelFormat",
];

/// one mutation step; returns a label
pub fn mutate_once(rng: &mut Rng, doc: &mut J) -> &'static str {
    let paths = doc.paths();
    let p = rng.pick(&paths).clone();
    let op = rng.below(14);
    match op {
        0 | 1 | 2 => {
            *doc.at_mut(&p) = pool(rng);
            "replace"
        }
        3 | 4 => {
            // drop a member / element of the chosen container
            match doc.at_mut(&p) {
                J::O(l) if !l.is_empty() => {
                    let i = rng.below(l.len());
                    l.remove(i);
                    "drop-member"
                }
                J::A(l) if !l.is_empty() => {
                    let i = rng.below(l.len());
                    l.remove(i);
                    "drop-element"
                }
                other => {
                    *other = J::Null;
                    "null"
                }
            }
        }
        5 => match doc.at_mut(&p) {
            J::O(l) => {
                let k = if rng.chance(1, 2) { "zz_unknown".to_string() } else { rng.pick(KNOWN_KEYS).to_string() };
                let v = pool(rng);
                if rng.chance(1, 2) { l.push((k, v)) } else { l.insert(0, (k, v)) }
                "add-member"
            }
            other => {
                *other = pool(rng);
                "replace"
            }
        },
        6 => match doc.at_mut(&p) {
            J::O(l) if !l.is_empty() => {
                let i = rng.below(l.len());
                let (k, v) = l[i].clone();
                let v2 = if rng.chance(1, 2) { v } else { pool(rng) };
                if rng.chance(1, 2) { l.push((k, v2)) } else { l.insert(0, (k, v2)) }
                "duplicate-member"
            }
            other => {
                *other = pool(rng);
                "replace"
            }
        },
        7 => match doc.at_mut(&p) {
            // retag: another variant name, or the variant *index* as an integer
            J::O(l) => {
                let mut done = false;
                for (k, v) in l.iter_mut() {
                    if k == "type" || k == "kind" {
                        *v = if rng.chance(1, 3) {
                            J::U(rng.below(14) as u64)
                        } else if k == "type" {
                            J::S(rng.pick(TAGS_TYPE).to_string())
                        } else {
                            J::S(rng.pick(TAGS_KIND).to_string())
                        };
                        done = true;
                        break;
                    }
                }
                if !done && !l.is_empty() {
                    let i = rng.below(l.len());
                    l[i].0 = rng.pick(KNOWN_KEYS).to_string();
                    return "rename-key";
                }
                "retag"
            }
            other => {
                *other = pool(rng);
                "replace"
            }
        },
        8 | 9 => {
            // another subtree of the same document (other union branch, other type)
            let q = rng.pick(&paths).clone();
            let v = doc.at(&q).clone();
            if p.is_empty() {
                return "noop";
            }
            *doc.at_mut(&p) = v;
            "graft"
        }
        10 | 11 => match doc.at_mut(&p) {
            // positional form of a struct, possibly truncated or extended
            J::O(l) => {
                let mut vals: Vec<J> = l.iter().map(|(_, v)| v.clone()).collect();
                match rng.below(4) {
                    0 if !vals.is_empty() => {
                        vals.pop();
                    }
                    1 => vals.push(J::Null),
                    _ => {}
                }
                *doc.at_mut(&p) = J::A(vals);
                "seq-form"
            }
            J::S(s) => {
                // unit variant written as a one-member object
                let k = s.clone();
                *doc.at_mut(&p) = J::O(vec![(k, if rng.chance(3, 4) { J::Null } else { J::U(0) })]);
                "unit-as-map"
            }
            other => {
                *other = pool(rng);
                "replace"
            }
        },
        12 => match doc.at_mut(&p) {
            J::U(_) | J::I(_) | J::F(_) => {
                *doc.at_mut(&p) = match rng.below(8) {
                    0 => J::U(4294967296),
                    1 => J::U(4294967295),
                    2 => J::I(-1),
                    3 => J::F(1.0),
                    4 => J::U(2147483648),
                    5 => J::I(-2147483649),
                    6 => J::F(2.5),
                    _ => J::S("1".into()),
                };
                "boundary-number"
            }
            other => {
                *other = pool(rng);
                "replace"
            }
        },
        _ => match doc.at_mut(&p) {
            J::O(l) if l.len() >= 2 => {
                rng.shuffle(l);
                "permute-members"
            }
            other => {
                *other = J::Null;
                "null"
            }
        },
    }
}
