//! Mutations of JSON documents: drop / add / duplicate members, other union branches, wrong types,
//! boundary numbers, positional (array) form of structs, integer tags.
use crate::j::J;
use vcommon::Rng;

/// Scalars and small shapes substituted for a node (integer literals in [2^63, 2^64) included: at a
/// DefaultValue position serde turns them into Float(z as f64), which the model computes too).
fn pool(rng: &mut Rng) -> J {
    match rng.below(30) {
        0 => J::Null,
        1 => J::Bool(true),
        2 => J::Bool(false),
        3 => J::U(0),
        4 => J::U(1),
        5 => J::I(-1),
        6 => J::U(4294967295),
        7 => J::U(4294967296),
        8 => J::U(2147483647),
        9 => J::U(2147483648),
        10 => J::I(-2147483648),
        11 => J::I(-2147483649),
        12 => J::U(9223372036854775807),
        13 => J::I(i64::MIN),
        14 => J::F(1.5),
        15 => J::F(1.0),
        16 => J::F(1e3),
        17 => J::S("x".into()),
        18 => J::S("".into()),
        19 => J::S("integer".into()),
        20 => J::A(vec![]),
        21 => J::O(vec![]),
        22 => J::A(vec![J::S("a".into())]),
        23 => J::O(vec![("a".into(), J::U(1))]),
        24 => J::S("cascade".into()),
        26 => J::U(9223372036854775808),
        27 => J::U(u64::MAX),
        28 => J::U(rng.next() | (1u64 << 63)),
        29 => J::U(18446744073709550591),
        _ => J::A(vec![J::Bool(true)]),
    }
}

const TAGS_TYPE: &[&str] = &[
    "create_table", "delete_table", "add_column", "rename_column", "delete_column", "modify_column_type",
    "modify_column_nullable", "modify_column_default", "modify_column_comment", "add_constraint",
    "remove_constraint", "rename_table", "raw_sql", "primary_key", "unique", "foreign_key", "check", "index", "nope",
];
const TAGS_KIND: &[&str] = &["varchar", "numeric", "char", "custom", "enum", "nope"];
const KNOWN_KEYS: &[&str] = &[
    "name", "type", "nullable", "default", "comment", "primary_key", "unique", "index", "foreign_key", "columns",
    "constraints", "table", "column", "fill_with", "auto_increment", "on_delete", "on_update", "ref_table",
    "ref_columns", "references", "id", "created_at", "version", "actions", "length", "kind", "values", "value",
    "description", "new_type", "new_default", "from", "to", "sql", "expr", "prefix", "seaorm", "modelFormat",
];

/// one mutation step; returns a label.  The operation is drawn first, then a node of the shape the
/// operation needs (so that most mutants stay close to acceptable documents).
pub fn mutate_once(rng: &mut Rng, doc: &mut J) -> &'static str {
    let paths = doc.paths();
    let objs: Vec<Vec<usize>> = paths.iter().filter(|p| matches!(doc.at(p), J::O(_))).cloned().collect();
    let small_objs: Vec<Vec<usize>> = objs.iter().filter(|p| !p.is_empty()).cloned().collect();
    let leaves: Vec<Vec<usize>> = paths.iter().filter(|p| !p.is_empty() && !matches!(doc.at(p), J::O(_) | J::A(_))).cloned().collect();
    let nums: Vec<Vec<usize>> = leaves.iter().filter(|p| matches!(doc.at(p), J::U(_) | J::I(_) | J::F(_))).cloned().collect();
    let strs: Vec<Vec<usize>> = leaves.iter().filter(|p| matches!(doc.at(p), J::S(_))).cloned().collect();
    let inner: Vec<Vec<usize>> = paths.iter().filter(|p| !p.is_empty()).cloned().collect();
    let any_leaf = |rng: &mut Rng| -> Option<Vec<usize>> { if leaves.is_empty() { None } else { Some(rng.pick(&leaves).clone()) } };
    let op = rng.below(18);
    match op {
        0 | 1 | 2 => {
            let Some(p) = (if rng.chance(3, 4) { any_leaf(rng) } else if inner.is_empty() { None } else { Some(rng.pick(&inner).clone()) }) else { return "noop" };
            *doc.at_mut(&p) = pool(rng);
            "replace"
        }
        3 | 4 | 5 => {
            if objs.is_empty() {
                return "noop";
            }
            let p = rng.pick(&objs).clone();
            if let J::O(l) = doc.at_mut(&p) {
                if !l.is_empty() {
                    let i = rng.below(l.len());
                    l.remove(i);
                }
            }
            "drop-member"
        }
        6 | 7 => {
            if objs.is_empty() {
                return "noop";
            }
            let p = rng.pick(&objs).clone();
            let k = if rng.chance(2, 3) { "zz_unknown".to_string() } else { rng.pick(KNOWN_KEYS).to_string() };
            let v = pool(rng);
            if let J::O(l) = doc.at_mut(&p) {
                if rng.chance(1, 2) { l.push((k, v)) } else { l.insert(0, (k, v)) }
            }
            "add-member"
        }
        8 => {
            if objs.is_empty() {
                return "noop";
            }
            let p = rng.pick(&objs).clone();
            let pv = pool(rng);
            if let J::O(l) = doc.at_mut(&p) {
                if !l.is_empty() {
                    let i = rng.below(l.len());
                    let (k, v) = l[i].clone();
                    let v2 = if rng.chance(1, 2) { v } else { pv };
                    if rng.chance(1, 2) { l.push((k, v2)) } else { l.insert(0, (k, v2)) }
                }
            }
            "duplicate-member"
        }
        9 | 10 => {
            // retag: another variant name, or the variant *index* as an integer
            let tagged: Vec<Vec<usize>> = objs.iter().filter(|p| matches!(doc.at(p), J::O(l) if l.iter().any(|(k, _)| k == "type" || k == "kind"))).cloned().collect();
            if tagged.is_empty() {
                return "noop";
            }
            let p = rng.pick(&tagged).clone();
            let r = rng.below(3);
            let idx = rng.below(14) as u64;
            let tt = rng.pick(TAGS_TYPE).to_string();
            let tk = rng.pick(TAGS_KIND).to_string();
            if let J::O(l) = doc.at_mut(&p) {
                for (k, v) in l.iter_mut() {
                    if k == "type" || k == "kind" {
                        if let J::S(_) = v {
                            *v = if r == 0 { J::U(idx) } else if k == "type" { J::S(tt.clone()) } else { J::S(tk.clone()) };
                            break;
                        }
                    }
                }
            }
            "retag"
        }
        11 | 12 => {
            // another subtree of the same document (other union branch, other type)
            if inner.len() < 2 {
                return "noop";
            }
            let p = rng.pick(&inner).clone();
            let q = rng.pick(&inner).clone();
            let v = doc.at(&q).clone();
            *doc.at_mut(&p) = v;
            "graft"
        }
        13 | 14 => {
            // positional form of a struct, possibly truncated or extended
            let cands = if rng.chance(4, 5) && !small_objs.is_empty() { &small_objs } else { &objs };
            if cands.is_empty() {
                return "noop";
            }
            let p = rng.pick(cands).clone();
            let r = rng.below(5);
            if let J::O(l) = doc.at(&p).clone() {
                let mut vals: Vec<J> = l.iter().map(|(_, v)| v.clone()).collect();
                match r {
                    0 if !vals.is_empty() => {
                        vals.pop();
                    }
                    1 => vals.push(J::Null),
                    _ => {}
                }
                *doc.at_mut(&p) = J::A(vals);
            }
            "seq-form"
        }
        15 => {
            // unit variant written as a one-member object
            if strs.is_empty() {
                return "noop";
            }
            let p = rng.pick(&strs).clone();
            let inner_v = match rng.below(6) {
                0 => J::U(0),
                1 => J::O(vec![]),
                _ => J::Null,
            };
            if let J::S(s) = doc.at(&p).clone() {
                *doc.at_mut(&p) = J::O(vec![(s, inner_v)]);
            }
            "unit-as-map"
        }
        16 => {
            if nums.is_empty() {
                return "noop";
            }
            let p = rng.pick(&nums).clone();
            *doc.at_mut(&p) = match rng.below(8) {
                0 => J::U(4294967296),
                1 => J::U(4294967295),
                2 => J::I(-1),
                3 => J::F(1.0),
                4 => J::U(2147483648),
                5 => J::I(-2147483649),
                6 => J::F(2.5),
                _ => J::S("1".into()),
            };
            "boundary-number"
        }
        _ => {
            let big: Vec<Vec<usize>> = objs.iter().filter(|p| matches!(doc.at(p), J::O(l) if l.len() >= 2)).cloned().collect();
            if big.is_empty() {
                return "noop";
            }
            let p = rng.pick(&big).clone();
            if let J::O(l) = doc.at_mut(&p) {
                rng.shuffle(l);
            }
            "permute-members"
        }
    }
}
