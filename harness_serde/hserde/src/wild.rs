//! "Wild" values: any shape the Rust types can hold (not necessarily loader-valid), drawn from pools of
//! edge strings / numbers, so that every serde attribute and every untagged alternative is exercised.
use std::collections::BTreeMap;
use std::path::PathBuf;
use vcommon::Rng;
use vcommon::gener::simple_types;
use vespertide_config::{FileFormat, NameCase, SeaOrmConfig, VespertideConfig};
use vespertide_core::schema::foreign_key::{ForeignKeyDef, ForeignKeySyntax, ReferenceSyntaxDef};
use vespertide_core::schema::primary_key::{PrimaryKeyDef, PrimaryKeySyntax};
use vespertide_core::*;

/// strings that look like YAML / JSON scalars, quotes, non-ASCII, empty
pub const EDGE: &[&str] = &[
    "true", "false", "1e3", "~", "0x10", "null", "Null", "NULL", "yes", "no", "on", "off", "y", "n", "",
    " ", "0", "-1", "1.5", ".5", "1_000", "0o17", ".inf", "-.inf", ".nan", "2001-12-14", "12:30:45",
    "활성", "héllo", "日本語テキスト", "emoji 🎉", "he said \"hi\"", "it's", "'quoted'", "\"dq\"", "a: b", "- item",
    "# not a comment", "{a: 1}", "[1, 2]", "a\nb", "tab\there", "back\\slash", "trailing ", " leading",
    "multi\nline\n", "&anchor", "*alias", "!tag", "%percent", "@at", "`tick`", "|", ">", "?", ":", "-", "=",
    "<<", "user.id", "CURRENT_TIMESTAMP", "now()", "'hello world'", "\u{7f}", "\u{85}", "\u{2028}", "\u{feff}bom",
];
pub const PLAIN: &[&str] = &["user", "post", "id", "a", "b", "a_b", "user_id", "name", "status", "k1", "main", "type", "kind"];

pub fn s(rng: &mut Rng) -> String {
    if rng.chance(1, 2) { rng.pick(EDGE).to_string() } else { rng.pick(PLAIN).to_string() }
}
pub fn os(rng: &mut Rng) -> Option<String> {
    if rng.chance(1, 2) { Some(s(rng)) } else { None }
}
pub fn strs(rng: &mut Rng) -> Vec<String> {
    let n = rng.below(4);
    (0..n).map(|_| s(rng)).collect()
}
pub fn u32v(rng: &mut Rng) -> u32 {
    *rng.pick(&[0u32, 1, 32, 255, 65535, 2147483647, 2147483648, u32::MAX])
}
pub fn ra(rng: &mut Rng) -> Option<ReferenceAction> {
    use ReferenceAction::*;
    if rng.chance(1, 3) { None } else { Some(rng.pick(&[Cascade, Restrict, SetNull, SetDefault, NoAction]).clone()) }
}

pub fn enum_values(rng: &mut Rng) -> EnumValues {
    match rng.below(5) {
        0 => EnumValues::String(vec![]),
        1 => EnumValues::Integer(vec![]),
        2 | 3 => EnumValues::String(strs(rng)),
        _ => {
            let n = rng.range(1, 3);
            EnumValues::Integer(
                (0..n)
                    .map(|_| NumValue { name: s(rng), value: *rng.pick(&[0i32, 1, -1, 10, i32::MAX, i32::MIN]) })
                    .collect(),
            )
        }
    }
}
pub fn ctype(rng: &mut Rng) -> ColumnType {
    match rng.below(8) {
        0 | 1 | 2 => ColumnType::Simple(rng.pick(&simple_types()).clone()),
        3 => ColumnType::Complex(ComplexColumnType::Varchar { length: u32v(rng) }),
        4 => ColumnType::Complex(ComplexColumnType::Numeric { precision: u32v(rng), scale: u32v(rng) }),
        5 => ColumnType::Complex(ComplexColumnType::Char { length: u32v(rng) }),
        6 => ColumnType::Complex(ComplexColumnType::Custom { custom_type: s(rng) }),
        _ => ColumnType::Complex(ComplexColumnType::Enum { name: s(rng), values: enum_values(rng) }),
    }
}
pub fn default(rng: &mut Rng) -> DefaultValue {
    match rng.below(4) {
        0 => DefaultValue::Bool(rng.chance(1, 2)),
        1 => DefaultValue::Integer(*rng.pick(&[0i64, 1, -1, 42, i64::MAX, i64::MIN, 4294967296, 9007199254740993])),
        2 => DefaultValue::Float(*rng.pick(&[
            0.5f64, 1.0, -0.0, 0.0, -2.25, 1e21, 1e-7, 1e15, 1e16, 123456789.125, f64::MAX, f64::MIN_POSITIVE, 5e-324, 0.1, 1e300,
            f64::NAN, f64::INFINITY, f64::NEG_INFINITY,
        ])),
        _ => DefaultValue::String(s(rng)),
    }
}
pub fn sba(rng: &mut Rng) -> StrOrBoolOrArray {
    match rng.below(3) {
        0 => StrOrBoolOrArray::Str(s(rng)),
        1 => StrOrBoolOrArray::Array(strs(rng)),
        _ => StrOrBoolOrArray::Bool(rng.chance(1, 2)),
    }
}
pub fn fk(rng: &mut Rng) -> ForeignKeySyntax {
    match rng.below(3) {
        0 => ForeignKeySyntax::String(s(rng)),
        1 => ForeignKeySyntax::Reference(ReferenceSyntaxDef { references: s(rng), on_delete: ra(rng), on_update: ra(rng) }),
        _ => ForeignKeySyntax::Object(ForeignKeyDef { ref_table: s(rng), ref_columns: strs(rng), on_delete: ra(rng), on_update: ra(rng) }),
    }
}
pub fn column(rng: &mut Rng) -> ColumnDef {
    ColumnDef {
        name: s(rng),
        r#type: ctype(rng),
        nullable: rng.chance(1, 2),
        default: if rng.chance(1, 2) { Some(default(rng)) } else { None },
        comment: os(rng),
        primary_key: match rng.below(4) {
            0 => Some(PrimaryKeySyntax::Bool(rng.chance(1, 2))),
            1 => Some(PrimaryKeySyntax::Object(PrimaryKeyDef { auto_increment: rng.chance(1, 2) })),
            _ => None,
        },
        unique: if rng.chance(1, 3) { Some(sba(rng)) } else { None },
        index: if rng.chance(1, 3) { Some(sba(rng)) } else { None },
        foreign_key: if rng.chance(1, 3) { Some(fk(rng)) } else { None },
    }
}
pub fn constraint(rng: &mut Rng) -> TableConstraint {
    match rng.below(5) {
        0 => TableConstraint::PrimaryKey { auto_increment: rng.chance(1, 2), columns: strs(rng) },
        1 => TableConstraint::Unique { name: os(rng), columns: strs(rng) },
        2 => TableConstraint::ForeignKey {
            name: os(rng),
            columns: strs(rng),
            ref_table: s(rng),
            ref_columns: strs(rng),
            on_delete: ra(rng),
            on_update: ra(rng),
        },
        3 => TableConstraint::Check { name: s(rng), expr: s(rng) },
        _ => TableConstraint::Index { name: os(rng), columns: strs(rng) },
    }
}
pub fn table(rng: &mut Rng) -> TableDef {
    let nc = rng.below(4);
    let nk = rng.below(3);
    TableDef {
        name: s(rng),
        description: os(rng),
        columns: (0..nc).map(|_| column(rng)).collect(),
        constraints: (0..nk).map(|_| constraint(rng)).collect(),
    }
}
pub fn action(rng: &mut Rng, kind: usize) -> MigrationAction {
    use MigrationAction::*;
    match kind % 13 {
        0 => {
            let nc = rng.below(3);
            let nk = rng.below(3);
            CreateTable { table: s(rng), columns: (0..nc).map(|_| column(rng)).collect(), constraints: (0..nk).map(|_| constraint(rng)).collect() }
        }
        1 => DeleteTable { table: s(rng) },
        2 => AddColumn { table: s(rng), column: Box::new(column(rng)), fill_with: os(rng) },
        3 => RenameColumn { table: s(rng), from: s(rng), to: s(rng) },
        4 => DeleteColumn { table: s(rng), column: s(rng) },
        5 => {
            let fw = match rng.below(3) {
                0 => None,
                1 => Some(BTreeMap::new()),
                _ => {
                    let mut m = BTreeMap::new();
                    for _ in 0..rng.range(1, 3) {
                        m.insert(s(rng), s(rng));
                    }
                    Some(m)
                }
            };
            ModifyColumnType { table: s(rng), column: s(rng), new_type: ctype(rng), fill_with: fw }
        }
        6 => ModifyColumnNullable { table: s(rng), column: s(rng), nullable: rng.chance(1, 2), fill_with: os(rng) },
        7 => ModifyColumnDefault { table: s(rng), column: s(rng), new_default: os(rng) },
        8 => ModifyColumnComment { table: s(rng), column: s(rng), new_comment: os(rng) },
        9 => AddConstraint { table: s(rng), constraint: constraint(rng) },
        10 => RemoveConstraint { table: s(rng), constraint: constraint(rng) },
        11 => RenameTable { from: s(rng), to: s(rng) },
        _ => RawSql { sql: s(rng) },
    }
}
pub fn plan(rng: &mut Rng, first_kind: usize) -> MigrationPlan {
    let n = rng.range(1, 4);
    MigrationPlan {
        id: if rng.chance(1, 3) { String::new() } else { s(rng) },
        comment: os(rng),
        created_at: if rng.chance(1, 2) { Some("2026-01-01T00:00:00Z".into()) } else { os(rng) },
        version: u32v(rng),
        actions: (0..n).map(|i| if i == 0 { action(rng, first_kind) } else { let k = rng.below(13); action(rng, k) }).collect(),
    }
}
pub fn config(rng: &mut Rng) -> VespertideConfig {
    let nc = |rng: &mut Rng| *rng.pick(&[NameCase::Snake, NameCase::Camel, NameCase::Pascal]);
    let ff = |rng: &mut Rng| *rng.pick(&[FileFormat::Json, FileFormat::Yaml, FileFormat::Yml]);
    if rng.chance(1, 5) {
        return VespertideConfig::default();
    }
    VespertideConfig {
        models_dir: PathBuf::from(s(rng)),
        migrations_dir: PathBuf::from(s(rng)),
        table_naming_case: nc(rng),
        column_naming_case: nc(rng),
        model_format: ff(rng),
        migration_format: ff(rng),
        migration_filename_pattern: s(rng),
        model_export_dir: PathBuf::from(s(rng)),
        seaorm: SeaOrmConfig {
            extra_enum_derives: strs(rng),
            extra_model_derives: strs(rng),
            enum_naming_case: nc(rng),
            vespera_schema_type: rng.chance(1, 2),
        },
        prefix: s(rng),
    }
}
