"""C03 — PostgreSQL: the emitted statement sequence is executable in order and leaves the declared schema
(interpreted by a PostgreSQL catalog model)."""
import pgrun


def run(tier, seed):
    return pgrun.c03_check(tier, seed)


def replay(path):
    return pgrun.c03_replay(path)
