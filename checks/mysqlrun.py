"""Shared runner of the MySQL backend layer (coq/mysql, harness_mysql/hmysql, tools/mysql_sqlparse.py):
generate histories against /repo's working tree, parse the MySQL text the implementation emitted, evaluate
inside Coq (a) K-sql(mysql): gen_plan = implementation, K-apply on the same inputs, (b) O-C04: the engine
model run over the implementation's statements against catalog_of (replayed baseline), (c) the classifiers
of the known findings.  Also serves the MySQL part of the aggregate C19 / C14 checks."""
import collections, glob, hashlib, json, os, re, shutil, sys, time
import vflib
from vflib import ROOT, CACHE

sys.path.insert(0, os.path.join(ROOT, "tools"))
import mysql_sqlparse as P

LAYER = "mysql"
SUBCHECK = {1: "K-sql(mysql)", 2: "K-apply(evolving schema)", 3: "K-sql(whole-call error kind)"}
PROPOSED = os.path.join(ROOT, "props", "known_C04.proposed.json")


def tree_hash(paths):
    h = hashlib.sha1()
    for base in paths:
        if os.path.isfile(base):
            h.update(open(base, "rb").read())
            continue
        for f in sorted(glob.glob(os.path.join(base, "**", "*"), recursive=True)):
            if os.path.isfile(f) and "/target/" not in f and "/.git/" not in f and not f.endswith((".vo", ".vok", ".vos", ".glob", ".aux")):
                h.update(f.encode())
                h.update(open(f, "rb").read())
    return h.hexdigest()[:16]


def sizes(tier):
    if tier == "thorough":
        return {"evolutions": 700, "steps": 4, "hand": 500, "modseq": 400, "exhaustive": 1, "per_shard": 60}
    return {"evolutions": 90, "steps": 3, "hand": 70, "modseq": 60, "exhaustive": 0, "per_shard": 40}


def known_entries(prop="C04"):
    out = [k for k in vflib.load_known() if k.get("property") == prop]
    if os.path.exists(PROPOSED):
        # a proposed entry with the id of a recorded one is the proposed revision of it (e.g. a wider "explains" list)
        for k in json.load(open(PROPOSED)):
            if k.get("property") == prop:
                out = [x for x in out if x["id"] != k["id"]] + [k]
    return out


def classifier_order():
    """names of `known_classifiers` in coq/mysql/Model/Known.v, in list order"""
    src = open(os.path.join(ROOT, "coq", LAYER, "Model", "Known.v")).read()
    src = re.sub(r"\(\*.*?\*\)", "", src, flags=re.S)
    m = re.search(r"Definition known_classifiers[^:]*:[^=]*:=\s*\[(.*?)\]\s*\.", src, flags=re.S)
    return [x.strip() for x in m.group(1).split(";") if x.strip()] if m else []


def impl_term(row):
    """(Gallina term of impl_result, parse errors)"""
    res = row["result"]
    if "panic" in res:
        return "IPanic", []
    if "err" in res:
        return "IErr", []
    errs, acts = [], []
    for kind, stmts in zip(row["action_kinds"], res["ok"]):
        out = []
        for s in stmts:
            try:
                out.append(P.to_gallina(P.parse_stmt(s, raw=(kind == "RawSql"))))
            except P.Unparsed as e:
                errs.append({"statement": s, "why": str(e)[:300]})
        acts.append("[" + "; ".join(out) + "]")
    return "(IOk [" + ";\n    ".join(acts) + "])", errs


WHOLE = {"ok": 0, "err": 1, "panic": 2}


def case_term(row):
    it, errs = impl_term(row)
    return "(mkMC\n  %s\n  %s\n  %s\n  %s\n  %d)" % (row["baseline_g"], row["actions_g"], row["after_g"], it, WHOLE[row.get("whole", "ok")]), errs


VERDICT_RE = re.compile(
    r'\((\d+)(?:%nat)?,\s*\{\|\s*v_code := (\d+)(?:%nat)?;\s*v_stmt := (\d+)(?:%nat)?;\s*v_rule := "((?:[^"]|"")*)";'
    r'\s*v_object := "((?:[^"]|"")*)";\s*v_known := \[([^\]]*)\]\s*\|\}\)')


# components of Corr/MysqlCorr.v cover_stats, in order
COVER_KEYS = ["modify_all_total", "modify_under_restates_all", "modify_comment_lost", "modify_comment_lost_confirmed_on_impl_sql",
              "modify_autoinc_supported", "modify_autoinc_restated_in_impl_sql",
              "r3_actions_under_a_proved_sim_lemma", "r3_migrations_fully_under_sim_lemmas",
              "delete_column_actions", "delete_column_r3", "delete_column_now",
              "rename_column_actions", "rename_column_r3", "rename_column_now",
              "outside_judged", "outside_whole_proved_r3", "outside_whole_proved_now"]


def write_shards(d, rows, per):
    names, parse_errors = [], []
    header = "From VV.MYSQL Require Import MysqlCorr.\n"
    tail = ("Eval vm_compute in (mismatches_from shard_base cases).\n"
            "Eval vm_compute in (verdicts_from shard_base cases).\n"
            "Eval vm_compute in (hyp_stats cases).\n"
            "Eval vm_compute in (outside_stats cases).\n"
            "Eval vm_compute in (sim_stats cases).\n"
            "Eval vm_compute in (simp_stats cases).\n"
            "Eval vm_compute in (cover_stats cases).\n")
    terms = []
    for i, r in enumerate(rows):
        t, errs = case_term(r)
        for e in errs:
            e["case"] = i
            parse_errors.append(e)
        terms.append(t)
    for si in range(0, len(terms), per):
        name = "cases_mysql_%03d.v" % (si // per)
        with open(os.path.join(d, name), "w") as f:
            f.write(header)
            f.write("\nDefinition shard_base : nat := %d.\n" % si)
            f.write("Definition cases : list mysql_case := [\n")
            f.write(";\n".join(terms[si:si + per]))
            f.write("\n].\n")
            f.write(tail)
        names.append(name)
    return names, parse_errors


def eval_dir(d, rows, per):
    """write the shards for rows, run them, return (mismatches, verdicts, shard errors, parse errors)"""
    names, parse_errors = write_shards(d, rows, per)
    res = vflib.run_shards(LAYER, d, "cases_mysql_*.v")
    mism, verdicts, errors = {}, {}, []
    stats = {"modify_actions": 0, "modify_under_hypothesis": 0, "modify_on_autoinc_column": 0, "outside_known_classes": 0, "outside_and_holding": 0,
             "actions_in_judged_migrations": 0, "actions_under_a_proved_sim_lemma": 0, "judged_migrations": 0, "migrations_fully_under_sim_lemmas": 0,
             "not_whole_by_Sim_plan": 0, "whole_by_SimP_plan_equiv": 0, "whole_by_SimP_plan_checked_only": 0}
    for k in COVER_KEYS:
        stats[k] = 0
    for f, rc, o, dt in res:
        if rc != 0:
            errors.append({"shard": os.path.basename(f), "log": o[-1500:]})
            continue
        blocks = vflib.parse_eval_outputs(o)
        if len(blocks) < 2:
            errors.append({"shard": os.path.basename(f), "log": "expected two evaluation results: " + o[-800:]})
            continue
        for (i, subs) in vflib.parse_nat_pairs(blocks[0]):
            mism[str(i)] = subs
        n_expected = blocks[1].count("v_code")
        found = 0
        for m in VERDICT_RE.finditer(blocks[1]):
            found += 1
            verdicts[str(int(m.group(1)))] = {
                "code": int(m.group(2)), "stmt": int(m.group(3)), "rule": m.group(4).replace('""', '"'),
                "object": m.group(5).replace('""', '"'),
                "known": [x.strip() == "true" for x in m.group(6).split(";") if x.strip()]}
        if found != n_expected:
            errors.append({"shard": os.path.basename(f), "log": "verdict parse: %d of %d" % (found, n_expected)})
        if len(blocks) >= 4:
            a = vflib.parse_nat_list(blocks[2])
            b = vflib.parse_nat_list(blocks[3])
            if len(a) == 3 and len(b) == 2:
                stats["modify_actions"] += a[0]
                stats["modify_under_hypothesis"] += a[1]
                stats["modify_on_autoinc_column"] += a[2]
                stats["outside_known_classes"] += b[0]
                stats["outside_and_holding"] += b[1]
        if len(blocks) >= 5:
            c = vflib.parse_nat_list(blocks[4])
            if len(c) == 4:
                stats["actions_in_judged_migrations"] += c[0]
                stats["actions_under_a_proved_sim_lemma"] += c[1]
                stats["judged_migrations"] += c[2]
                stats["migrations_fully_under_sim_lemmas"] += c[3]
        if len(blocks) >= 6:
            c = vflib.parse_nat_list(blocks[5])
            if len(c) == 3:
                stats["not_whole_by_Sim_plan"] += c[0]
                stats["whole_by_SimP_plan_equiv"] += c[1]
                stats["whole_by_SimP_plan_checked_only"] += c[2]
        if len(blocks) >= 7:
            c = vflib.parse_nat_list(blocks[6])
            if len(c) == len(COVER_KEYS):
                for k, x in zip(COVER_KEYS, c):
                    stats[k] += x
    return mism, verdicts, errors, parse_errors, stats


def build_all():
    rc, out, binp = vflib.build_harness("hmysql", ws="harness_mysql")
    if rc != 0:
        return {"build_error": out[-3000:]}, None
    rc2, out2 = vflib.build_layer(LAYER)
    if rc2 != 0:
        return {"coq_error": out2[-3000:]}, None
    return None, binp


@vflib.serialized("run_mysql")
def run_mysql(tier, seed):
    """returns dict(rows, mismatches {idx: [subchecks]}, verdicts {idx: {...}}, errors, parse_errors, meta, dir)"""
    sz = sizes(tier)
    err, binp = build_all()
    if err:
        return err
    key = tree_hash(["/repo/crates/vespertide-core", "/repo/crates/vespertide-planner", "/repo/crates/vespertide-naming",
                     "/repo/crates/vespertide-query", os.path.join(ROOT, "harness", "common"), os.path.join(ROOT, "harness_mysql", "hmysql"),
                     os.path.join(ROOT, "coq", "m1", "Base"), os.path.join(ROOT, "coq", "m1", "Model"), os.path.join(ROOT, "coq", "m1", "Corr"),
                     os.path.join(ROOT, "coq", LAYER, "Model"), os.path.join(ROOT, "coq", LAYER, "Corr"),
                     os.path.join(ROOT, "corpus", LAYER), os.path.join(ROOT, "tools", "mysql_sqlparse.py"),
                     os.path.join(ROOT, "checks", "mysqlrun.py")])
    d = os.path.join(CACHE, "mysqlrun", "%s_%s_%s" % (key, tier, seed))
    done = os.path.join(d, "result.json")
    if os.path.exists(done):
        res = json.load(open(done))
        res["rows"] = [json.loads(l) for l in open(os.path.join(d, "cases.jsonl"))]
        res["cached"] = True
        return res
    shutil.rmtree(d, ignore_errors=True)
    for old in glob.glob(os.path.join(CACHE, "mysqlrun", "*")):
        if old != d:
            shutil.rmtree(old, ignore_errors=True)
    os.makedirs(d)
    t0 = time.time()
    rc, out, _ = vflib.sh([binp, "gen", "--seed", str(seed), "--evolutions", str(sz["evolutions"]), "--steps", str(sz["steps"]),
                           "--hand", str(sz["hand"]), "--modseq", str(sz["modseq"]), "--exhaustive", str(sz["exhaustive"]),
                           "--out", d, "--corpus", os.path.join(ROOT, "corpus", LAYER)], timeout=1200)
    if rc != 0:
        return {"build_error": "hmysql gen failed: " + out[-2000:]}
    meta = json.load(open(os.path.join(d, "meta.json")))
    rows = [json.loads(l) for l in open(os.path.join(d, "cases.jsonl"))]
    gen_s = time.time() - t0
    mism, verdicts, errors, parse_errors, stats = eval_dir(d, rows, sz["per_shard"])
    out = {"mismatches": mism, "verdicts": verdicts, "errors": errors, "parse_errors": parse_errors[:20], "n_parse_errors": len(parse_errors),
           "meta": meta, "dir": d, "gen_s": round(gen_s, 1), "coq_s": round(time.time() - t0 - gen_s, 1), "cached": False,
           "classifiers": classifier_order(), "stats": stats}
    json.dump(out, open(done, "w"))
    out["rows"] = rows
    return out


def distribution(rows):
    kinds, nact, tags, whole = collections.Counter(), collections.Counter(), collections.Counter(), collections.Counter()
    nstmt = 0
    for r in rows:
        for a in r.get("action_kinds", []):
            kinds[a] += 1
        nact[str(min(len(r.get("action_kinds", [])), 10))] += 1
        tags[r.get("tag", "?").split(":")[0]] += 1
        whole[r.get("whole", "ok")] += 1
        nstmt += sum(len(a) for a in r["result"].get("ok", []))
    return {"action_kinds": dict(kinds), "plan_sizes": dict(nact), "streams": dict(tags), "statements": nstmt,
            "build_plan_queries_outcome": dict(whole)}


def nontrivial(rows):
    """distinct migrations on a non-empty baseline whose plan emits >= 2 MySQL statements (Appendix D)"""
    seen = set()
    for r in rows:
        n = sum(len(a) for a in r["result"].get("ok", []))
        if r.get("step", 0) >= 1 and n >= 2:
            seen.add(hashlib.sha1(json.dumps([r.get("baseline"), r.get("plan")], sort_keys=True).encode()).hexdigest())
    return len(seen)


def load_histories(d):
    out = {}
    p = os.path.join(d, "histories.jsonl")
    if os.path.exists(p):
        for l in open(p):
            h = json.loads(l)
            out[h["hist"]] = h["history"]
    return out


def input_of(row, histories=None):
    """the failing migration is the LAST plan of `history`; the earlier plans produce its baseline"""
    h = (histories or {}).get(row.get("hist"))
    return {"history": h[:row["step"] + 1] if h else None, "baseline": None if h else row.get("baseline"), "plan": None if h else row.get("plan"),
            "mysql": row["result"],
            "how_to_replay": "./vf replay C04 <this file>; by hand: write the plans of `history` to migrations/ and run "
                             "`vespertide sql --backend mysql` (the last migration is the failing one)"}


# ---------------------------------------------------------------------------------- triage of O-C04 verdicts
def symptoms(v):
    """what has to be explained: the engine rule id, or each differing catalog component kind"""
    if v["code"] == 1:
        return [v["rule"].split()[0]]
    if v["code"] == 2:
        return sorted({t.split(":")[0] for t in v["object"].split()})
    if v["code"] == 4:
        return ["implementation-refused"]
    return []


def triage(res, known):
    """-> (per finding id: [case idx], unexplained [(idx, symptom list)], not_judged count)
    A failing case is accepted only if EVERY symptom is explained by an open finding whose classifier holds on it."""
    order = res.get("classifiers") or classifier_order()
    pos = {name: i for i, name in enumerate(order)}
    open_known = [k for k in known if k.get("status") == "open"]
    per, unexplained, skipped = collections.defaultdict(list), [], collections.Counter()
    for i, v in sorted(res["verdicts"].items(), key=lambda kv: int(kv[0])):
        if v["code"] == 3:
            skipped[v["rule"] + (" " + v["object"] if v["object"] else "")] += 1
            continue
        left = []
        for s in symptoms(v):
            hit = [k for k in open_known if s in k.get("explains", []) and k["classifier"] in pos
                   and pos[k["classifier"]] < len(v["known"]) and v["known"][pos[k["classifier"]]]]
            if hit:
                for k in hit:
                    if int(i) not in per[k["id"]]:
                        per[k["id"]].append(int(i))
            else:
                left.append(s)
        if left:
            unexplained.append((int(i), left))
    return per, unexplained, skipped


# ---------------------------------------------------------------------------------- parts of the aggregate C19 / C14 checks
def _part_proofs(propfile):
    rc, out = vflib.build_layer(LAYER)
    if rc != 0:
        return {"ok": False, "obligations": 0, "discharged": 0, "details": {"layer_build": out[-2000:]}}
    bad = vflib.grep_forbidden(LAYER)
    r = vflib.compile_property(LAYER, propfile)
    unexpected = [a for a in r["axioms"] if a.split(".")[-1] not in {x.split(".")[-1] for x in vflib.AXIOM_ALLOW}]
    ok = r["ok"] and not bad and not unexpected
    return {"ok": ok, "obligations": r["obligations"], "discharged": r["discharged"] if ok else 0,
            "details": {"theorems": r["theorems"], "closed_under_global_context": r["closed"], "axioms": r["axioms"], "forbidden": bad,
                        "checker_cmd": "make -C coq/mysql && coqc coq/mysql/Properties/%s.v" % propfile,
                        "log_tail": "" if r["ok"] else r["output"][-1500:]}}


def c19_part(tier, seed):
    """MySQL part of C19 (names symmetric between create and drop): pinned theorems of Properties/C19_mysql.v + the
    tie K-sql(mysql) on this run's cases (the theorems speak about gen; K-sql says gen is what the implementation emits)."""
    part = _part_proofs("C19_mysql")
    res = run_mysql(tier, seed)
    if "rows" not in res:
        part["ok"] = False
        part["details"]["correspondence"] = res
        return part
    rows = res["rows"]
    n1 = sum(1 for s in res["mismatches"].values() if 1 in s)
    kinds = collections.Counter(k for r in rows for k in r["action_kinds"])
    part["details"]["K-sql(mysql)"] = {"cases": len(rows), "mismatches": n1, "shard_errors": len(res["errors"]), "unparsed": res.get("n_parse_errors", 0),
                                       "create_path_actions": kinds.get("CreateTable", 0), "add_path_actions": kinds.get("AddConstraint", 0),
                                       "drop_path_actions": kinds.get("RemoveConstraint", 0)}
    part["details"]["refuted"] = ["C19_mysql_check_asymmetric_refuted (D11)", "C19_mysql_rename_table_refuted / C19_mysql_rename_then_drop_refused (D13, MySQL side)",
                                  "never colliding: C04 known_C04_derived_name_collision (D16)"]
    part["ok"] = part["ok"] and n1 == 0 and not res["errors"] and not res.get("n_parse_errors")
    return part


def c14_part(tier, seed):
    """MySQL part of C14 (prefix renames tables and nothing else): pinned theorems of Properties/C14_mysql.v + oracle on the
    implementation: the MySQL statements for the literally renamed project (prefix app_) = rename_stmt of the original ones,
    and the model agrees on the renamed input; evaluated inside Coq."""
    part = _part_proofs("C14_mysql")
    err, binp = build_all()
    if err:
        part["ok"] = False
        part["details"]["build"] = err
        return part
    sz = sizes(tier)
    d = os.path.join(CACHE, "mysql_c14", "%s_%s" % (tier, seed))
    shutil.rmtree(d, ignore_errors=True)
    os.makedirs(d)
    n = {"evolutions": max(20, sz["evolutions"] // 3), "hand": max(20, sz["hand"] // 3), "modseq": max(10, sz["modseq"] // 4)}
    rc, out, _ = vflib.sh([binp, "gen", "--seed", str(seed), "--evolutions", str(n["evolutions"]), "--steps", str(sz["steps"]),
                           "--hand", str(n["hand"]), "--modseq", str(n["modseq"]), "--no-enum", "1", "--literal", "app_",
                           "--out", d, "--corpus", os.path.join(ROOT, "corpus", LAYER)], timeout=1200)
    if rc != 0:
        part["ok"] = False
        part["details"]["harness"] = out[-1500:]
        return part
    rows = [json.loads(l) for l in open(os.path.join(d, "cases.jsonl"))]
    per = sz["per_shard"]
    terms, perr = [], []
    for i, r in enumerate(rows):
        t, e1 = case_term(r)
        lit, e2 = impl_term({"result": r["literal"], "action_kinds": r["action_kinds"]})
        wp, e3 = impl_term({"result": r["with_prefix"], "action_kinds": r["action_kinds"]})
        perr += e1 + e2 + e3
        terms.append("(%s,\n %s,\n %s)" % (t, lit, wp))
    for si in range(0, len(terms), per):
        with open(os.path.join(d, "lit_mysql_%03d.v" % (si // per)), "w") as f:
            f.write("From VV.MYSQL Require Import PrefixCorr.\n\nDefinition cases : list (mysql_case * impl_result * impl_result) := [\n")
            f.write(";\n".join(terms[si:si + per]))
            f.write("\n].\nEval vm_compute in (with_prefix_mismatches_from \"app_\" %d cases).\n" % si)
    res = vflib.run_shards(LAYER, d, "lit_mysql_*.v")
    mism, errors = {}, []
    for f, rc, o, dt in res:
        if rc != 0:
            errors.append({"shard": os.path.basename(f), "log": o[-1000:]})
            continue
        blocks = vflib.parse_eval_outputs(o)
        for (i, subs) in vflib.parse_nat_pairs(blocks[0] if blocks else ""):
            mism[i] = subs
    first = None
    if mism:
        i = sorted(mism)[0]
        first = {"baseline": rows[i]["baseline"], "plan": rows[i]["plan"], "mysql": rows[i]["result"], "mysql_literal_app_": rows[i]["literal"], "mysql_with_prefix_app_": rows[i]["with_prefix"],
                 "subchecks": mism[i]}
    part["details"]["O-C14(mysql)"] = {"migrations": len(rows), "statements": sum(len(a) for r in rows for a in r["result"].get("ok", [])),
                                       "implementation_not_equivariant": sum(1 for s in mism.values() if 1 in s),
                                       "model_differs_on_renamed_input": sum(1 for s in mism.values() if 2 in s),
                                       "with_prefix_differs_from_literal_renaming": sum(1 for s in mism.values() if 3 in s),
                                       "shard_errors": errors[:2], "unparsed": perr[:3], "first_failing": first}
    part["details"]["repaired"] = ["D10 (/repo 6c63462): C14_mysql_with_prefix_equivariant, C14_mysql_with_prefix_inline_fk are positive now; with_prefix is compared with the literal renaming on the implementation (sub-check 3)"]
    part["ok"] = part["ok"] and not mism and not errors and not perr
    return part
