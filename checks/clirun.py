"""Shared runner of layer `cli` (C13: K-cli + O-C13, C20: K-tree + O-C20).

The real `vespertide` binary is built from /repo's working tree into .cache/target_repo and driven in
temporary projects under .cache/cli/<run>/.  Everything a command can see (config, model files,
migration files) is re-read from disk and parsed by the real serde code (harness_cli/hcli) into Gallina
terms; what the command did (exit status, parsed action lines, files added / changed, resulting
tree) is printed next to it; the model is evaluated on the same input inside Coq and only the indices
of differing cases come back.  The oracles (the property's clauses checked directly on the binary's
behaviour) are evaluated here, their failures are classified by Gallina booleans evaluated in Coq."""
import glob, hashlib, json, os, pty, random, re, select, shutil, subprocess, time
from concurrent.futures import ThreadPoolExecutor
import vflib
from vflib import ROOT, CACHE

TARGET_REPO = os.path.join(CACHE, "target_repo")
BIN = os.path.join(TARGET_REPO, "debug", "vespertide")
WORK = os.path.join(CACHE, "cli")
RUN_ENV = dict(os.environ, NO_COLOR="1", RUST_BACKTRACE="0")
RUN_ENV.pop("VESP_SCHEMA_BASE_URL", None)


# ---------------------------------------------------------------------------------- builds
def build_binary():
    env = dict(os.environ, CARGO_NET_OFFLINE="true", CARGO_TARGET_DIR=TARGET_REPO, NO_COLOR="1")
    env.pop("RUSTFLAGS", None)
    rc, out, dt = vflib.sh(["cargo", "build", "--offline", "-p", "vespertide-cli", "--manifest-path", "/repo/Cargo.toml"],
                           env=env, timeout=1800)
    return rc, out


def build_all():
    rc, out = build_binary()
    if rc != 0 or not os.path.exists(BIN):
        return None, "vespertide binary: " + out[-3000:]
    rc, out, hcli = vflib.build_harness("hcli", ws="harness_cli")
    if rc != 0:
        return None, "hcli: " + out[-3000:]
    return hcli, None


# ---------------------------------------------------------------------------------- Gallina printing
def gs(s):
    return '"' + s.replace('"', '""') + '"'


def glist(items):
    return "[" + "; ".join(items) + "]"


def gopt(x):
    return "None" if x is None else "(Some %s)" % x


def gbool(b):
    return "true" if b else "false"


FMT = {"json": "FJson", "yaml": "FYaml", "yml": "FYml"}


def gconfig(cfg):
    return "(mkConfig %s %s %s %s %s %s %s)" % (gs(cfg["modelsDir"]), gs(cfg["migrationsDir"]), FMT[cfg.get("modelFormat", "json")],
                                                FMT[cfg.get("migrationFormat", "json")], gs(cfg.get("migrationFilenamePattern", "%04v_%m")),
                                                gs(cfg.get("modelExportDir", "src/models")), gs(cfg.get("prefix", "")))


def gobs(o):
    return "(mkObs %s %s)" % (gs(o[0]), glist(gs(x) for x in o[1]))


# ---------------------------------------------------------------------------------- running the binary
# ---- every invocation of the binary is recorded (for C16: no loadable project makes a command panic, die by a signal or hang)
import threading
CMDLOG = []
CMDLOG_LOCK = threading.Lock()
KNOWN_PANICS = [("C16-sqlite-interval", "Interval is not available in Sqlite"),
                ("C16-sqlite-numeric-precision", "precision cannot be larger than 16")]


def snapshot_dir(cwd, limit=60):
    """the project a command ran in, as {relative path: text} (config, model files, migration files)"""
    out = {}
    for dp, dn, fn in os.walk(cwd):
        dn[:] = [d for d in dn if not d.endswith("__literal") and d not in ("coq", "target")]
        for f in fn:
            if len(out) >= limit:
                return out
            if f.endswith((".json", ".yaml", ".yml")):
                p = os.path.join(dp, f)
                try:
                    out[os.path.relpath(p, cwd)] = open(p, errors="replace").read()[:20000]
                except OSError:
                    pass
    return out


def log_cmd(args, cwd, rc, err, timed_out):
    panic = rc == 101 or "panicked at" in err
    signal = rc is not None and rc < 0 and not timed_out
    e = {"cmd": args[0] if args else "", "rc": rc, "panic": panic, "signal": signal, "timeout": timed_out}
    if panic or signal or timed_out:
        e["args"] = list(args)
        e["stderr"] = err[-600:]
        e["known"] = next((k for k, msg in KNOWN_PANICS if msg in err), None)
        e["project"] = snapshot_dir(cwd)
        e["cwd"] = cwd
    with CMDLOG_LOCK:
        CMDLOG.append(e)


def bin_identity():
    try:
        st = os.stat(BIN)
        return "%d:%d" % (st.st_size, int(st.st_mtime))
    except OSError:
        return "missing"


def save_cmdlog(name, tier, seed, start):
    """summary of the invocations since index [start], kept next to the run directories for c16_part"""
    with CMDLOG_LOCK:
        entries = CMDLOG[start:]
    by = {}
    for e in entries:
        d = by.setdefault(e["cmd"], {"n": 0, "exit0": 0, "exit1": 0, "panic": 0, "signal": 0, "timeout": 0, "other": 0})
        d["n"] += 1
        k = "panic" if e["panic"] else "signal" if e["signal"] else "timeout" if e["timeout"] else "exit0" if e["rc"] == 0 else "exit1" if e["rc"] == 1 else "other"
        d[k] += 1
    allbad = [e for e in entries if e["panic"] or e["signal"] or e["timeout"]]
    known = {}
    for e in allbad:
        if e.get("known") and e["panic"]:
            known[e["known"]] = known.get(e["known"], 0) + 1
    # every unexplained one is kept (the first 40 with their project), explained ones only as counts
    bad = [e for e in allbad if not (e.get("known") and e["panic"])]
    os.makedirs(WORK, exist_ok=True)
    json.dump({"binary": bin_identity(), "by_command": by, "bad": bad[:40], "n_bad": len(bad), "known": known},
              open(os.path.join(WORK, "cmdlog_%s_%s_%s.json" % (name, tier, seed)), "w"))


# the environment is part of the input: VESP_SCHEMA_BASE_URL feeds the "$schema" member `revision` and `new` write
PROJECT_ENV = {}
SCHEMA_BASES = ["C:\\vespertide\\schemas", "\\\\share\\dir\\", "https://example.org/a \"quoted\" dir", "tab\there", "https://例え.jp/スキーマ",
                "https://example.org/schemas/", "", "https://example.org/" + "s" * 300, "file:///tmp/{x}: [y]# z", "it's 'quoted'"]
DEFAULT_SCHEMA_BASE = "https://raw.githubusercontent.com/dev-five-git/vespertide/refs/heads/main/schemas"


def env_for(cwd):
    extra = PROJECT_ENV.get(os.path.abspath(cwd))
    return dict(RUN_ENV, **extra) if extra else RUN_ENV


def expected_schema_url(cwd, leaf):
    base = (PROJECT_ENV.get(os.path.abspath(cwd)) or {}).get("VESP_SCHEMA_BASE_URL", DEFAULT_SCHEMA_BASE)
    return base.rstrip("/") + "/" + leaf


def schema_member(text, name):
    """the "$schema" member of a written file, or an exception text"""
    try:
        if name.endswith(".json"):
            return json.loads(text).get("$schema")
        import yaml
        return yaml.safe_load(text).get("$schema")
    except Exception as ex:
        return "<unreadable: %s>" % str(ex)[:80]


def run_cmd(args, cwd, timeout=60):
    try:
        p = subprocess.run([BIN] + args, cwd=cwd, env=env_for(cwd), capture_output=True, timeout=timeout, stdin=subprocess.DEVNULL)
    except subprocess.TimeoutExpired as ex:
        err = (ex.stderr or b"").decode(errors="replace") if isinstance(ex.stderr, (bytes, bytearray)) else ""
        log_cmd(args, cwd, None, err, True)
        return 124, "", "timeout after %ds\n%s" % (timeout, err)
    out, err = p.stdout.decode(errors="replace"), p.stderr.decode(errors="replace")
    log_cmd(args, cwd, p.returncode, err, False)
    return p.returncode, out, err


def run_pty(args, cwd, timeout=30):
    """run with a pseudo terminal; every time the program goes idle (a dialoguer prompt) press Enter = accept the default"""
    m, s = pty.openpty()
    p = subprocess.Popen([BIN] + args, cwd=cwd, env=env_for(cwd), stdin=s, stdout=s, stderr=s, close_fds=True)
    os.close(s)
    out = b""
    t0 = time.time()
    while True:
        r, _, _ = select.select([m], [], [], 0.25)
        if r:
            try:
                d = os.read(m, 65536)
            except OSError:
                d = b""
            if not d:
                break
            out += d
        else:
            if p.poll() is not None:
                break
            os.write(m, b"\r")
        if time.time() - t0 > timeout:
            p.kill()
            break
    p.wait()
    os.close(m)
    txt = out.decode(errors="replace")
    log_cmd(args, cwd, p.returncode, txt, time.time() - t0 > timeout)
    return p.returncode, txt, txt


# ---------------------------------------------------------------------------------- output parsers
def split_tc(s):
    i = s.find(".")
    return (s, "") if i < 0 else (s[:i], s[i + 1:])


CK = {"PRIMARY KEY": "PK", "UNIQUE": "UNIQUE", "FOREIGN KEY": "FK", "FK": "FK", "CHECK": "CHECK", "INDEX": "INDEX"}


def parse_ctype(ct):
    """format_constraint_type (diff.rs:197-233) -> (kind, name)"""
    if ct.startswith("PRIMARY KEY ("):
        return "PK", ""
    m = re.match(r"^(?:(\S+) )?(UNIQUE|FK|INDEX) \(", ct)
    if m:
        return CK[m.group(2)], m.group(1) or ""
    m = re.match(r"^(\S+) CHECK \(", ct)
    if m:
        return "CHECK", m.group(1)
    return "?", ct


def parse_diff_line(l):
    """one line of format_action (diff.rs:42-195) -> (kind, names)"""
    def arrow(rest):
        a, _, b = rest.partition(" -> ")
        return a, b
    if l.startswith("Create table: "):
        return ("CreateTable", [l[14:]])
    if l.startswith("Delete table: "):
        return ("DeleteTable", [l[14:]])
    if l.startswith("Add column: "):
        return ("AddColumn", list(split_tc(l[12:])))
    if l.startswith("Rename column: "):
        a, b = arrow(l[15:])
        t, c = split_tc(a)
        return ("RenameColumn", [t, c, b])
    if l.startswith("Delete column: "):
        return ("DeleteColumn", list(split_tc(l[15:])))
    if l.startswith("Modify column type: "):
        a, b = arrow(l[20:])
        return ("ModifyColumnType", list(split_tc(a)))
    if l.startswith("Modify column nullability: "):
        a, b = arrow(l[27:])
        return ("ModifyColumnNullable", list(split_tc(a)) + [b])
    if l.startswith("Modify column default: "):
        a, b = arrow(l[23:])
        return ("ModifyColumnDefault", list(split_tc(a)))
    if l.startswith("Modify column comment: "):
        a, b = arrow(l[23:])
        return ("ModifyColumnComment", list(split_tc(a)))
    if l.startswith("Rename table: "):
        a, b = arrow(l[14:])
        return ("RenameTable", [a, b])
    if l.startswith("Execute raw SQL: "):
        return ("RawSql", [])
    if l.startswith("Add constraint: "):
        ct, _, t = l[16:].rpartition(" on ")
        k, n = parse_ctype(ct)
        return ("AddConstraint", [t, k, n])
    if l.startswith("Remove constraint: "):
        ct, _, t = l[19:].rpartition(" from ")
        k, n = parse_ctype(ct)
        return ("RemoveConstraint", [t, k, n])
    return ("?", [l])


def parse_display(l):
    """Display for MigrationAction (core/action.rs:211-350) -> (kind, names)"""
    kind, _, rest = l.partition(": ")
    if kind in ("CreateTable", "DeleteTable"):
        return (kind, [rest])
    if kind in ("AddColumn", "DeleteColumn", "ModifyColumnType"):
        return (kind, list(split_tc(rest)))
    if kind == "RenameColumn":
        a, _, b = rest.partition(" -> ")
        t, c = split_tc(a)
        return (kind, [t, c, b])
    if kind == "ModifyColumnNullable":
        a, _, b = rest.partition(" -> ")
        return (kind, list(split_tc(a)) + [b])
    if kind in ("ModifyColumnDefault", "ModifyColumnComment"):
        a, _, b = rest.partition(" -> ")
        return (kind, list(split_tc(a)))
    if kind == "RenameTable":
        a, _, b = rest.partition(" -> ")
        return (kind, [a, b])
    if kind == "RawSql":
        return (kind, [])
    if kind in ("AddConstraint", "RemoveConstraint"):
        t, x = split_tc(rest)
        m = re.match(r"^(.*) \((UNIQUE|FOREIGN KEY|CHECK|INDEX)\)$", x)
        if m:
            return (kind, [t, CK[m.group(2)], m.group(1)])
        return (kind, [t, CK.get(x, "?"), ""])
    return ("?", [l])


KINDS = {"CreateTable", "DeleteTable", "AddColumn", "RenameColumn", "DeleteColumn", "ModifyColumnType", "ModifyColumnNullable",
         "ModifyColumnDefault", "ModifyColumnComment", "AddConstraint", "RemoveConstraint", "RenameTable", "RawSql"}


def obs_diff(rc, out):
    if rc != 0:
        return ("err",)
    if "No differences found." in out:
        return ("none",)
    acts = [parse_diff_line(m.group(1)) for m in re.finditer(r"^\d+\. (.*)$", out, flags=re.M)]
    return ("changes", acts)


def sqlgen_failure(rc, err):
    """the command got as far as SQL generation (outside this layer) and failed there: build_plan_queries returned
    an error, or sea-query / vespertide-query panicked while rendering"""
    if "query build error" in err:
        return True
    return rc == 101 and "panicked at" in err and ("sea-query" in err or "vespertide-query" in err)


def obs_sql(rc, out, err):
    if rc != 0:
        return ("qerr",) if sqlgen_failure(rc, err) else ("err",)
    if "No differences found." in out:
        return ("none",)
    v = re.search(r"^Plan version: (\d+)", out, flags=re.M)
    acts = [parse_display(m.group(1)) for m in re.finditer(r"^Action: (.*)$", out, flags=re.M)]
    return ("render", int(v.group(1)) if v else -1, acts)


def obs_status(rc, out):
    if rc != 0:
        return "err"
    if "Schema is synchronized with migrations." in out:
        return "sync"
    if "Schema differs from applied migrations." in out:
        return "differs"
    if "No models or migrations found." in out:
        return "empty"
    if "Models exist but no migrations have been applied." in out:
        return "nomig"
    return "err"


def obs_log(rc, out, err):
    if rc != 0:
        return ("qerr",) if sqlgen_failure(rc, err) else ("err",)
    if "No migrations found." in out:
        return ("none",)
    entries = []
    for line in out.split("\n"):
        m = re.match(r"^Version: (\d+)$", line)
        if m:
            entries.append((int(m.group(1)), []))
            continue
        m = re.match(r"^    (\d+)\. (.*)$", line)
        if m and entries:
            k = m.group(2).partition(": ")[0]
            if k in KINDS:
                entries[-1][1].append(parse_display(m.group(2)))
    return ("entries", entries)


BACKENDS = ["postgres", "mysql", "sqlite"]


def log_blocks(out):
    """(lines are split at \\n only: str.splitlines would also break at U+0085 / U+2028, which user text may contain)
    `log` stdout -> [(version, [(action display line, text printed under it)])]; log.rs:62-97 prints per action the
    non-empty trimmed statements, numbered i-j when there are several"""
    res = []
    cur = None
    for line in out.split("\n"):
        m = re.match(r"^Version: (\d+)$", line)
        if m:
            res.append((int(m.group(1)), []))
            cur = None
            continue
        m = re.match(r"^    (\d+)\. (.*)$", line)
        if m and res and m.group(2).partition(": ")[0] in KINDS:
            cur = [m.group(2), []]
            res[-1][1].append(cur)
            continue
        if cur is not None:
            if not line.strip():
                cur = None
            else:
                cur[1].append(line.rstrip())
    return [(v, [(d, "\n".join(b)) for d, b in acts]) for v, acts in res]


def sql_blocks(out):
    """`sql` stdout -> [(action display line, text printed under it)]; sql.rs:86-112 prints every statement (trimmed, empty
    ones included), numbered i or i-j"""
    res = []
    cur = None
    for line in out.split("\n"):
        m = re.match(r"^Action: (.*)$", line)
        if m and m.group(1).partition(": ")[0] in KINDS:
            cur = [m.group(1), []]
            res.append(cur)
            continue
        if cur is not None:
            cur[1].append(line.rstrip())
    return [(d, "\n".join(b).rstrip()) for d, b in res]


def expected_log_block(i, stmts):
    st = [x.strip() for x in stmts if x.strip()]
    if len(st) > 1:
        return "\n".join("    %d-%d. %s" % (i, j + 1, x) for j, x in enumerate(st))
    return "\n".join("       %s" % x for x in st)


def expected_sql_block(i, stmts):
    st = [x.strip() for x in stmts]
    return "\n".join(("%d%s. %s" % (i, "-%d" % (j + 1) if len(st) > 1 else "", x)).rstrip() for j, x in enumerate(st)).rstrip()


def norm_block(b):
    return "\n".join(l.rstrip() for l in b.split("\n")).rstrip()


def hcli_render(hcli, pdir):
    p = subprocess.run([hcli, "render", pdir], capture_output=True, timeout=120)
    try:
        return json.loads(p.stdout.decode(errors="replace").strip().split("\n")[-1])
    except Exception:
        return {"error": "render helper failed: " + p.stderr.decode(errors="replace")[-300:]}


def oracle_statements(o, ref, prefix_known):
    """the statements the binary prints must be the statements the runtime would execute (reference: hcli render, which
    builds them the way vespertide-macro does) — for the three backends. returns fails."""
    fails = []
    o["stmt_compared"] = {"log_migrations": 0, "sql_plans": 0}
    if "error" in ref:
        return fails
    for b in BACKENDS:
        lb = o["log_all"].get(b)
        if lb is not None and lb["rc"] == 0 and "No migrations found." not in lb["out"]:
            got = log_blocks(lb["out"])
            want = []
            usable = True
            for e in ref["log"]:
                acts = e["actions"]
                if isinstance(acts, dict) or any(a.get(b) is None for a in acts):
                    usable = False      # SQL generation fails for this backend: nothing to compare (the binary fails too)
                    break
                want.append((e["version"], [(a["display"], expected_log_block(i + 1, a[b])) for i, a in enumerate(acts)]))
            if usable:
                o["stmt_compared"]["log_migrations"] += len(want)
                g = [(v, [(d, norm_block(t)) for d, t in acts]) for v, acts in got]
                w = [(v, [(d, norm_block(t)) for d, t in acts]) for v, acts in want]
                if g != w:
                    k = next((i for i in range(min(len(g), len(w))) if g[i] != w[i]), min(len(g), len(w)))
                    detail = ""
                    if k < len(g) and k < len(w):
                        ga, wa = g[k][1], w[k][1]
                        j = next((i for i in range(min(len(ga), len(wa))) if ga[i] != wa[i]), min(len(ga), len(wa)))
                        if j < len(ga) and j < len(wa):
                            detail = " action %d %s: log prints %r, the runtime executes %r" % (j + 1, wa[j][0], ga[j][1][:300], wa[j][1][:300])
                    fails.append(("log_equals_runtime", None, "log --backend %s: stored migration #%d differs from what the runtime would execute.%s" % (b, k + 1, detail)))
        sb = o["sql_all"].get(b)
        rs = ref["sql"]
        if sb is not None and sb["rc"] == 0 and "error" not in rs:
            got = [] if "No differences found." in sb["out"] else sql_blocks(sb["out"])
            if rs.get("none"):
                want = []
            else:
                acts = rs["actions"]
                if isinstance(acts, dict) or any(a.get(b) is None for a in acts):
                    continue
                want = [(a["display"], expected_sql_block(i + 1, a[b])) for i, a in enumerate(acts)]
            g = [(d, norm_block(t)) for d, t in got]
            w = [(d, norm_block(t)) for d, t in want]
            o["stmt_compared"]["sql_plans"] += 1
            if g != w:
                j = next((i for i in range(min(len(g), len(w))) if g[i] != w[i]), min(len(g), len(w)))
                detail = " first difference at action %d: sql prints %r, expected %r" % (j + 1, g[j] if j < len(g) else None, w[j] if j < len(w) else None)
                fails.append(("sql_renders_diff", None, "sql --backend %s does not print the statements of the plan diff lists.%s" % (b, detail[:700])))
    return fails


def g_o_diff(o):
    return {"err": "OD_err", "none": "OD_none"}.get(o[0]) or "(OD_changes %s)" % glist(gobs(a) for a in o[1])


def g_o_sql(o):
    return {"err": "OS_err", "qerr": "OS_qerr", "none": "OS_none"}.get(o[0]) or "(OS_render %d%%N %s)" % (o[1], glist(gobs(a) for a in o[2]))


def g_o_status(o):
    return {"err": "OT_err", "sync": "OT_sync", "differs": "OT_differs", "empty": "OT_empty", "nomig": "OT_nomig"}[o]


def g_o_log(o):
    return {"err": "OL_err", "qerr": "OL_qerr", "none": "OL_none"}.get(o[0]) or "(OL_entries %s)" % glist(
        "(%d%%N, %s)" % (v, glist(gobs(a) for a in acts)) for v, acts in o[1])


# ---------------------------------------------------------------------------------- project on disk
MODEL_EXTS = (".json", ".yaml", ".yml")


def walk_models(base):
    """files in the order load_models_recursive / walk_models visit them (read_dir order, depth first)"""
    out = []
    if not os.path.isdir(base):
        return out
    for e in os.scandir(base):
        if e.is_dir():
            out += walk_models(e.path)
        elif e.is_file() and os.path.splitext(e.name)[1] in MODEL_EXTS and rust_ext(e.name) in ("json", "yaml", "yml"):
            out.append(e.path)
    return out


def rust_ext(name):
    i = name.rfind(".")
    return None if i <= 0 else name[i + 1:]


def list_migrations(d):
    if not os.path.isdir(d):
        return []
    return [e.path for e in os.scandir(d) if e.is_file() and rust_ext(e.name) in ("json", "yaml", "yml")]


def snapshot(d):
    if not os.path.isdir(d):
        return {}
    return {e.name: open(e.path, "rb").read() for e in os.scandir(d) if e.is_file()}


def hcli_parse(hcli, models, migrations):
    p = subprocess.run([hcli, "parse", "--models"] + models + ["--migrations"] + migrations, capture_output=True, timeout=120)
    rows = [json.loads(l) for l in p.stdout.decode(errors="replace").split("\n") if l.strip()]
    return rows


def write_project(pdir, cfg):
    os.makedirs(pdir, exist_ok=True)
    json.dump(cfg, open(os.path.join(pdir, "vespertide.json"), "w"))


def write_models(pdir, cfg, files):
    """files: {relative path: text}; the models directory is replaced"""
    md = os.path.join(pdir, cfg["modelsDir"])
    shutil.rmtree(md, ignore_errors=True)
    os.makedirs(md)
    for rel, text in files.items():
        f = os.path.join(md, rel)
        os.makedirs(os.path.dirname(f), exist_ok=True)
        open(f, "w").write(text)


def observe(hcli, pdir, cfg, message, fill_mode, backend, tag):
    """run every view command and one `revision` on the project as it is on disk; returns the case row"""
    md, gd = os.path.join(pdir, cfg["modelsDir"]), os.path.join(pdir, cfg["migrationsDir"])
    mfiles, gfiles = walk_models(md), list_migrations(gd)
    rows = hcli_parse(hcli, mfiles, gfiles)
    if any(not r.get("ok", True) for r in rows if r["kind"] != "missing"):
        return {"tag": tag, "skip": "unparsable file", "rows": rows}
    models = [(os.path.relpath(r["file"], md), r["g"]) for r in rows if r["kind"] == "model"]
    migs = [(os.path.basename(r["file"]), r["g"], r) for r in rows if r["kind"] == "migration"]
    missing = [r for r in rows if r["kind"] == "missing"][0]
    gproject = "(mkProject %s %s %s)" % (gconfig(cfg), glist("(%s, %s)" % (gs(n), g) for n, g in models),
                                         glist("(%s, %s)" % (gs(n), g) for n, g, _ in migs))
    o = {}
    rc, out, err = run_cmd(["diff"], pdir)
    o["diff"] = obs_diff(rc, out)
    o["diff_rc"] = rc
    ref = hcli_render(hcli, pdir)
    o["sql_all"], o["log_all"] = {}, {}
    for b in BACKENDS:
        rc, out, err = run_cmd(["sql", "--backend", b], pdir)
        o["sql_all"][b] = {"rc": rc, "out": out, "qerr": sqlgen_failure(rc, err)}
        if b == backend:
            o["sql"] = obs_sql(rc, out, err)
        rc, out, err = run_cmd(["log", "--backend", b], pdir)
        o["log_all"][b] = {"rc": rc, "out": out, "qerr": sqlgen_failure(rc, err)}
        if b == backend:
            o["log"] = obs_log(rc, out, err)
    rc, out, err = run_cmd(["status"], pdir)
    o["status"] = obs_status(rc, out)
    o["stmt_fails"] = oracle_statements(o, ref, None)
    # the baselines the runtime renders against (computed with the real apply_action, the way the macro does)
    g_log_b = "None"
    g_sql_b = "None"
    if "error" not in ref:
        g_log_b = "(Some %s)" % glist(e["baseline_g"] for e in ref["log"])
        if "baseline_g" in ref["sql"]:
            g_sql_b = "(Some %s)" % ref["sql"]["baseline_g"]
    for b in BACKENDS:          # keep the rows small: the raw texts are only needed by the statement oracle above
        o["sql_all"][b].pop("out")
        o["log_all"][b].pop("out")
    # revision
    fills = []
    if fill_mode in ("all", "all_pty"):
        for it in missing["items"]:
            v = ("'%s'" % it["enum"][0]) if it.get("enum") else it["default"]
            fills.append("%s.%s=%s" % (it["table"], it["column"], v))
    elif isinstance(fill_mode, list):
        fills = list(fill_mode)
    tty = fill_mode in ("pty", "all_pty")
    before = snapshot(gd)
    args = ["revision", "--message=" + message]
    for f in fills:
        args += ["--fill-with", f]
    if tty:
        rc, out, err = run_pty(args, pdir)
    else:
        rc, out, err = run_cmd(args, pdir)
    after = snapshot(gd)
    added = sorted(n for n in after if n not in before)
    changed = sorted(n for n in before if n in after and after[n] != before[n])
    removed = sorted(n for n in before if n not in after)
    o["rev_rc"] = rc
    o["rev_added"], o["rev_changed"], o["rev_removed"] = added, changed, removed
    # the four explicit refusals of `revision` (each told by one stable substring of its message)
    o["rev_refused"] = rc != 0 and any(x in err for x in ("Cannot add non-nullable foreign key column",
                                                          "refusing to overwrite it", "cannot create migration version",
                                                          "invalid migration plan"))
    o["rev_noterm"] = rc != 0 and "not a terminal" in err
    o["rev_fk_refusal"] = rc != 0 and "Cannot add non-nullable foreign key column" in err
    o["fk_refusal_due"] = bool(missing.get("fk_refusal_due")) if missing.get("planned") else None
    grev = "OR_err"
    wrote = None
    if rc == 0 and ("No changes detected." in out) and not added and not changed:
        grev = "OR_nothing"
        o["rev"] = "nothing"
    elif rc == 0 and len(added) + len(changed) == 1:
        name = (added + changed)[0]
        r = hcli_parse(hcli, [], [os.path.join(gd, name)])
        r0 = [x for x in r if x["kind"] == "migration"][0]
        if r0.get("ok"):
            grev = "(OR_wrote %s %s %s %s)" % (gs(name), r0["g"], glist(gs(x) for x in changed), glist(gs(x) for x in added))
            wrote = {"file": name, "version": r0["version"], "n_actions": r0["n_actions"], "text": after[name].decode(errors="replace"),
                     "comment": r0.get("comment"), "comment_ok": r0.get("comment") == message}
            wrote["schema"] = schema_member(wrote["text"], name)
            wrote["schema_ok"] = wrote["schema"] == expected_schema_url(pdir, "migration.schema.json")
            o["rev"] = "wrote"
        else:
            o["rev"] = "wrote-unparsable"
            grev = "OR_err"
    elif rc == 0:
        o["rev"] = "odd"
        grev = "(OR_wrote %s (mkPlan \"\" None None 0%%N []) %s %s)" % (gs("?"), glist(gs(x) for x in changed), glist(gs(x) for x in added))
    else:
        o["rev"] = "err"
    o["wrote"] = wrote
    term = "(mkCli %s %s %s %s %s %s %s %s %s %s %s)" % (gproject, gs(message), glist(gs(f) for f in fills), gbool(tty),
                                                        g_o_diff(o["diff"]), g_o_sql(o["sql"]), g_o_status(o["status"]), g_o_log(o["log"]), grev,
                                                        g_log_b, g_sql_b)
    versions = [r["version"] for _, _, r in migs]
    return {"tag": tag, "term": term, "obs": o, "config": cfg, "message": message, "fills": fills, "tty": tty, "backend": backend,
            "models": {n: open(os.path.join(md, n)).read() for n, _ in models},
            "migrations": {n: open(os.path.join(gd, n)).read() for n, _, _ in migs},
            "versions": versions, "n_models": len(models)}


# ---------------------------------------------------------------------------------- O-C13: the clauses, on the binary's behaviour
def prefixed(o, prefix):
    """what `diff` lists, as `sql` must show it when a table prefix is configured: table names prefixed"""
    kind, names = o
    if not prefix or not names:
        return o
    n = list(names)
    n[0] = prefix + n[0]
    if kind == "RenameTable":
        n[1] = prefix + n[1]
    return (kind, n)


def oracle_c13(row, post):
    """returns list of (clause, classifier_index or None, text). classifier indices: classify_cli order
    (none is left: every failure is a violation)."""
    o, cfg = row["obs"], row["config"]
    fails = []
    d = o["diff"]
    if d[0] != "err":
        reports = d[0] == "changes"
        wrote = o["rev"] == "wrote"
        refused = o["rev_refused"]
        noterm = o["rev_noterm"]
        if reports and not (wrote or refused or noterm):
            fails.append(("diff_iff_revision", None, "diff lists changes but revision neither wrote nor refused (rc=%s)" % o["rev_rc"]))
        # the foreign-key refusal must be given exactly when a NOT NULL, default-less column that IS a foreign key is added
        due = o.get("fk_refusal_due")
        if due is not None and reports:
            if o.get("rev_fk_refusal") and not due:
                fails.append(("diff_iff_revision", None, "diff lists changes; revision refuses with the foreign-key message although no added NOT NULL column without default carries a foreign key"))
            if due and wrote:
                fails.append(("diff_iff_revision", None, "revision wrote a migration that adds a NOT NULL foreign-key column without default (the explicit refusal is due)"))
        if not reports and o["rev"] != "nothing":
            fails.append(("diff_iff_revision", None, "diff finds nothing but revision did not answer 'nothing' (%s)" % o["rev"]))
        s = o["sql"]
        if s[0] in ("none", "render"):
            want = [] if not reports else [prefixed(a, cfg.get("prefix", "")) for a in d[1]]
            got = [] if s[0] == "none" else s[2]
            if [list(map(str, (a[0], a[1]))) for a in want] != [list(map(str, (a[0], a[1]))) for a in got]:
                fails.append(("sql_renders_diff", None, "sql renders %d action(s) %s, diff lists %d %s" % (
                    len(got), [a[0] + ":" + ".".join(a[1][:1]) for a in got][:4], len(want), [a[0] + ":" + ".".join(a[1][:1]) for a in want][:4])))
        elif s[0] == "err":
            # (with a prefix, `sql` sees every model table as new: creating them all at once can fail on an FK cycle)
            fails.append(("sql_renders_diff", None, "diff succeeds, sql fails before SQL generation"))
        # status: synchronized iff diff finds nothing (no known exception since fix b3fae31)
        if o["status"] == "sync" and reports:
            fails.append(("status_sync_iff_no_diff", None, "status says synchronized, diff lists %d change(s): %s" % (len(d[1]), d[1][0][0])))
        if o["status"] == "differs" and not reports:
            fails.append(("status_sync_iff_no_diff", None, "status says the schema differs, diff finds nothing"))
        if o["status"] == "err":
            fails.append(("status_sync_iff_no_diff", None, "diff succeeds, status fails"))
    # append-only history
    over = None      # no known class any more: `revision` never overwrites or reuses a version (fix fcb5089)
    if o["rev_rc"] != 0 and (o["rev_added"] or o["rev_changed"] or o["rev_removed"]):
        fails.append(("revision_never_overwrites", None, "revision exits %d but changed the migrations directory: added %s changed %s removed %s" % (
            o["rev_rc"], o["rev_added"], o["rev_changed"], o["rev_removed"])))
    if o["rev_removed"] or o["rev_changed"]:
        fails.append(("revision_append_only", over, "revision modified existing migration file(s) %s" % (o["rev_changed"] + o["rev_removed"])))
    if len(o["rev_added"]) > 1:
        fails.append(("revision_append_only", None, "revision added %d files" % len(o["rev_added"])))
    if o["rev"] == "wrote" and row["versions"] is not None:
        mx = max(row["versions"] or [0])
        v = o["wrote"]["version"]
        if v != mx + 1 and not (mx == 4294967295 and v == mx):
            fails.append(("revision_append_only", None, "new version %d, previous maximum %d" % (v, mx)))
        if mx == 4294967295:
            fails.append(("revision_append_only", None, "version counter saturated: new migration reuses version %d" % v))
    for t in o.get("new_fails", []):
        fails.append(("revision_output_loadable", None, t))
    if o["rev"] == "wrote-unparsable":
        fails.append(("revision_output_loadable", None, "revision wrote a file the loader's parser rejects"))
    if o["rev"] == "wrote" and not o["wrote"].get("schema_ok", True):
        fails.append(("revision_output_loadable", None, "the $schema member read back from %s is %r" % (o["wrote"]["file"], o["wrote"].get("schema"))))
    if o["rev"] == "wrote" and not o["wrote"].get("comment_ok", True):
        fails.append(("revision_output_loadable", None, "the comment read back from %s is %r, the message was %r" % (o["wrote"]["file"], o["wrote"].get("comment"), row["message"])))
    # the history the tool wrote must stay readable by the tool
    if o["rev"] == "wrote" and post is not None:
        po = post["obs"]
        if po["diff"][0] == "err" and d[0] != "err":
            # an overwritten migration (finding 3) breaks the history as well
            fails.append(("revision_output_loadable", None, "after `revision` wrote %s, `diff` exits 1" % o["wrote"]["file"]))
    fails += o.get("stmt_fails", [])
    # log shows every stored migration
    lg = o["log"]
    if lg[0] == "entries" and sorted(v for v, _ in lg[1]) != sorted(row["versions"]):
        fails.append(("log_equals_runtime", None, "log lists versions %s, files hold %s" % ([v for v, _ in lg[1]], row["versions"])))
    return fails


# ---------------------------------------------------------------------------------- case generation (C13)
PATTERNS = ["%04v_%m", "%04v_%m", "%04v_%m", "%04v_%m", "%v", "%06v-%m", "v%v_%m", "%m_%03v", "%m",
            "%%v_%m", "%05v%", "%0x_%v-%m.", "%012v.%m.", "__%m__%0v", "%00v_%m_%"]
MESSAGES = ["init", "Add Users!", "x  y", "second", "tweak é", "UPPER case-2", "a/b.c", "more", "again", "again"]
# messages that are awkward for a YAML / JSON writer, for the comment field and for the file name (%m): the message must be
# read back exactly from the written file's `comment`, whatever the migration format
AWKWARD_MESSAGES = [
    "create orders\n\nsplit out of the legacy table", "line one\r\nline two", "# looks like a comment", "---", "--- # doc start",
    "key: value", "- item", "- a\n- b", "say \"hi\" and 'bye'", "tab\there", "ends with backslash \\", "naïve café ñ 中文",
    "", "   ", "{not: json}", "[1, 2]", "null", "true", "0012", "%m %v %04v", "x" * 200, "é" * 90]
# non-alphanumeric non-ASCII (the model's sanitize_comment is exact for ASCII and for non-ASCII letters / digits only):
# used with a pattern that keeps the message out of the file name; the comment must still round-trip
EMOJI_MESSAGE = "party 🎉 — done ✓"
LONG_MESSAGE = "long message " + "y" * 300        # > NAME_MAX if it went into the file name: only used with a pattern without %m


def draw_config(rng, i):
    cfg = {"modelsDir": "models", "migrationsDir": "migrations", "tableNamingCase": "snake", "columnNamingCase": "snake"}
    if rng.random() < 0.35:
        cfg["prefix"] = "app_"
    # custom directories: the models directory is written by the driver (it must exist to be loaded); of the migrations
    # directory NOTHING exists beforehand: `revision` has to create the whole chain (nested 2-3 levels, "./" prefix, trailing "/")
    r = rng.random()
    if r < 0.45:
        cfg["modelsDir"] = rng.choice(["db/models", "src/schema/models", "./db/models", "models/"])
        cfg["migrationsDir"] = rng.choice(["db/migs", "store/history/migs", "./m/igrations/", "deep/a/b/migrations", "hist/ory/",
                                           "db/migrations"])
    # the two formats are independent settings, each one of json / yaml / yml
    cfg["migrationFormat"] = rng.choice(["json", "yaml", "yml"])
    cfg["modelFormat"] = rng.choice(["json", "yaml", "yml"])
    cfg["migrationFilenamePattern"] = rng.choice(PATTERNS)
    return cfg


def layout_models(rng, tables, fmt):
    """{rel path: text} for one model set: extension per format, some files in sub-directories / with the .vespertide infix"""
    files = {}
    for t in tables:
        # mostly the configured model format, sometimes another one (the loader reads all three side by side)
        ext = fmt if rng.random() < 0.8 else rng.choice(["json", "yaml", "yml"])
        stem = t["name"] + (".vespertide" if rng.random() < 0.2 else "")
        sub = rng.choice(["", "", "", "sub/", "a/b/"])
        text = json.dumps(t["json"], indent=1) if ext == "json" else t["yaml"]
        files["%s%s.%s" % (sub, stem, ext)] = text
    return files


def run_evolution(hcli, base, idx, evo, seed):
    rng = random.Random(seed * 1000003 + idx)
    cfg = draw_config(rng, idx)
    pdir = os.path.join(base, "p%03d" % idx)
    shutil.rmtree(pdir, ignore_errors=True)
    write_project(pdir, cfg)
    if rng.random() < 0.2:
        PROJECT_ENV[os.path.abspath(pdir)] = {"VESP_SCHEMA_BASE_URL": rng.choice(SCHEMA_BASES)}
    rows = []
    backend = rng.choice(["postgres", "mysql", "sqlite"])
    for si, tables in enumerate(evo["steps"]):
        write_models(pdir, cfg, layout_models(rng, tables, cfg["modelFormat"]))
        mode = rng.choice(["all", "all", "all", "all", "none", "pty", "all_pty"])
        msg = rng.choice(MESSAGES + AWKWARD_MESSAGES) if rng.random() < 0.5 else rng.choice(MESSAGES)
        a = observe(hcli, pdir, cfg, msg, mode, backend, "gen:%d:%d:a" % (idx, si))
        rows.append(a)
        if "skip" in a:
            break
        # second look at the same models: after a written revision every view must agree there is nothing left
        b = observe(hcli, pdir, cfg, rng.choice(MESSAGES), "all", backend, "gen:%d:%d:b" % (idx, si))
        rows.append(b)
        if "skip" in b:
            break
    return rows


def run_corpus_case(hcli, base, path):
    c = json.load(open(path))
    cfg = {"modelsDir": "models", "migrationsDir": "migrations", "tableNamingCase": "snake", "columnNamingCase": "snake"}
    cfg.update(c.get("config", {}))
    pdir = os.path.join(base, "c_" + os.path.splitext(os.path.basename(path))[0])
    shutil.rmtree(pdir, ignore_errors=True)
    write_project(pdir, cfg)
    gd = os.path.join(pdir, cfg["migrationsDir"])
    for name, plan in c.get("initial_migrations", {}).items():
        os.makedirs(gd, exist_ok=True)
        open(os.path.join(gd, name), "w").write(json.dumps(plan, indent=1))
    rows = []
    for si, st in enumerate(c["steps"]):
        write_models(pdir, cfg, {rel: (json.dumps(t, indent=1) if not isinstance(t, str) else t) for rel, t in st["models"].items()})
        tag = "corpus:%s:%d" % (os.path.basename(path), si)
        a = observe(hcli, pdir, cfg, st.get("message", "m"), st.get("fills", "all"), c.get("backend", "postgres"), tag + ":a")
        rows.append(a)
        if "skip" in a:
            break
        b = observe(hcli, pdir, cfg, st.get("message2", "next"), "all", c.get("backend", "postgres"), tag + ":b")
        rows.append(b)
    return rows


# ---------------------------------------------------------------------------------- targeted streams around the fill logic
FILL_TYPES = {"text": ("text", "'x'", "'y'"), "integer": ("integer", 0, 1),
              "enum": ({"kind": "enum", "name": "st", "values": ["a", "b"]}, "'a'", "'b'")}


def fill_streams():
    """(name, [models step 0, models step 1], revision input of step 1): one column `c` of table `acct` that becomes NOT NULL
    (default kept / removed / changed / added / never there) or is added NOT NULL (with / without default), enum and non-enum,
    each driven without terminal, with --fill-with and through a pty"""
    out = []
    ID = {"name": "id", "type": "integer", "nullable": False, "primary_key": True}

    def col(ty, nullable, default):
        c = {"name": "c", "type": ty, "nullable": nullable}
        if default is not None:
            c["default"] = default
        return c

    def tbl(*cols):
        return {"acct.json": {"name": "acct", "columns": [ID, {"name": "note", "type": "text", "nullable": True}] + list(cols)}}
    for tn, (ty, d1, d2) in FILL_TYPES.items():
        trans = {"kept": (d1, d1), "removed": (d1, None), "changed": (d1, d2), "nodefault": (None, None), "added": (None, d1)}
        for mode in ("none", "all", "pty"):
            for k, (a, b) in trans.items():
                out.append(("notnull-%s-%s-%s" % (tn, k, mode), [tbl(col(ty, True, a)), tbl(col(ty, False, b))], mode))
            for k, d in (("nodefault", None), ("default", d1)):
                out.append(("addcol-%s-%s-%s" % (tn, k, mode), [tbl(), tbl(col(ty, False, d))], mode))
    # a --fill-with value that is not a label of the enum (must be refused since fix 06565a6: exit 1, nothing written),
    # next to values the validation has no opinion about
    en = FILL_TYPES["enum"][0]
    for bad in ("zzz", "'zzz'", "A", "''"):
        out.append(("addcol-enum-badfill-%s" % bad.strip("'") or "empty", [tbl(), tbl(col(en, False, None))], ["acct.c=%s" % bad]))
        out.append(("notnull-enum-badfill-%s" % bad.strip("'") or "empty", [tbl(col(en, True, None)), tbl(col(en, False, None))], ["acct.c=%s" % bad]))
    out.append(("addcol-enum-goodfill", [tbl(), tbl(col(en, False, None))], ["acct.c='b'"]))
    out.append(("addcol-text-anyfill", [tbl(), tbl(col("text", False, None))], ["acct.c=zzz"]))
    return out


def fkname_streams():
    """one pending edit that adds same-named columns to two existing tables: one gets a foreign key (inline / object /
    table-level; nullable or NOT NULL with default), the other is NOT NULL without default and WITHOUT a foreign key (the
    refusal `non-nullable foreign key column` is keyed by (table, column): it must not fire); and the mirrored case where
    the NOT NULL default-less column IS the foreign-key column (the refusal is due).  (name, [step0, step1], revision input)"""
    ID = {"name": "id", "type": "integer", "nullable": False, "primary_key": True}

    def t(name, *cols, cons=None):
        d = {"name": name, "columns": [ID] + list(cols)}
        if cons:
            d["constraints"] = cons
        return d

    def fkcol(kind, nullable, default):
        c = {"name": "user_id", "type": "integer", "nullable": nullable}
        if default is not None:
            c["default"] = default
        cons = None
        if kind == "inline":
            c["foreign_key"] = "users.id"
        elif kind == "object":
            c["foreign_key"] = {"ref_table": "users", "ref_columns": ["id"]}
        else:
            cons = [{"type": "foreign_key", "columns": ["user_id"], "ref_table": "users", "ref_columns": ["id"]}]
        return c, cons
    plain = {"name": "user_id", "type": "integer", "nullable": False}
    base = {"users.json": t("users"), "orders.json": t("orders"), "audit_log.json": t("audit_log")}
    out = []
    for kind in ("inline", "object", "table"):
        for nullable, default in ((True, None), (False, 0)):
            for mode in ("all", "none", "pty"):
                c, cons = fkcol(kind, nullable, default)
                step1 = {"users.json": t("users"), "orders.json": t("orders", c, cons=cons), "audit_log.json": t("audit_log", plain)}
                out.append(("fkname-%s-%s-%s" % (kind, "null" if nullable else "dflt", mode), [base, step1], mode))
        # mirrored: the NOT NULL default-less column is the foreign-key column itself
        c, cons = fkcol(kind, False, None)
        step1 = {"users.json": t("users"), "orders.json": t("orders", c, cons=cons), "audit_log.json": t("audit_log", {"name": "user_id", "type": "integer", "nullable": True})}
        out.append(("fkname-%s-mirrored" % kind, [base, step1], "all"))
    return out


def run_fill_stream(hcli, base, idx, spec, seed):
    name, steps, mode = spec
    rng = random.Random(seed * 31 + idx)
    # every stream index gets a fixed (migration format, model format) pair so that json / yaml / yml are all covered
    fmts = ["json", "yaml", "yml"]
    cfg = {"modelsDir": "models", "migrationsDir": "migrations", "tableNamingCase": "snake", "columnNamingCase": "snake",
           "migrationFormat": fmts[idx % 3], "modelFormat": fmts[(idx // 3) % 3]}
    mext = cfg["modelFormat"]
    pdir = os.path.join(base, "f%03d" % idx)
    shutil.rmtree(pdir, ignore_errors=True)
    write_project(pdir, cfg)
    backend = rng.choice(BACKENDS)
    rows = []
    for si, models in enumerate(steps):
        # JSON text is YAML text as well, so the same text serves the .yaml / .yml model files
        write_models(pdir, cfg, {os.path.splitext(rel)[0] + "." + mext: json.dumps(t, indent=1) for rel, t in models.items()})
        a = observe(hcli, pdir, cfg, "step %d" % si, "all" if si == 0 else mode, backend, "fill:%s:%d:a" % (name, si))
        rows.append(a)
        if "skip" in a:
            break
        b = observe(hcli, pdir, cfg, "again", "all", backend, "fill:%s:%d:b" % (name, si))
        rows.append(b)
        if "skip" in b:
            break
    return rows


def run_fill_streams(hcli, base, seed):
    specs = fill_streams() + fkname_streams()
    rows = []
    with ThreadPoolExecutor(max_workers=12) as ex:
        for r in ex.map(lambda ie: run_fill_stream(hcli, base, ie[0], ie[1], seed), list(enumerate(specs))):
            rows += r
    return rows


def overwrite_streams():
    """history is append-only, for every migration format: patterns without a version placeholder x message pairs that
    sanitise to the same file name (same text, case / punctuation / spacing variants) x the nine (migration format, model
    format) pairs; plus the same with the default pattern (nothing collides there) and a stored version at u32::MAX.
    (name, config overrides, [(models, message of the revision, message of the second look)], initial migrations)"""
    ID = {"name": "id", "type": "integer", "nullable": False, "primary_key": True}

    def tbl(*cols):
        return {"acct.json": {"name": "acct", "columns": [ID] + [{"name": c, "type": "text", "nullable": True} for c in cols]}}
    fmts = ["json", "yaml", "yml"]
    pairs = [("add users", "add users"), ("add users", "Add-Users"), ("add users", "ADD  users!"), ("init", " init ")]
    out = []
    k = 0
    for pat in ("%m", "fixed", "%m-x%", "%04v_%m"):
        for m1, m2 in pairs:
            for gf in fmts:
                mf = fmts[k % 3]
                k += 1
                out.append(("overwrite-%s-%s-%s-%d" % (gf, mf, pat.replace("%", "p"), k),
                            {"migrationFilenamePattern": pat, "migrationFormat": gf, "modelFormat": mf},
                            [(tbl(), m1, "other one"), (tbl("a"), m2, "third"), (tbl("a", "b"), m1, m2)], None))
    big = {"version": 4294967295, "comment": "big", "actions": [{"type": "create_table", "table": "acct", "columns": [ID], "constraints": []}]}
    for gf in fmts:
        out.append(("saturated-%s" % gf, {"migrationFormat": gf}, [(tbl("a"), "big", "other")], {"4294967295_big.vespertide.json": big}))
    return out


def message_streams():
    """every awkward message under each of the three migration formats (model format rotating), two revisions per project;
    the 300-character message with a pattern that keeps it out of the file name"""
    ID = {"name": "id", "type": "integer", "nullable": False, "primary_key": True}

    def tbl(*cols):
        return {"acct.json": {"name": "acct", "columns": [ID] + [{"name": c, "type": "text", "nullable": True} for c in cols]}}
    fmts = ["json", "yaml", "yml"]
    out = []
    k = 0
    msgs = AWKWARD_MESSAGES
    for gi, gf in enumerate(fmts):
        for i, m in enumerate(msgs):
            k += 1
            m2 = msgs[(i + 7) % len(msgs)]
            out.append(("msg-%s-%02d" % (gf, i), {"migrationFormat": gf, "modelFormat": fmts[(k + gi) % 3]},
                        [(tbl(), m, "plain"), (tbl("a"), m2, "plain two")], None))
        out.append(("msg-%s-emoji" % gf, {"migrationFormat": gf, "modelFormat": fmts[gi], "migrationFilenamePattern": "%v"},
                    [(tbl(), EMOJI_MESSAGE, "plain"), (tbl("a"), EMOJI_MESSAGE + "\n🎉", "plain two")], None))
        out.append(("msg-%s-long" % gf, {"migrationFormat": gf, "modelFormat": fmts[gi], "migrationFilenamePattern": "%05v"},
                    [(tbl(), LONG_MESSAGE, "plain"), (tbl("a"), LONG_MESSAGE + "\nsecond line", "plain two")], None))
    return out


def comment_streams():
    """edits of the comment of already-migrated columns: new comments of 28-60 characters in Latin with accents, Cyrillic,
    CJK, emoji and mixtures, shifted by 20..30 ASCII characters so that every byte offset 24..30 falls inside a multi-byte
    character somewhere in the pool (the places that shorten a comment for display must cut at a char boundary); then the
    comment is removed again"""
    ID = {"name": "id", "type": "integer", "nullable": False, "primary_key": True}
    scripts = {"lat": "é", "cyr": "я", "cjk": "中", "emo": "🎉"}

    def tbl(comments):
        cols = [ID]
        for name, c in comments.items():
            d = {"name": name, "type": "text", "nullable": True}
            if c is not None:
                d["comment"] = c
            cols.append(d)
        return {"acct.json": {"name": "acct", "columns": cols}}
    out = []
    for k in range(20, 31):
        new = {n: "a" * k + ch * (40 - k if n != "emo" else 12) for n, ch in scripts.items()}
        new["mix"] = ("a" * (k - 3) + "é中🎉я") * 2
        old = {n: "old" for n in new}
        gone = {n: None for n in new}
        out.append(("comment-%d" % k, {"migrationFormat": ["json", "yaml", "yml"][k % 3]},
                    [(tbl(old), "init", "plain"), (tbl(new), "comments", "plain two"), (tbl(gone), "no comments", "plain three")], None))
    return out


def schema_env_streams():
    """VESP_SCHEMA_BASE_URL set to awkward values (backslashes, a double quote, a tab, non-ASCII, a trailing slash, the empty
    string, 300 characters, YAML-significant characters), for the three migration formats; `new` is run as well"""
    ID = {"name": "id", "type": "integer", "nullable": False, "primary_key": True}

    def tbl(*cols):
        return {"acct.json": {"name": "acct", "columns": [ID] + [{"name": c, "type": "text", "nullable": True} for c in cols]}}
    fmts = ["json", "yaml", "yml"]
    out = []
    for bi, b in enumerate(SCHEMA_BASES):
        for gi, gf in enumerate(fmts):
            out.append(("env-%02d-%s" % (bi, gf), {"migrationFormat": gf, "modelFormat": fmts[(bi + gi) % 3], "_env": {"VESP_SCHEMA_BASE_URL": b}},
                        [(tbl(), "first", "plain"), (tbl("a"), "second one", "plain two")], None))
    return out


def run_overwrite_stream(hcli, base, idx, spec, seed):
    name, over, steps, initial = spec
    cfg = {"modelsDir": "models", "migrationsDir": "migrations", "tableNamingCase": "snake", "columnNamingCase": "snake"}
    cfg.update(over)
    env_extra = cfg.pop("_env", None)
    mext = cfg.get("modelFormat", "json")
    pdir = os.path.join(base, "w%03d" % idx)
    shutil.rmtree(pdir, ignore_errors=True)
    write_project(pdir, cfg)
    if env_extra:
        PROJECT_ENV[os.path.abspath(pdir)] = env_extra
    gd = os.path.join(pdir, cfg["migrationsDir"])
    for fname, plan in (initial or {}).items():
        os.makedirs(gd, exist_ok=True)
        open(os.path.join(gd, fname), "w").write(json.dumps(plan, indent=1))
    backend = BACKENDS[idx % 3]
    rows = []
    for si, (models, msg, msg2) in enumerate(steps):
        write_models(pdir, cfg, {os.path.splitext(rel)[0] + "." + mext: json.dumps(t, indent=1) for rel, t in models.items()})
        a = observe(hcli, pdir, cfg, msg, "all", backend, "over:%s:%d:a" % (name, si))
        rows.append(a)
        if "skip" in a:
            break
        b = observe(hcli, pdir, cfg, msg2, "all", backend, "over:%s:%d:b" % (name, si))
        rows.append(b)
        if "skip" in b:
            break
    if env_extra and rows and "skip" not in rows[-1]:
        # `vespertide new` (new.rs:54-66): the model template must parse and carry base + "/model.schema.json"
        for fmt in ("json", "yaml"):
            rc, out, err = run_cmd(["new", "probe_%s" % fmt, "--format", fmt], pdir)
            md = os.path.join(pdir, cfg["modelsDir"])
            f = os.path.join(md, "probe_%s.vespertide.%s" % (fmt, fmt))
            txt = open(f).read() if os.path.exists(f) else None
            ok = rc == 0 and txt is not None and schema_member(txt, os.path.basename(f)) == expected_schema_url(pdir, "model.schema.json")
            parsed = txt is not None and all(r.get("ok", True) for r in hcli_parse(hcli, [f], []) if r["kind"] == "model")
            rows[-1]["obs"].setdefault("new_fails", [])
            if not (ok and parsed):
                rows[-1]["obs"]["new_fails"].append("`new --format %s` (rc=%d): %s" % (fmt, rc, "file does not parse" if not parsed else
                                                    "$schema is %r" % schema_member(txt or "", os.path.basename(f))))
            if os.path.exists(f):
                os.remove(f)
    return rows


def run_overwrite_streams(hcli, base, seed):
    specs = overwrite_streams() + message_streams() + comment_streams() + schema_env_streams()
    rows = []
    with ThreadPoolExecutor(max_workers=12) as ex:
        for r in ex.map(lambda ie: run_overwrite_stream(hcli, base, ie[0], ie[1], seed), list(enumerate(specs))):
            rows += r
    return rows


def c12_part(tier, seed):
    """for C12 (whatever the tool writes, every command reads back unchanged): the revision -> reload clause on the targeted
    fill streams, on the real binary only (no Coq).  returns dict(ok, details, failing_input)"""
    hcli, err = build_all()
    if err:
        return {"ok": False, "details": {"build_error": err}, "failing_input": None}
    cmd_start = len(CMDLOG)
    base = os.path.join(WORK, "c12part_%s_%s" % (tier, seed))
    shutil.rmtree(base, ignore_errors=True)
    os.makedirs(base)
    rows = [r for r in run_fill_streams(hcli, base, seed) + run_overwrite_streams(hcli, base, seed) if "skip" not in r]
    bad = []
    wrote = 0
    for i, r in enumerate(rows):
        o = r["obs"]
        if o["rev"] == "wrote-unparsable":
            bad.append((r, "revision wrote a file the parser rejects"))
        for t in o.get("new_fails", []):
            bad.append((r, t))
        if o["rev"] != "wrote":
            continue
        wrote += 1
        if not o["wrote"].get("schema_ok", True):
            bad.append((r, "the $schema member read back from %s is %r" % (o["wrote"]["file"], o["wrote"].get("schema"))))
        if not o["wrote"].get("comment_ok", True):
            bad.append((r, "the comment read back from %s is %r, the message was %r" % (o["wrote"]["file"], o["wrote"].get("comment"), r["message"])))
        post = rows[i + 1] if i + 1 < len(rows) and rows[i + 1]["tag"].rsplit(":", 1)[0] == r["tag"].rsplit(":", 1)[0] else None
        if post is None:
            continue
        po = post["obs"]
        for cmd, v in (("diff", po["diff"][0]), ("status", po["status"]), ("log", po["log"][0]), ("sql", po["sql"][0])):
            if v == "err" and o["diff"][0] != "err":
                bad.append((r, "after `revision` wrote %s, `%s` exits 1" % (o["wrote"]["file"], cmd)))
                break
        if po["rev"] == "err" and not po["rev_refused"] and not po["rev_noterm"] and o["diff"][0] != "err":
            bad.append((r, "after `revision` wrote %s, the next `revision` exits 1" % o["wrote"]["file"]))
        if po["diff"][0] == "changes":
            bad.append((r, "after `revision` wrote %s, `diff` still lists %d change(s)" % (o["wrote"]["file"], len(po["diff"][1]))))
    import collections
    fm = collections.Counter("%s/%s" % (r["config"].get("migrationFormat"), r["config"].get("modelFormat")) for r in rows if r["obs"]["rev"] == "wrote")
    details = {"streams": len(fill_streams()) + len(fkname_streams()) + len(overwrite_streams()) + len(message_streams()) + len(comment_streams()) + len(schema_env_streams()), "observations": len(rows), "revisions_written": wrote,
               "written_by_migration_format/model_format": dict(fm), "failures": [(r["tag"], t) for r, t in bad][:10]}
    fi = None
    if bad:
        r = bad[0][0]
        fi = {"config": r["config"], "models": r["models"], "migrations": r["migrations"], "message": r["message"], "fills": r["fills"],
              "tty": r["tty"], "what": bad[0][1], "written": r["obs"].get("wrote")}
    save_cmdlog("c12part", tier, seed, cmd_start)
    shutil.rmtree(base, ignore_errors=True)
    return {"ok": not bad, "details": details, "failing_input": fi}



# =================================================================================== C14 at the CLI level
def c14_fk_streams():
    """projects with prefix and a foreign key, and a pending change on the FK-carrying table that makes SQLite rebuild it"""
    ID = {"name": "id", "type": "integer", "nullable": False, "primary_key": True}
    users = {"name": "users", "columns": [ID, {"name": "email", "type": "text", "nullable": True}]}

    def posts(fk="inline", slug_unique=True, n_type="integer", n_nullable=True, n_default=None, extra_index=False, keep_fk=True):
        uid = {"name": "user_id", "type": "integer", "nullable": False}
        cons = []
        if keep_fk:
            if fk == "inline":
                uid["foreign_key"] = "users.id"
            elif fk == "object":
                uid["foreign_key"] = {"ref_table": "users", "ref_columns": ["id"], "on_delete": "cascade"}
            else:
                cons.append({"type": "foreign_key", "columns": ["user_id"], "ref_table": "users", "ref_columns": ["id"]})
        slug = {"name": "slug", "type": "text", "nullable": False}
        if slug_unique:
            slug["unique"] = True
        n = {"name": "n", "type": n_type, "nullable": n_nullable}
        if n_default is not None:
            n["default"] = n_default
        if extra_index:
            n["index"] = True
        return {"name": "posts", "columns": [ID, uid, slug, n], "constraints": cons}
    out = []
    for fk in ("inline", "object", "table"):
        edits = {"drop-unique": dict(slug_unique=False), "type": dict(n_type="big_int"), "notnull": dict(n_nullable=False),
                 "default": dict(n_default=7), "index": dict(extra_index=True), "drop-fk": dict(keep_fk=False)}
        for name, kw in edits.items():
            out.append(("%s-%s" % (fk, name), [[users, posts(fk=fk)], [users, posts(fk=fk, **kw)]]))
    return out


def compare_with_literal(hcli, pdir, tag):
    """run `sql` and `log` for the three backends on the project and on its literal renaming (hcli literal); returns diffs"""
    lit = pdir.rstrip("/") + "__literal"
    p = subprocess.run([hcli, "literal", pdir, lit], capture_output=True, timeout=120)
    try:
        info = json.loads(p.stdout.decode(errors="replace").strip().splitlines()[-1])
    except Exception:
        info = {"ok": False, "error": p.stderr.decode(errors="replace")[-300:]}
    if not info.get("ok"):
        return None, info
    diffs = []
    n = 0
    for b in BACKENDS:
        for cmd in ("sql", "log"):
            rc1, out1, err1 = run_cmd([cmd, "--backend", b], pdir)
            rc2, out2, err2 = run_cmd([cmd, "--backend", b], lit)
            n += 1
            if rc1 != rc2:
                diffs.append({"cmd": cmd, "backend": b, "what": "exit status %d with the prefix, %d on the renamed project" % (rc1, rc2),
                              "stderr": (err1 or err2)[-300:]})
            elif rc1 == 0 and out1 != out2:
                l1, l2 = out1.splitlines(), out2.splitlines()
                k = next((i for i in range(min(len(l1), len(l2))) if l1[i] != l2[i]), min(len(l1), len(l2)))
                diffs.append({"cmd": cmd, "backend": b, "what": "stdout differs at line %d" % (k + 1),
                              "with_prefix": l1[k][:400] if k < len(l1) else None, "renamed_project": l2[k][:400] if k < len(l2) else None})
    shutil.rmtree(lit, ignore_errors=True)
    return diffs, {"comparisons": n, "prefix": info.get("prefix")}


def revise_with_fills(hcli, pdir, cfg, message):
    md, gd = os.path.join(pdir, cfg["modelsDir"]), os.path.join(pdir, cfg["migrationsDir"])
    rows = hcli_parse(hcli, walk_models(md), list_migrations(gd))
    args = ["revision", "--message=" + message]
    for r in rows:
        if r["kind"] == "missing":
            for it in r["items"]:
                v = ("'%s'" % it["enum"][0]) if it.get("enum") else it["default"]
                args += ["--fill-with", "%s.%s=%s" % (it["table"], it["column"], v)]
    return run_cmd(args, pdir)


def c14_part(tier, seed):
    """C14 at the CLI level (a prefix renames tables and nothing else): for projects with a non-empty prefix, `vespertide sql`
    and `vespertide log` (sqlite / postgres / mysql) print byte for byte what they print on the literally renamed project with
    an empty prefix.  Projects: the cached K-cli projects that have a prefix (final state), generated evolutions under a
    prefix (pending plan before each revision, history after it), and FK streams with rebuild-forcing edits.
    returns dict(ok, details, failing_input)"""
    hcli, err = build_all()
    if err:
        return {"ok": False, "details": {"build_error": err}, "failing_input": None}
    cmd_start = len(CMDLOG)
    base = os.path.join(WORK, "c14part_%s_%s" % (tier, seed))
    shutil.rmtree(base, ignore_errors=True)
    os.makedirs(base)
    rng = random.Random(seed * 1409 + 14)
    bad, states, comparisons, skipped = [], 0, 0, 0

    def check(pdir, tag, cfg):
        nonlocal states, comparisons, skipped
        diffs, info = compare_with_literal(hcli, pdir, tag)
        if diffs is None:
            skipped += 1
            return
        states += 1
        comparisons += info["comparisons"]
        for d in diffs:
            bad.append((tag, cfg, pdir, d))

    def snapshot_project(pdir, cfg):
        md, gd = os.path.join(pdir, cfg["modelsDir"]), os.path.join(pdir, cfg["migrationsDir"])
        return {"config": cfg, "models": {os.path.relpath(f, md): open(f).read() for f in walk_models(md)},
                "migrations": {os.path.basename(f): open(f).read() for f in list_migrations(gd)}}
    failing = None
    # (a) cached K-cli projects with a prefix, as the last C13 run left them
    cached = 0
    for d in sorted(glob.glob(os.path.join(WORK, "c13_%s_*" % tier, "p*"))):
        try:
            cfg = json.load(open(os.path.join(d, "vespertide.json")))
        except Exception:
            continue
        if cfg.get("prefix"):
            cached += 1
            n0 = len(bad)
            check(d, "cached:" + os.path.basename(d), cfg)
            if len(bad) > n0 and failing is None:
                failing = snapshot_project(d, cfg)
    # (b) FK streams with rebuild-forcing edits, (c) generated evolutions, all under a prefix
    streams = [("fk:" + n, [[{"name": t["name"], "json": t} for t in st] for st in steps]) for n, steps in c14_fk_streams()]
    nevo = 40 if tier == "thorough" else 12
    for e in gen_evolutions(hcli, seed + 14, nevo, 3):
        streams.append(("gen:%d" % e["id"], e["steps"]))
    for idx, (name, steps) in enumerate(streams):
        cfg = {"modelsDir": "models", "migrationsDir": "migrations", "tableNamingCase": "snake", "columnNamingCase": "snake",
               "prefix": rng.choice(["app_", "app_", "p", "X-"]), "migrationFormat": rng.choice(["json", "yaml", "yml"])}
        pdir = os.path.join(base, "q%03d" % idx)
        write_project(pdir, cfg)
        for si, tables in enumerate(steps):
            write_models(pdir, cfg, {"%s.json" % t["name"]: json.dumps(t["json"], indent=1) for t in tables})
            n0 = len(bad)
            check(pdir, "%s:%d:pending" % (name, si), cfg)
            if len(bad) > n0 and failing is None:
                failing = snapshot_project(pdir, cfg)
            revise_with_fills(hcli, pdir, cfg, "step %d" % si)
            n0 = len(bad)
            check(pdir, "%s:%d:revised" % (name, si), cfg)
            if len(bad) > n0 and failing is None:
                failing = snapshot_project(pdir, cfg)
    details = {"project_states": states, "cached_kcli_projects_with_prefix": cached, "streams": len(streams), "skipped_unparsable": skipped,
               "sql_log_comparisons (3 backends)": comparisons,
               "failures": [{"tag": t, "prefix": c.get("prefix"), **d} for t, c, _, d in bad][:8]}
    save_cmdlog("c14part", tier, seed, cmd_start)
    shutil.rmtree(base, ignore_errors=True)
    return {"ok": not bad, "details": details, "failing_input": failing}



# =================================================================================== C16 on the real binary
def c16_part(tier, seed):
    """C16 (no loadable project makes any stage panic, overflow the stack or hang) with the REAL BINARY as the stage: every
    invocation of `vespertide diff|sql|status|log|revision|export` made by run_cli, run_tree, c12_part and c14_part (K-cli
    evolutions, corpus, fill / overwrite / fkname streams, K-tree sequences, prefix streams) is recorded with its exit status;
    exit 101 / "panicked at" / death by a signal / a timeout is a failure unless its message is that of an open C16 finding.
    The recorded runs are reused when they were made with the binary that is current now; otherwise they are made again.
    returns dict(ok, details, failing_input)"""
    hcli, err = build_all()
    if err:
        return {"ok": False, "details": {"build_error": err}, "failing_input": None}
    ident = bin_identity()

    def load(name):
        p = os.path.join(WORK, "cmdlog_%s_%s_%s.json" % (name, tier, seed))
        if os.path.exists(p):
            try:
                d = json.load(open(p))
                if d.get("binary") == ident:
                    return d
            except Exception:
                pass
        return None
    logs, reran = {}, []
    for name, runner in (("c13", run_cli), ("c20", run_tree)):
        d = load(name)
        if d is None:
            runner(tier, seed)
            reran.append(name)
            d = load(name)
        if d is not None:
            logs[name] = d
    for name in ("c12part", "c14part"):
        d = load(name)
        if d is not None:
            logs[name] = d
    by, bad = {}, []
    for name, d in logs.items():
        for cmd, c in d["by_command"].items():
            t = by.setdefault(cmd, {k: 0 for k in c})
            for k, v in c.items():
                t[k] = t.get(k, 0) + v
        bad += [dict(e, run=name) for e in d["bad"]]
    known, unknown, n_unknown = {}, bad, 0
    for name, d in logs.items():
        n_unknown += d.get("n_bad", 0)
        for k, v in d.get("known", {}).items():
            known[k] = known.get(k, 0) + v
    details = {"commands_observed": sum(c["n"] for c in by.values()), "by_command": by,
               "panics": sum(1 for e in unknown if e["panic"]), "signals": sum(1 for e in unknown if e["signal"]),
               "timeouts": sum(1 for e in unknown if e["timeout"]), "known": known,
               "runs_reused": sorted(set(logs) - set(reran)), "runs_made_now": reran,
               "first_failures": [{"run": e["run"], "command": e["args"], "rc": e["rc"], "stderr": e["stderr"][-300:]} for e in unknown[:5]]}
    fi = None
    if unknown:
        e = unknown[0]
        fi = {"command": ["vespertide"] + e["args"], "exit": e["rc"], "stderr": e["stderr"], "project": e["project"]}
    details["unexplained_total"] = n_unknown
    return {"ok": not unknown and n_unknown == 0, "details": details, "failing_input": fi}


def sizes(tier):
    if tier == "thorough":
        return {"evolutions": 700, "steps": 4, "tree_evolutions": 500, "per_shard": 25}
    return {"evolutions": 120, "steps": 3, "tree_evolutions": 90, "per_shard": 25}


def gen_evolutions(hcli, seed, count, steps):
    p = subprocess.run([hcli, "gen", "--seed", str(seed), "--count", str(count), "--steps", str(steps)], capture_output=True, timeout=600)
    return [json.loads(l) for l in p.stdout.decode(errors="replace").split("\n") if l.strip()]


def run_coq(layer_import, ty, fn_bad, fn_cls, terms, d, stem, per_shard):
    """write shards, run them in Coq; returns (mismatches {idx: [subchecks]}, classes {idx: [bools]}, errors)"""
    os.makedirs(d, exist_ok=True)
    for old in glob.glob(os.path.join(d, stem + "_*.v*")) + glob.glob(os.path.join(d, "." + stem + "_*.aux")):
        os.remove(old)
    n = 0
    for si in range(0, len(terms), per_shard):
        chunk = terms[si:si + per_shard]
        body = "From VV.CLI Require Import %s.\nDefinition cases : list %s := [\n%s\n].\nEval vm_compute in %s 0 cases.\nEval vm_compute in map %s cases.\n" % (
            layer_import, ty, ";\n".join(chunk), fn_bad, fn_cls)
        open(os.path.join(d, "%s_%03d.v" % (stem, n)), "w").write(body)
        n += 1
    res = vflib.run_shards("cli", d, stem + "_*.v")
    mism, classes, errors = {}, {}, []
    for f, rc, out, dt in res:
        k = int(re.search(r"_(\d+)\.v$", f).group(1))
        if rc != 0:
            errors.append({"shard": os.path.basename(f), "log": out[-1500:]})
            continue
        blocks = vflib.parse_eval_outputs(out)
        for (i, subs) in vflib.parse_nat_pairs(blocks[0] if blocks else ""):
            mism[k * per_shard + i] = subs
        rowsb = re.findall(r"\[\s*((?:true|false)(?:;\s*(?:true|false))*)\s*\]", blocks[1] if len(blocks) > 1 else "")
        for i, rb in enumerate(rowsb):
            classes[k * per_shard + i] = [x == "true" for x in re.findall(r"true|false", rb)]
    return mism, classes, errors


@vflib.serialized("run_cli")
def run_cli(tier, seed):
    """K-cli + O-C13.  returns dict(rows, mismatches, classes, errors, fails {idx: [(clause, cls, text)]})"""
    sz = sizes(tier)
    hcli, err = build_all()
    if err:
        return {"build_error": err}
    base = os.path.join(WORK, "c13_%s_%s" % (tier, seed))
    shutil.rmtree(base, ignore_errors=True)
    os.makedirs(base)
    cmd_start = len(CMDLOG)
    t0 = time.time()
    rows = []
    for f in sorted(glob.glob(os.path.join(ROOT, "corpus", "cli", "c13_*.json"))):
        rows += run_corpus_case(hcli, base, f)
    rows += run_fill_streams(hcli, base, seed)
    rows += run_overwrite_streams(hcli, base, seed)
    evos = gen_evolutions(hcli, seed, sz["evolutions"], sz["steps"])
    with ThreadPoolExecutor(max_workers=12) as ex:
        for r in ex.map(lambda ie: run_evolution(hcli, base, ie[0], ie[1], seed), list(enumerate(evos))):
            rows += r
    skipped = [r for r in rows if "skip" in r]
    rows = [r for r in rows if "skip" not in r]
    drive_s = time.time() - t0
    mism, classes, errors = run_coq("CliCorr", "cli_case", "cli_mismatches_from", "classify_cli", [r["term"] for r in rows],
                                    os.path.join(base, "coq"), "cases_cli", sz["per_shard"])
    # oracle: row i and the row that follows it in the same project (its post state)
    fails = {}
    for i, r in enumerate(rows):
        post = rows[i + 1] if i + 1 < len(rows) and rows[i + 1]["tag"].rsplit(":", 1)[0] == r["tag"].rsplit(":", 1)[0] else None
        f = oracle_c13(r, post)
        if f:
            fails[i] = f
    save_cmdlog("c13", tier, seed, cmd_start)
    return {"rows": rows, "mismatches": mism, "classes": classes, "errors": errors, "fails": fails, "skipped": len(skipped),
            "drive_s": round(drive_s, 1), "dir": base}


# =================================================================================== C20: export trees
ORMS = {"seaorm": "SeaOrm", "sqlalchemy": "SqlAlchemy", "sqlmodel": "SqlModel"}
ORM_EXT = {"seaorm": "rs", "sqlalchemy": "py", "sqlmodel": "py"}
DECL = re.compile(r"^pub mod ([A-Za-z0-9_\-]+);$")


def read_tree(root):
    """{relative path tuple: bytes | None (directory)}"""
    out = {}
    if not os.path.isdir(root):
        return out

    def go(d, prefix):
        for e in os.scandir(d):
            p = prefix + (e.name,)
            if e.is_dir():
                out[p] = None
                go(e.path, p)
            else:
                out[p] = open(e.path, "rb").read()
    go(root, ())
    return out


def split_decls(data):
    """(text without its trailing `pub mod x;` lines, [x..])"""
    try:
        lines = data.decode().splitlines(keepends=True)
    except UnicodeDecodeError:
        return data, []
    decls = []
    while lines and (DECL.match(lines[-1].strip()) or (decls and not lines[-1].strip())):
        l = lines.pop().strip()
        if l:
            decls.insert(0, DECL.match(l).group(1))
    return "".join(lines).encode(), decls


def entity_key(data):
    return split_decls(data)[0].rstrip(b"\n")


def content_term(data, entities):
    """abstract content of a file: entity rendering / `pub mod x;` lines / opaque"""
    core, decls = split_decls(data)
    gd = ["(LDecl %s)" % gs(x) for x in decls]
    if not core.strip():
        return glist(gd)
    k = core.rstrip(b"\n")
    if k in entities:
        return glist(["(LEntity %s)" % gs(entities[k])] + gd)
    return glist(["(LOther %s)" % gs(hashlib.sha1(data).hexdigest()[:12])])


def tree_term(tree, entities):
    """nested Gallina `dir` from the flat {path: bytes|None}"""
    def build(prefix):
        items = []
        for p, data in tree.items():
            if len(p) == len(prefix) + 1 and p[:len(prefix)] == prefix:
                if data is None:
                    items.append("(%s, NDir %s)" % (gs(p[-1]), build(p)))
                else:
                    items.append("(%s, NFile %s)" % (gs(p[-1]), content_term(data, entities)))
        return glist(items)
    return build(())


def export_step(hcli, pdir, cfg, orm, export_arg, plant, tag):
    """one `vespertide export` into a directory with history + the same export into an empty directory + a repeat"""
    md = os.path.join(pdir, cfg["modelsDir"])
    root = os.path.join(pdir, export_arg if export_arg else cfg.get("modelExportDir", "src/models"))
    for rel, text in (plant or {}).items():
        f = os.path.join(root, rel)
        os.makedirs(os.path.dirname(f), exist_ok=True)
        if text is None:
            os.makedirs(f, exist_ok=True)
        else:
            open(f, "w").write(text)
    mfiles = walk_models(md)
    rows = hcli_parse(hcli, mfiles, [])
    if any(not r.get("ok", True) for r in rows if r["kind"] == "model"):
        return {"tag": tag, "skip": "unparsable model"}
    before = read_tree(root)
    args = ["export", "--orm", orm] + (["--export-dir", export_arg] if export_arg else [])
    rc, out, err = run_cmd(args, pdir)
    after = read_tree(root)
    exported = re.findall(r"^Exported (.*) -> (.*)$", out, flags=re.M)
    # the same models into an empty directory (reference contents + oracle)
    fresh_rel = "fresh_%s" % orm
    fresh_root = os.path.join(pdir, fresh_rel)
    shutil.rmtree(fresh_root, ignore_errors=True)
    rcf, outf, errf = run_cmd(["export", "--orm", orm, "--export-dir", fresh_rel], pdir)
    fresh = read_tree(fresh_root)
    entities = {}
    by_path = {}
    for name, p in re.findall(r"^Exported (.*) -> (.*)$", outf, flags=re.M):
        by_path.setdefault(p, []).append(name)
    for p, names in by_path.items():
        fp = os.path.join(pdir, p)
        if os.path.isfile(fp):
            data = open(fp, "rb").read()
            # two models on one output path: the file holds one of them, say which by the table name it carries
            hit = [n for n in names if ('"%s"' % n).encode() in data]
            entities.setdefault(entity_key(data), (hit or names)[-1])
    # repeat (idempotence)
    rc2, out2, err2 = run_cmd(args, pdir)
    after2 = read_tree(root)
    # same-stem model files in different directories: a race between writers would show as bytes that change from run to run
    stems = [os.path.splitext(os.path.basename(f))[0] for f in mfiles]
    unstable = []
    if rc == 0 and len(set(stems)) < len(stems):
        for _ in range(4):
            rcn, _o, _e = run_cmd(args, pdir)
            tn = read_tree(root)
            unstable += [p for p in set(tn) | set(after2) if tn.get(p, b"?") != after2.get(p, b"?")]
    models = []
    # the exporter is outside this layer: a failure that is not the normalisation step counts as "render failed"
    refused = rc != 0 and ("would both be exported to" in err or "which is the module index" in err)
    render_failed = rc != 0 and "Failed to normalize" not in err and not refused
    for k, r in enumerate(x for x in rows if x["kind"] == "model"):
        rel = os.path.relpath(r["file"], md)
        parts = rel.split(os.sep)
        render_ok = not (render_failed and k == 0)
        models.append("(mkEModel %s %s %s %s)" % (glist(gs(x) for x in parts[:-1]), gs(parts[-1]), r["g"], gbool(render_ok)))
    term = "(mkTree %s %s %s %s %s)" % (ORMS[orm], glist(models), tree_term(before, entities), gbool(rc == 0), tree_term(after, entities))
    return {"tag": tag, "term": term, "orm": orm, "rc": rc, "refused": refused, "rc_fresh": rcf, "rc2": rc2, "stderr": err[-400:], "before": before, "after": after, "fresh": fresh,
            "after2": after2, "unstable": sorted(set(unstable)), "exported": exported, "n_models": len(models), "export_arg": export_arg, "root": root, "pdir": pdir,
            "model_files": [os.path.relpath(f, md) for f in mfiles],
            "models": {os.path.relpath(f, md): open(f).read() for f in mfiles}, "plant": plant}


def oracle_c20(r):
    """clauses of C20 on the real trees (no known class is left: every failure is a violation)."""
    fails = []
    ext = "." + ORM_EXT[r["orm"]]
    if r["rc"] != 0:
        # a refusal (collision / mod.rs) must leave the directory as it was
        if r.get("refused") and r["after"] != r["before"]:
            fails.append(("export_collision_refused", None, "export refused but changed the directory"))
        return fails
    is_gen = lambda p: rust_ext(p[-1]) == ext[1:]
    gen_after = {p: d for p, d in r["after"].items() if d is not None and is_gen(p)}
    gen_fresh = {p: d for p, d in r["fresh"].items() if d is not None and is_gen(p)}
    if r["rc_fresh"] == 0 and gen_after != gen_fresh:
        extra = sorted(set(gen_after) - set(gen_fresh))
        miss = sorted(set(gen_fresh) - set(gen_after))
        diff = sorted(p for p in gen_after if p in gen_fresh and gen_after[p] != gen_fresh[p])
        fails.append(("export_canonical", None, "after export: stale %s missing %s different %s vs. an export into an empty directory" % (
            ["/".join(p) for p in extra][:3], ["/".join(p) for p in miss][:3], ["/".join(p) for p in diff][:3])))
    if r["rc2"] == 0:
        ch = sorted(p for p in set(r["after"]) | set(r["after2"]) if r["after"].get(p, b"?") != r["after2"].get(p, b"?"))
        if ch:
            fails.append(("export_idempotent", None, "second export changed %s" % ["/".join(p) for p in ch][:3]))
    if r.get("unstable"):
        fails.append(("export_idempotent", None, "bytes change between repeated exports of the unchanged project: %s" % ["/".join(p) for p in r["unstable"]][:3]))
    outs = [os.path.relpath(os.path.join(r["pdir"], p), r["root"]) for _, p in r["exported"]]
    if len(set(outs)) != r["n_models"] or any(os.path.basename(p) == "mod" + ext for p in outs):
        fails.append(("one_entity_per_model", None, "%d models, %d distinct entity files %s" % (r["n_models"], len(set(outs)), sorted(set(outs))[:4])))
    if r["orm"] == "seaorm":
        for rel in outs:
            parts = rel.split(os.sep)
            comps = parts[:-1] + [parts[-1][:-3]]
            prefix = ()
            for c in comps:
                data = r["after"].get(prefix + ("mod.rs",))
                lines = [] if data is None else [l.strip() for l in data.decode(errors="replace").splitlines()]
                if ("pub mod %s;" % c) not in lines:
                    fails.append(("mod_chain_reaches_all", None, "entity %s: %s does not declare `pub mod %s;`" % (rel, "/".join(prefix + ("mod.rs",)), c)))
                    break
                prefix = prefix + (c,)
    dirs = [p for p, d in r["after"].items() if d is None]
    empty = [p for p in dirs if not any(q[:len(p)] == p and len(q) > len(p) for q in r["after"])]
    if empty:
        fails.append(("dirs_minimal", None, "empty directories left: %s" % ["/".join(p) for p in empty][:3]))
    return fails


def tree_layout(rng, tables, step):
    """model files of one step: moved between sub-directories / renamed / json<->yaml as the steps go on"""
    files = {}
    for t in tables:
        sub = rng.choice(["", "", "sub/", "sub/deep/", "other/", "my dir/", "v1.2/x y/",
                          "_shared/", "_shared/", ".drafts/", "__pycache__/", "_/", ".a/_b/", "sub/_inner/"])
        ext = rng.choice(["json", "json", "yaml", "yml"])
        stem = t["name"] + rng.choice(["", "", "", ".v2", " copy"]) + (".vespertide" if rng.random() < 0.25 else "")
        files["%s%s.%s" % (sub, stem, ext)] = json.dumps(t["json"], indent=1) if ext == "json" else t["yaml"]
    return files


SIBLING_DIRS = [("order items", "order_items"), ("a.b", "a_b"), ("x-y", "x_y"), ("p/order items", "p/order_items"),
                ("p q/r.s", "p_q/r_s"), ("my dir", "my_dir")]


def sibling_layout(rng, tables):
    """two different tables as same-stem files in sibling directories whose names differ only in characters that
    sanitize_filename maps to '_' (one output path: refused) or not at all ('x-y' / 'x_y': two paths, exported)"""
    a, b = rng.choice(SIBLING_DIRS)
    stem = rng.choice(["line", "item v2", "entry"])
    files = {}
    for t, d in zip(tables[:2], (a, b)):
        files["%s/%s.json" % (d, stem)] = json.dumps(t["json"], indent=1)
    for t in tables[2:]:
        files["%s.json" % t["name"]] = json.dumps(t["json"], indent=1)
    return files


def run_tree_evolution(hcli, base, idx, evo, seed):
    rng = random.Random(seed * 7919 + idx)
    cfg = {"modelsDir": "models", "migrationsDir": "migrations", "tableNamingCase": "snake", "columnNamingCase": "snake"}
    if rng.random() < 0.5:
        cfg["modelExportDir"] = rng.choice(["gen/entities", "gen/a/b/entities", "./gen/x/", "src/deep/er/models/"])
    if rng.random() < 0.3:
        cfg["modelsDir"] = rng.choice(["db/models", "./src/schema/models/"])
    pdir = os.path.join(base, "t%03d" % idx)
    shutil.rmtree(pdir, ignore_errors=True)
    write_project(pdir, cfg)
    orm = rng.choice(["seaorm", "seaorm", "sqlalchemy", "sqlmodel"])
    export_arg = rng.choice([None, None, "out", "out/put/deep", "./o/u/t/"])
    rows = []
    for si, tables in enumerate(evo["steps"]):
        keep = [t for t in tables if rng.random() < 0.85] or tables[:1]
        sib = len(keep) >= 2 and rng.random() < 0.12
        write_models(pdir, cfg, sibling_layout(rng, keep) if sib else tree_layout(rng, keep, si))
        plant = {}
        if rng.random() < 0.6:
            plant["notes.txt"] = "kept %d" % si
        if rng.random() < 0.4:
            plant["stale/old_entity.%s" % ORM_EXT[orm]] = "stale %d" % si
        if rng.random() < 0.3:
            plant["stale/deeper/x.%s" % ("py" if ORM_EXT[orm] == "rs" else "rs")] = "other language %d" % si
        if rng.random() < 0.2:
            plant["emptydir"] = None
        # stale generated files inside directories with a leading '_' / '.' (the names sanitised model directories get)
        if rng.random() < 0.35:
            plant["%s/stale_%d.%s" % (rng.choice(["_shared", "_drafts", "__pycache__", "_", "_a/_b", ".hidden", "sub/_inner"]), si, ORM_EXT[orm])] = "stale %d" % si
        if rng.random() < 0.15:
            plant["%s/mod.rs" % rng.choice(["_shared", "_drafts", "_a"])] = "pub mod gone;\n"
        if rng.random() < 0.25:
            orm2 = rng.choice(["seaorm", "sqlalchemy", "sqlmodel"])
        else:
            orm2 = orm
        r = export_step(hcli, pdir, cfg, orm2, export_arg, plant, "gen:%d:%d" % (idx, si))
        rows.append(r)
        if "skip" in r:
            break
    return rows


def run_tree_corpus(hcli, base, path):
    c = json.load(open(path))
    cfg = {"modelsDir": "models", "migrationsDir": "migrations", "tableNamingCase": "snake", "columnNamingCase": "snake"}
    cfg.update(c.get("config", {}))
    pdir = os.path.join(base, "c_" + os.path.splitext(os.path.basename(path))[0])
    shutil.rmtree(pdir, ignore_errors=True)
    write_project(pdir, cfg)
    rows = []
    for si, st in enumerate(c["steps"]):
        write_models(pdir, cfg, {rel: (json.dumps(t, indent=1) if not isinstance(t, str) else t) for rel, t in st["models"].items()})
        rows.append(export_step(hcli, pdir, cfg, st.get("orm", c.get("orm", "seaorm")), c.get("export_dir"), st.get("plant"),
                                "corpus:%s:%d" % (os.path.basename(path), si)))
    return rows


@vflib.serialized("run_tree")
def run_tree(tier, seed):
    sz = sizes(tier)
    hcli, err = build_all()
    if err:
        return {"build_error": err}
    base = os.path.join(WORK, "c20_%s_%s" % (tier, seed))
    shutil.rmtree(base, ignore_errors=True)
    os.makedirs(base)
    cmd_start = len(CMDLOG)
    t0 = time.time()
    rows = []
    for f in sorted(glob.glob(os.path.join(ROOT, "corpus", "cli", "c20_*.json"))):
        rows += run_tree_corpus(hcli, base, f)
    evos = gen_evolutions(hcli, seed + 20, sz["tree_evolutions"], sz["steps"] + 1)
    with ThreadPoolExecutor(max_workers=12) as ex:
        for r in ex.map(lambda ie: run_tree_evolution(hcli, base, ie[0], ie[1], seed), list(enumerate(evos))):
            rows += r
    skipped = [r for r in rows if "skip" in r]
    rows = [r for r in rows if "skip" not in r]
    drive_s = time.time() - t0
    mism, classes, errors = run_coq("TreeCorr", "tree_case", "tree_mismatches_from", "classify_tree", [r["term"] for r in rows],
                                    os.path.join(base, "coq"), "cases_tree", sz["per_shard"])
    fails = {}
    for i, r in enumerate(rows):
        f = oracle_c20(r)
        if f:
            fails[i] = f
    save_cmdlog("c20", tier, seed, cmd_start)
    return {"rows": rows, "mismatches": mism, "classes": classes, "errors": errors, "fails": fails, "skipped": len(skipped),
            "drive_s": round(drive_s, 1), "dir": base}


# =================================================================================== verdicts shared by c13.py / c20.py
def load_findings(prop):
    """committed known findings of this property, overridden / extended by the proposals waiting to be committed
    (props/known_<prop>.proposed.json: a proposal with the id of a committed entry replaces it, e.g. open -> fixed)"""
    out = {k["id"]: k for k in vflib.load_known() if k.get("property") == prop}
    p = os.path.join(ROOT, "props", "known_%s.proposed.json" % prop)
    if os.path.exists(p):
        for k in json.load(open(p)).get("findings", []):
            if k.get("property") == prop:
                out[k["id"]] = k
    return list(out.values())


def verdict(chk, prop, res, cls_names, input_of, corr_id, exempt=None):
    """classify oracle failures by the Gallina classifiers (evaluated in Coq with the cases), register violations"""
    rows, fails, classes, mism = res["rows"], res["fails"], res["classes"], dict(res["mismatches"])
    findings = load_findings(prop)
    open_by_cls = {k["classifier"]: k for k in findings if k.get("status") == "open"}
    attributed = {}      # finding id -> [row idx]
    unexplained = []
    for i, fl in sorted(fails.items()):
        for clause, k, text in fl:
            name = cls_names[k] if k is not None else None
            f = open_by_cls.get(name)
            if f is not None and classes.get(i) and k < len(classes[i]) and classes[i][k]:
                attributed.setdefault(f["id"], []).append((i, clause, text))
            else:
                unexplained.append((i, clause, text, name))
    for f in findings:
        if f.get("status") != "open":
            continue
        wit = os.path.basename(f.get("witness", ""))
        hits = attributed.get(f["id"], [])
        wit_hits = [h for h in hits if rows[h[0]]["tag"].startswith("corpus:" + wit + ":")]
        if wit_hits or hits:
            chk.known_finding(f["id"], f["what"])
        if not wit_hits:
            chk.notes.append("NOTE stale known finding %s: its witness %s no longer fails" % (f["id"], f.get("witness")))
    exempt_rows = set()
    if exempt is not None:
        # only the content comparison (sub-check 2) depends on the order of the racing writes; exit status does not
        exempt_rows = {i for i in mism if classes.get(i) and classes[i][exempt] and mism[i] == [2]}
    rel = {i: s for i, s in mism.items() if i not in exempt_rows}
    chk.cov["correspondences"] = {corr_id: {"cases": len(rows), "mismatches": len(rel), "shard_errors": len(res["errors"]),
                                            "exempt_write_race": len(exempt_rows)}}
    chk.cov["theorem_coverage"] = {"oracle_failures": sum(len(v) for v in fails.values()),
                                   "classified_known": {k: len(v) for k, v in attributed.items()}, "unexplained": len(unexplained)}
    seen = set()
    for i, clause, text, name in unexplained:
        if (i, clause) in seen or len(seen) >= 5:
            continue
        seen.add((i, clause))
        rp = vflib.write_replay(prop, "oracle", {"tier": chk.tier, "seed": chk.seed, "clause": clause, "what": text, "tag": rows[i]["tag"],
                                                 "classifier_tried": name, "input": input_of(rows[i]),
                                                 "replay_cmd": "./vf replay %s <this file>" % prop})
        chk.violation(rp)
    if (rel or res["errors"]) and not unexplained:
        payload = {"tier": chk.tier, "seed": chk.seed, "correspondence": corr_id, "shard_errors": res["errors"][:2]}
        if rel:
            i = sorted(rel)[0]
            payload["first_differing_case"] = input_of(rows[i])
            payload["subchecks"] = rel[i]
            payload["tag"] = rows[i]["tag"]
            payload["gallina_case"] = rows[i]["term"][:20000]
        rp = vflib.write_replay(prop, "correspondence:" + corr_id, payload)
        chk.violation(rp, True)
    return attributed, unexplained


def setup():
    build_all()
