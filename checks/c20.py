"""C20 — export output depends only on the current models, with no residue.
Proofs: coq/cli/Properties/C20.v.  Tie: K-tree (real `vespertide export` runs into directories with history vs.
coq/cli/Model/ExportTree.v, compared inside Coq as sets of (path, kind, content)).  Oracle O-C20: compare with an export of
the same models into an empty directory, repeat the export, follow the mod.rs chain."""
import base64, collections, hashlib, json, os, shutil
import vflib, clirun
from vflib import ROOT, CACHE

CLS = []

RULE = ("corpus witnesses (corpus/cli/c20_*.json) + sequences of model sets from the shared generator exported one after another into the same directory: "
        "models added / removed (random subset per step), moved between sub-directories, renamed with the .vespertide infix, json/yaml/yml; three ORMs "
        "(switched mid-sequence in a quarter of the steps); default, configured and --export-dir directories; planted foreign files, stale generated files, "
        "files of the other language, empty directories. One evaluation = one export run (+ the same export into an empty directory + a repeat). "
        "non-trivial = the directory held something before the run and at least one generated file was removed or replaced; distinct by hash of (orm, model files, tree before)")


def enc_tree(t):
    return {"/".join(p): (None if d is None else base64.b64encode(d).decode()) for p, d in t.items()}


def input_of(r):
    return {"orm": r["orm"], "export_dir_arg": r["export_arg"], "models": r["models"], "tree_before_b64": enc_tree(r["before"]),
            "how_to_replay": "create the directory tree (values are base64, null = directory) as the export directory, write the model files, run vespertide export --orm <orm>; or ./vf replay C20 <file>"}


def sample_of(r):
    return {"tag": r["tag"], "orm": r["orm"], "export_dir_arg": r["export_arg"], "model_files": r["model_files"],
            "tree_before": sorted("/".join(p) + ("/" if d is None else "") for p, d in r["before"].items()),
            "tree_after": sorted("/".join(p) + ("/" if d is None else "") for p, d in r["after"].items()),
            "mod_rs": {"/".join(p): d.decode(errors="replace").split() for p, d in r["after"].items() if d is not None and p[-1] == "mod.rs"}}


def run(tier, seed):
    chk = vflib.Check("C20", tier, seed)
    chk.assumptions = [
        "model = coq/cli/Model/ExportTree.v; tie = K-tree evaluated inside Coq on every export run (tree before, models in walk order, tree after)",
        "the exporter is outside this layer: an entity rendering is one opaque content id per table; renderings are identified by comparing bytes with an export into an empty directory (raw bytes, nothing canonicalised)",
        "the order of the parallel writes is unspecified in Rust; the model writes in list order; since fix 18ab122 an output-path collision is refused before anything is written, so the order cannot matter",
        "sanitize_filename is exact for ASCII names (bytes >= 128 are kept); symlinks, permissions and I/O errors other than file-vs-directory clashes are not modelled"]
    chk.cov["trusted_base"] = vflib.TRUSTED_COMMON + [
        "harness_cli/hcli (parses model files with the loader's serde calls), checks/clirun.py (drives the binary, reads directory trees, recognises `pub mod x;` lines)",
        "std::fs::read_dir order (taken from os.scandir on the same directory)"]
    vflib.proof_stage(chk, "cli", "C20")
    res = clirun.run_tree(tier, seed)
    if "build_error" in res:
        rp = vflib.write_replay("C20", "correspondence:build", {"log": res["build_error"]})
        chk.violation(rp, True)
        return chk.finish()
    rows = res["rows"]
    chk.cov["evaluations"] = len(rows)
    seen = set()
    ext = clirun.ORM_EXT
    for r in rows:
        gen_before = {p: d for p, d in r["before"].items() if d is not None and clirun.rust_ext(p[-1]) == ext[r["orm"]]}
        replaced = [p for p, d in gen_before.items() if r["after"].get(p) != d]
        if r["before"] and replaced:
            seen.add(hashlib.sha1(json.dumps([r["orm"], r["models"], enc_tree(r["before"])], sort_keys=True).encode()).hexdigest())
    chk.cov["distinct_nontrivial"] = len(seen)
    chk.cov["rule"] = RULE
    nz = [r for r in rows if len(r["before"]) >= 4 and r["n_models"] >= 2 and r["tag"].startswith("gen")]
    chk.cov["samples"] = [sample_of(r) for r in (nz[:2] or rows[:1])]
    chk.cov["traces_validated_against_impl"] = len(rows)
    dist = collections.Counter()
    for r in rows:
        dist["orm:" + r["orm"]] += 1
        dist["export_dir:" + (r["export_arg"] or "config")] += 1
        dist["exit:%d" % r["rc"]] += 1
        dist["models:%d" % min(r["n_models"], 5)] += 1
        dist["tree_before_entries:%s" % ("0" if not r["before"] else "1-5" if len(r["before"]) <= 5 else ">5")] += 1
        dist["model_exts:" + ",".join(sorted({os.path.splitext(m)[1] for m in r["model_files"]}))] += 1
        dist["sub_directories:%s" % ("yes" if any("/" in m for m in r["model_files"]) else "no")] += 1
    chk.cov["distribution"] = {"runs": dict(dist), "skipped_unparsable": res["skipped"], "drive_s": res["drive_s"]}
    clirun.verdict(chk, "C20", res, CLS, input_of, "K-tree")
    n = max(len(rows), 1)
    chk.cov["theorem_coverage"].update({
        "export_canonical / export_idempotent / export_no_residue / dirs_minimal (all trees, all model lists)": 1.0,
        "export_entities_exact / export_collision_refused / mod_chain_reaches_all (all runs)": 1.0})
    return chk.finish()


def replay(path):
    rp = json.load(open(path))
    inp = rp.get("input") or rp.get("first_differing_case")
    if not inp:
        print("replay file has no input (%s)" % rp.get("kind"))
        print(json.dumps(rp, indent=1)[:3000])
        return 1
    hcli, err = clirun.build_all()
    if err:
        print(err)
        return 1
    pdir = os.path.join(CACHE, "cli", "replay_C20")
    shutil.rmtree(pdir, ignore_errors=True)
    cfg = {"modelsDir": "models", "migrationsDir": "migrations", "tableNamingCase": "snake", "columnNamingCase": "snake"}
    clirun.write_project(pdir, cfg)
    clirun.write_models(pdir, cfg, inp["models"])
    arg = inp.get("export_dir_arg") or "out"
    root = os.path.join(pdir, arg)
    for p, d in inp["tree_before_b64"].items():
        f = os.path.join(root, p)
        if d is None:
            os.makedirs(f, exist_ok=True)
        else:
            os.makedirs(os.path.dirname(f), exist_ok=True)
            open(f, "wb").write(base64.b64decode(d))
    r = clirun.export_step(hcli, pdir, cfg, inp["orm"], arg, None, "replay:0")
    if "skip" in r:
        print("models do not parse")
        return 1
    fails = clirun.oracle_c20(r)
    mism, classes, errors = clirun.run_coq("TreeCorr", "tree_case", "tree_mismatches_from", "classify_tree", [r["term"]],
                                           os.path.join(pdir, "coq"), "cases_tree", 5)
    for clause, k, text in fails:
        print("oracle: %s: %s" % (clause, text))
    print("correspondence K-tree: %s" % ("differs in sub-checks %s" % mism[0] if mism else "agrees" if not errors else errors))
    want = rp.get("clause")
    bad = [f for f in fails if want is None or f[0] == want] if rp.get("kind") == "oracle" else (list(mism) or errors)
    if bad:
        print("VIOLATION property=C20 replay=%s" % path)
        return 1
    return 0
